"""C22 — a match rule's string form parses back to the same rule."""
import C21 as base

ID = "C22"
CRATE = "hmatch"
RUN_MODULE = "C22.Run"
TWO_PHASE = True
RULE = ("(s) rules built through zbus::match_rule::Builder with every key, argument indices over the whole 0..63 range (and refused ones), "
        "argument values drawn from strings with apostrophes, commas, backslashes, '=', empty and non-ASCII strings; the rule is "
        "formatted, the string parsed again by zbus and read by the specification's reader; "
        "(p) arbitrary strings: formatted rules with one or two syntax mutations (key variants arg+5 / arg007 / arg5pathX / arg64, dropped "
        "quotes, doubled commas, duplicate keys, path + path_namespace, spaces, unknown keys, spec-style escapes) and random strings "
        "over the syntax alphabet; accepted strings are formatted and parsed again. "
        "non-trivial = the rule has two or more keys or an argument value with a syntax character, or the string was accepted")
TRUSTED = ["the name / object-path validators are the model of C10 (C10/Model.v)",
           "the rule record, builder and Display/TryFrom<&str> models (C21/Model.v, C22/Model.v); harness hmatch"]
ASSUMPTIONS = ["all strings are valid UTF-8 (the API takes &str); bytes are compared, so no normalisation is involved",
               "'equal rule' for the specification's reader means: the key/value list it reads is the one the rule record denotes "
               "(Spec.pairs_of, injective on builder-made rules: C22_pairs_of_injective)"]

VALS = ["", "x", "xy", "a'b", "'", "''", "a,b", ",", "a\\b", "\\", "\\'", "a=b", "=", "é", "a b", "/a", "org.zbus", "x'y,z", "'x'", "a\\'b",
        "arg0='x'", "tab\there", "x',arg1='y", "x',arg0='y", "',type='error"]


def gen_rule22(rng):
    ops = []
    if rng.random() < 0.5:
        ops.append(("ty", str(rng.choice([1, 2, 3, 4]))))
    if rng.random() < 0.5:
        ops.append(("sn", rng.choice(base.UNIQ + base.WELL)))
    if rng.random() < 0.5:
        ops.append(("if", rng.choice(base.IFACES)))
    if rng.random() < 0.5:
        ops.append(("mb", rng.choice(base.MEMBERS)))
    c = rng.random()
    if c < 0.3:
        ops.append(("pa", rng.choice(base.PATHS)))
    elif c < 0.6:
        ops.append(("pn", rng.choice(base.PATHS)))
    elif c < 0.65:
        ops.append(("pn", rng.choice(base.PATHS)))
        ops.append(("pa", rng.choice(base.PATHS)))
    if rng.random() < 0.4:
        ops.append(("de", rng.choice(base.UNIQ)))
    if rng.random() < 0.35:
        ops.append(("ns", rng.choice(base.NSS)))
    plain = rng.random() < 0.45          # a good share of rules without syntax characters in the values
    for _ in range(rng.choice([0, 0, 1, 1, 2, 3, 6])):
        v = rng.choice(["", "x", "xy", "a\\b", "a=b", "é", "/a", "org.zbus"]) if plain else rng.choice(VALS)
        if rng.random() < 0.75:
            ops.append(("ar", (rng.randint(0, 63), v)))
        else:
            ops.append(("aa", v))
    for _ in range(rng.choice([0, 0, 1, 1, 2, 4])):
        if rng.random() < 0.75:
            ops.append(("ap", (rng.randint(0, 63), rng.choice(base.PATHS))))
        else:
            ops.append(("aq", rng.choice(base.PATHS)))
    if rng.random() < 0.4:
        rng.shuffle(ops)
    return ops


def s_line(ops):
    return ("s " + " ".join(base.enc_tok(k, v) for k, v in ops)).rstrip()


def p_line(s):
    return "p " + s.encode("utf8").hex()


def show_like(rng, ops):
    """a string in the style of Display for the accepted operations (not necessarily what zbus prints)"""
    v = base.rule_view(ops)
    parts = []
    if "ty" in v:
        parts.append("type='%s'" % {"1": "method_call", "2": "method_return", "3": "error", "4": "signal"}[v["ty"]])
    for k, name in (("sn", "sender"), ("if", "interface"), ("mb", "member"), ("de", "destination"), ("pa", "path"),
                    ("pn", "path_namespace")):
        if k in v:
            parts.append("%s='%s'" % (name, v[k]))
    for i in sorted(v["args"]):
        parts.append("arg%d='%s'" % (i, v["args"][i]))
    for i in sorted(v["paths"]):
        parts.append("arg%dpath='%s'" % (i, v["paths"][i]))
    if "ns" in v:
        parts.append("arg0namespace='%s'" % v["ns"])
    return parts


KEY_VARIANTS = ["arg+5", "arg007", "arg5pathX", "arg64", "arg63", "arg255", "arg256", "arg", "argx", "argpath", "arg-1", "arg1namespace",
                "arg0namespace", "arg 1", "ARG0", "Type", "eavesdrop", "pathological", "path_namespac", "arg+", "arg++1", "arg1path2",
                "arg12path", "arg1pathpath", "argpath1", "arg0pa", "arg 0path"]


def mutate(rng, parts):
    parts = list(parts)
    for _ in range(rng.choice([0, 1, 1, 2])):
        c = rng.random()
        if c < 0.2 and parts:
            i = rng.randrange(len(parts))
            k, _, val = parts[i].partition("=")
            parts[i] = rng.choice(KEY_VARIANTS) + "=" + val
        elif c < 0.3:
            parts.insert(rng.randint(0, len(parts)), rng.choice(KEY_VARIANTS) + "='" + rng.choice(["x", "/a", "a.b", "signal", ""]) + "'")
        elif c < 0.4 and parts:
            i = rng.randrange(len(parts))
            parts[i] = parts[i].replace("'", "", 1) if rng.random() < 0.5 else parts[i][:-1]
        elif c < 0.5:
            parts.insert(rng.randint(0, len(parts)), rng.choice(["", " ", "x", "=", "''", "='x'", "k="]))
        elif c < 0.6 and parts:
            parts.insert(rng.randint(0, len(parts)), rng.choice(parts))
        elif c < 0.7:
            parts.append(rng.choice(["path='/z'", "path_namespace='/z'", "type='bogus'", "type='signal'", "sender='a..b'", "member='7'",
                                     "destination='a.b'", "arg0namespace='org.'", "arg0path='/a/'"]))
        elif c < 0.8 and parts:
            i = rng.randrange(len(parts))
            k, _, val = parts[i].partition("=")
            parts[i] = rng.choice([" " + k, k + " ", k.upper()]) + "=" + val
        elif c < 0.9 and parts:
            i = rng.randrange(len(parts))
            k, _, val = parts[i].partition("=")
            # the specification's other spellings of the same value
            inner = val[1:-1] if len(val) >= 2 else val
            parts[i] = k + "=" + rng.choice([inner, inner.replace("'", "\\'"), "'" + inner.replace("'", "'\\''") + "'", '"' + inner + '"'])
        else:
            rng.shuffle(parts)
    return ",".join(parts)


ALPHA = ["a", "r", "g", "0", "1", "6", "=", "'", ",", "\\", "p", "ath", "arg", "type", "'signal'", "+", " ", "x"]


def gen(rng, tier):
    n = 12000 if tier == "quick" else 150000
    yield "s"
    for _ in range(n):
        ops = base.refused_rule(rng) if rng.random() < 0.04 else gen_rule22(rng)
        yield s_line(ops)
    for _ in range(n):
        ops = gen_rule22(rng)
        yield p_line(mutate(rng, show_like(rng, ops)))
    for _ in range(n // 3):
        yield p_line("".join(rng.choice(ALPHA) for _ in range(rng.randint(0, 9))))
    # every index on both key forms, and the first refused ones
    for i in list(range(0, 70)) + [127, 128, 254, 255, 256, 300, 1000]:
        yield p_line("arg%d='v'" % i)
        yield p_line("arg%dpath='/v'" % i)
        yield p_line("arg+%d='v'" % i)
        yield p_line("arg0%d='v'" % i)
        if i < 256:
            yield s_line([("ar", (i, "v"))])
            yield s_line([("ap", (i, "/v"))])
    yield s_line([("aa", "x")] * 64)
    yield s_line([("aa", "x")] * 65)
    yield s_line([("aq", "/x")] * 64 + [("ar", (63, "y")), ("ar", (0, "z"))])


def nontrivial(case, impl_out):
    if case.startswith("p"):
        return impl_out.startswith("S:") or len(case) > 12
    return case.count("=") >= 2 or any(h in case for h in ("27", "2c", "5c"))


def classify(case, impl_out):
    o = impl_out.split(";")
    tail = o[1].split(":")[0] if len(o) > 1 else o[0].split(":")[0]
    return "%s:%s" % (case[:1], tail)


def search(rng, bad_cases):
    for _ in range(60000):
        yield s_line(gen_rule22(rng))
    for _ in range(60000):
        yield p_line(mutate(rng, show_like(rng, gen_rule22(rng))))


ENABLED = True
PARTIAL = ["C22_roundtrip_partial", "C22_spec_reader_partial", "C22_partial", "C22_full_refuted", "C22_comma_value_refuted",
           "C22_comma_value_other_rule_refuted", "C22_apostrophe_value_refuted"]
LEVEL = "proof"
LEVEL_TEXT = ("Theorems in coq/theories/Properties/C22.v over models of Display and TryFrom<&str>: for every rule the builder can produce "
              "(any sequence of builder operations, the rule without keys included since fix 235b9dce), outside two described classes "
              "(an argument value with a comma / with an apostrophe) the string form parses back to the same rule "
              "(C22_roundtrip_partial) and the specification's reader — a state machine written from the quoting rules of the D-Bus "
              "specification — reads it as exactly the key/value pairs the rule denotes (C22_spec_reader_partial); parsing any accepted "
              "string, formatting and parsing again is stable at full strength, no exception (C22_stable); the parser never panics. "
              "The full statement is still refuted by three machine-checked counterexamples confirmed on the real code (known findings). "
              "Model tied to the code by a two-phase differential run: the model predicts the harness's observation, the specification's "
              "reader is run on the string the implementation printed.")
LEVEL_NOTE = ("Partial. Trusted: Coq kernel; hand-written models C21/Model.v (rule, builder) and C22/Model.v (Display, TryFrom<&str>); "
              "C10's validator model; harness hmatch. Fixed by 235b9dce (witness kept, must pass): the rule with no keys formats to \"\" "
              "which zbus refused to parse. Known findings: an argument value containing ',' formats to a string zbus cannot parse back (it splits on every comma); an argument value "
              "containing an apostrophe formats to a string that is not a valid D-Bus match rule (no escaping in Display).")
