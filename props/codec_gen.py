"""Shared generator for the codec properties (C01, C02, C03, C04, C07).

Values are Python tuples: ('y',n) ('b',0/1) ('n',z) ('q',n) ('i',z) ('u',n) ('x',z) ('t',n) ('d',bits) ('s',bytes)
('o',bytes) ('g',sigstr) ('h',idx) ('v',val) ('a',elemsig,[vals]) ('e',ksig,vsig,[(k,v)]) ('r',[vals]).
Signatures are trees: basic char | ('a',child) | ('e',k,v) | ('r',[fields]).
A Python marshaller (third, throw-away implementation) supplies mostly-valid byte strings to mutate.
"""
import struct

BASIC = "ybnqiuxtdsogh"
ALIGN = {'y': 1, 'b': 4, 'n': 2, 'q': 2, 'i': 4, 'u': 4, 'x': 8, 't': 8, 'd': 8, 's': 4, 'o': 4, 'g': 1, 'h': 4, 'v': 1}


def sigstr(s):
    if isinstance(s, str):
        return s
    if s[0] == 'a':
        return "a" + sigstr(s[1])
    if s[0] == 'e':
        return "a{" + sigstr(s[1]) + sigstr(s[2]) + "}"
    if s[0] == 'r':
        return "(" + "".join(sigstr(x) for x in s[1]) + ")"
    raise ValueError(s)


def sig_align(s):
    if isinstance(s, str):
        return ALIGN[s]
    return {'a': 4, 'e': 4, 'r': 8}[s[0]]


def rand_sig(rng, depth=3, fds=True, key=False):
    basics = "ybnqiuxtdsog" + ("h" if fds else "")
    if key:
        return rng.choice("ybnqiuxtso")        # no signature keys (Signature::cmp), no double keys (NaN/±0 ordering), no fds as keys
    r = rng.random()
    if depth <= 0 or r < 0.45:
        return rng.choice(basics)
    if r < 0.55:
        return 'v'
    if r < 0.72:
        return ('a', rand_sig(rng, depth - 1, fds))
    if r < 0.84:
        return ('e', rand_sig(rng, 0, fds, key=True), rand_sig(rng, depth - 1, fds))
    return ('r', [rand_sig(rng, depth - 1, fds) for _ in range(rng.choice([1, 1, 2, 2, 3, 4]))])


INT_RANGE = {'y': (0, 255), 'n': (-32768, 32767), 'q': (0, 65535), 'i': (-2 ** 31, 2 ** 31 - 1), 'u': (0, 2 ** 32 - 1),
             'x': (-2 ** 63, 2 ** 63 - 1), 't': (0, 2 ** 64 - 1)}
STRS = [b"", b"a", b"abc", "é".encode(), "日本".encode(), b"hello world", b"x" * 7, b"0123456789abcdef", "\U0001F600".encode()]
PATHS = [b"/", b"/a", b"/a/b", b"/org/zbus/Obj_1", b"/a1/_b/C"]
SIGS = ["-", "y", "s", "as", "a{sv}", "(ii)", "ai", "sv", "a(yt)u", "aay"]
F64 = [0, 0x8000000000000000, 0x3ff0000000000000, 0x7ff0000000000000, 0xfff0000000000000, 0x7ff8000000000000,
       0x7ff0000000000001, 0x400921fb54442d18, 1, 0x000fffffffffffff]


def rand_int(rng, t):
    lo, hi = INT_RANGE[t]
    r = rng.random()
    if r < 0.25:
        return rng.choice([lo, hi, 0, 1, lo + 1, hi - 1])
    if r < 0.6:
        return rng.randint(max(lo, -5), min(hi, 300))
    return rng.randint(lo, hi)


def rand_val(rng, s, depth=3, nfds=4):
    if isinstance(s, str):
        if s in INT_RANGE:
            return (s, rand_int(rng, s))
        if s == 'b':
            return ('b', rng.randint(0, 1))
        if s == 'd':
            return ('d', rng.choice(F64) if rng.random() < 0.6 else rng.getrandbits(64))
        if s == 's':
            return ('s', rng.choice(STRS) if rng.random() < 0.7 else bytes(rng.choice(b"abcXYZ019 _-") for _ in range(rng.randint(0, 20))))
        if s == 'o':
            return ('o', rng.choice(PATHS))
        if s == 'g':
            return ('g', rng.choice(SIGS))
        if s == 'h':
            return ('h', rng.randint(0, nfds - 1))
        if s == 'v':
            inner = rand_sig(rng, max(0, depth - 1))
            return ('v', rand_val(rng, inner, depth - 1, nfds))
        raise ValueError(s)
    if s[0] == 'a':
        n = rng.choice([0, 0, 1, 1, 2, 3, 5]) if depth > 0 else rng.choice([0, 1])
        return ('a', s[1], [rand_val(rng, s[1], depth - 1, nfds) for _ in range(n)])
    if s[0] == 'e':
        n = rng.choice([0, 1, 1, 2, 3]) if depth > 0 else rng.choice([0, 1])
        ents, seen = [], set()
        for _ in range(n):
            k = rand_val(rng, s[1], 0, nfds)
            if k[1] in seen:
                continue
            seen.add(k[1])
            ents.append((k, rand_val(rng, s[2], depth - 1, nfds)))
        ents.sort(key=lambda kv: key_order(kv[0]))
        return ('e', s[1], s[2], ents)
    if s[0] == 'r':
        return ('r', [rand_val(rng, f, depth - 1, nfds) for f in s[1]])
    raise ValueError(s)


def key_order(k):
    """zvariant::Value's Ord on basic keys: numeric for numbers, bytewise for strings."""
    return k[1]


def vsig(v):
    t = v[0]
    if t in BASIC or t == 'v':
        return t
    if t == 'a':
        return ('a', v[1])
    if t == 'e':
        return ('e', v[1], v[2])
    if t == 'r':
        return ('r', [vsig(x) for x in v[1]])
    raise ValueError(v)


def hext(b):
    return b.hex() if b else "-"


def toks(v):
    t = v[0]
    if t in "ybnqiuxth":
        return [t, str(v[1])]
    if t == 'd':
        return ['d', "%016x" % v[1]]
    if t in "so":
        return [t, hext(v[1])]
    if t == 'g':
        return ['g', v[1]]
    if t == 'v':
        return ['v'] + toks(v[1])
    if t == 'a':
        out = ['a', sigstr(v[1]) or "-", str(len(v[2]))]
        for x in v[2]:
            out += toks(x)
        return out
    if t == 'e':
        out = ['e', sigstr(v[1]), sigstr(v[2]), str(len(v[3]))]
        for k, x in v[3]:
            out += toks(k) + toks(x)
        return out
    if t == 'r':
        out = ['r', str(len(v[1]))]
        for x in v[1]:
            out += toks(x)
        return out
    raise ValueError(v)


def text(v):
    return " ".join(toks(v))


# ---------------------------------------------------------------- python marshaller (input source only)

def fds_of(v, acc):
    t = v[0]
    if t == 'h':
        if v[1] not in acc:
            acc.append(v[1])
    elif t == 'v':
        fds_of(v[1], acc)
    elif t == 'a':
        for x in v[2]:
            fds_of(x, acc)
    elif t == 'e':
        for k, x in v[3]:
            fds_of(k, acc)
            fds_of(x, acc)
    elif t == 'r':
        for x in v[1]:
            fds_of(x, acc)
    return acc


def marshal(v, big, pos, fdt=None):
    if fdt is None:
        fdt = fds_of(v, [])
    e = '>' if big else '<'
    out = bytearray()

    def pad(al):
        while (pos + len(out)) % al:
            out.append(0)

    def go(v):
        t = v[0]
        if t == 'y':
            out.append(v[1] & 0xff)
        elif t == 'b':
            pad(4); out.extend(struct.pack(e + 'I', v[1]))
        elif t == 'n':
            pad(2); out.extend(struct.pack(e + 'h', v[1]))
        elif t == 'q':
            pad(2); out.extend(struct.pack(e + 'H', v[1]))
        elif t == 'i':
            pad(4); out.extend(struct.pack(e + 'i', v[1]))
        elif t == 'u':
            pad(4); out.extend(struct.pack(e + 'I', v[1]))
        elif t == 'x':
            pad(8); out.extend(struct.pack(e + 'q', v[1]))
        elif t in 'td':
            pad(8); out.extend(struct.pack(e + 'Q', v[1]))
        elif t in 'so':
            pad(4); out.extend(struct.pack(e + 'I', len(v[1]))); out.extend(v[1]); out.append(0)
        elif t == 'g':
            s = b"" if v[1] == "-" else v[1].encode()
            out.append(len(s)); out.extend(s); out.append(0)
        elif t == 'h':
            pad(4); out.extend(struct.pack(e + 'I', fdt.index(v[1])))
        elif t == 'v':
            s = sigstr(vsig(v[1])).encode()
            out.append(len(s)); out.extend(s); out.append(0)
            go(v[1])
        elif t in 'ae':
            pad(4)
            at = len(out)
            out.extend(b"\0\0\0\0")
            pad(sig_align(v[1]) if t == 'a' else 8)
            start = len(out)
            if t == 'a':
                for x in v[2]:
                    go(x)
            else:
                for k, x in v[3]:
                    pad(8); go(k); go(x)
            out[at:at + 4] = struct.pack(e + 'I', len(out) - start)
        elif t == 'r':
            pad(8)
            for x in v[1]:
                go(x)
        else:
            raise ValueError(v)

    go(v)
    return bytes(out), len(fdt)


def mutate(rng, b):
    """single / few-byte structural mutations of a valid encoding"""
    if not b:
        return bytes([rng.randrange(256)])
    b = bytearray(b)
    r = rng.random()
    if r < 0.35:
        i = rng.randrange(len(b))
        b[i] = rng.choice([0, 1, 2, 0xff, 0x80, b[i] ^ 1, (b[i] + 1) & 0xff, (b[i] - 1) & 0xff, rng.randrange(256)])
    elif r < 0.55:
        return bytes(b[:rng.randrange(len(b))])                      # truncation
    elif r < 0.65:
        b.extend(rng.choice([b"\0", b"\0\0\0\0", b"\x01", bytes([rng.randrange(256)])]))
    elif r < 0.75:
        i = rng.randrange(len(b)); del b[i]
    elif r < 0.85:
        i = rng.randrange(len(b)); b.insert(i, rng.choice([0, 0, 1, 0xff]))
    else:
        for _ in range(rng.randint(2, 3)):
            i = rng.randrange(len(b)); b[i] = rng.randrange(256)
    return bytes(b)


TYPED = {"y": 'y', "b": 'b', "n": 'n', "q": 'q', "i": 'i', "u": 'u', "x": 'x', "t": 't', "d": 'd', "s": 's', "o": 'o', "g": 'g',
         "au": ('a', 'u'), "as": ('a', 's'), "ay": ('a', 'y'), "aay": ('a', ('a', 'y')), "ax": ('a', 'x'),
         "(ys)": ('r', ['y', 's']), "(yt)": ('r', ['y', 't']), "a(yt)": ('a', ('r', ['y', 't'])),
         "(yas)": ('r', ['y', ('a', 's')]), "(ya(ns)t)": ('r', ['y', ('a', ('r', ['n', 's'])), 't']),
         "a{su}": ('e', 's', 'u'), "a{us}": ('e', 'u', 's'), "a{sv}": ('e', 's', 'v'), "a{yat}": ('e', 'y', ('a', 't'))}


def tower(word, leaf=('y', 7)):
    """value built from a word over a ( v { : nested containers, e.g. 'aa(v' """
    v = leaf
    for ch in reversed(word):
        if ch == 'a':
            v = ('a', vsig(v), [v])
        elif ch == '(':
            v = ('r', [v])
        elif ch == 'v':
            v = ('v', v)
        elif ch == '{':
            v = ('e', 's', vsig(v), [(('s', b"k"), v)])
    return v


def case_ser(cfg, big, pos, mode, v, cmd="ser"):
    return "%s %s %s %d %s %s" % (cmd, cfg, "B" if big else "L", pos, mode, text(v))


def case_de_v(cfg, big, pos, nfds, b):
    return "de %s %s %d %d v %s" % (cfg, "B" if big else "L", pos, nfds, hext(b))


def case_de_s(cfg, big, pos, nfds, sig, b):
    return "de %s %s %d %d s %s %s" % (cfg, "B" if big else "L", pos, nfds, sig or "-", hext(b))


POSITIONS = [0, 0, 0, 1, 2, 3, 4, 5, 6, 7, 8, 9, 12, 15, 16, 4294967296, 4294967299]


def rand_pos(rng):
    return rng.choice(POSITIONS)


def wide_values():
    """many SIBLING containers (counter leaks across siblings show only beyond 32 / 64 of them)"""
    out = []
    for n in (31, 32, 33, 34, 40, 65, 70):
        st = ('r', [('y', 1), ('s', b"x")])
        out.append(('a', vsig(st), [st] * n))                                   # array of n structs
        out.append(('a', ('a', 'y'), [('a', 'y', [('y', 2)])] * n))             # array of n arrays
        out.append(('a', 'v', [('v', ('u', 3))] * n))                           # array of n variants
        out.append(('r', [('r', [('y', 4)])] * n))                              # struct of n structs
        out.append(('r', [('a', 'q', [])] * n))                                 # struct of n empty arrays
        out.append(('e', 'u', vsig(st), [(('u', i), st) for i in range(n)]))    # dict with n struct values
        out.append(('e', 'u', 'v', [(('u', i), ('v', ('a', 'y', []))) for i in range(n)]))
        out.append(('a', ('r', [('a', ('r', ['y']))]), [('r', [('a', ('r', ['y']), [('r', [('y', 5)])] * 3)])] * n))
    return out


def limit_words():
    """container towers around every nesting limit, in several orders (shared by C07, C03, C04)"""
    out = []
    for a in (0, 1, 31, 32, 33):
        for s in (0, 1, 31, 32, 33):
            for v in (0, 1, 2):
                if a + s + v == 0:
                    continue
                out.append("a" * a + "(" * s + "v" * v)
                out.append("(" * s + "v" * v + "a" * a)
                out.append("v" * v + "a" * a + "(" * s)
    # totals around 64 with variants
    for v in (0, 1, 2, 3, 30, 31, 32, 33, 34, 63, 64, 65, 66):
        out.append("a" * 16 + "(" * 16 + "v" * v)
        out.append("v" * v + "a" * 31)
        out.append("v" * v)
        out.append("a" * 32 + "(" * 32 + "v" * min(v, 3))
    # interleavings
    for k in (15, 16, 17, 31, 32, 33):
        out.append("a(" * k)
        out.append("(a" * k)
        out.append("av(" * (k // 2))
        out.append("{(" * k)
        out.append("{" * k)
    return sorted(set(out))


