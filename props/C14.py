"""C14 — the byte stream is framed into exactly the messages that were sent."""
import re
import resource
import struct

# the engine's in-Coq cross-check puts sampled case lines into string literals; a 130 KB literal needs more than the
# default 8 MB stack of coqc. Child processes inherit this limit.
try:
    resource.setrlimit(resource.RLIMIT_STACK, (resource.RLIM_INFINITY, resource.getrlimit(resource.RLIMIT_STACK)[1]))
except (ValueError, OSError):
    pass

ID = "C14"
CRATE = "hconn"
RUN_MODULE = "C14.Run"
RULE = ("case = handshake cut + recvmsg answer script + units (bytes, nfds). Families: (1) ALL compositions of the 12 "
        "(quick) / 14 (thorough) bytes that remain after the cut for four short streams (one 16-byte message, header+body, "
        "two messages, one fd-carrying message); (2) random sequences of 1-6 builder-shaped messages (both endiannesses, "
        "bodies 0 B - 64 KiB, 0-3 descriptors) under random chunkings (1-byte reads, small, exact, large) and random cuts "
        "(0, inside the header, at/around message boundaries, several messages deep); (3) the same with EOF / io-error answers; "
        "(4) malformed primary headers (endian, type, zero serial), unknown flag bits and unknown header-field codes (tolerated), field code 0, wrong value types, invalid names in header fields, lying lengths, declared sizes around and above "
        "128 MiB, descriptor counts that disagree with UNIX_FDS; (5) mode c: the same streams through a real client handshake "
        "(leftovers = what arrives with the last handshake line), the real SocketReader and a MessageStream. "
        "non-trivial = at least one message delivered and (cut > 0 or at least two scripted answers)")
TRUSTED = ["the scripted transport of harness/hconn (recvmsg answers: 1..|buf| next bytes with the descriptors riding on them | EOF | error)",
           "message identity is compared as (length, 64-bit multiplicative hash of the bytes); descriptor identity as (st_dev, st_ino)",
           "header-field deserialisation is a parameter of the model; the driver instance c11_fields is C11's model of message::Fields "
           "(unknown codes skipped, code 0 rejected, names validated), reused read-only"]
ASSUMPTIONS = ["transport read contract (DESIGN Appendix B): recvmsg(buf) returns 1..|buf| next stream bytes and the descriptors "
               "attached to them, 0 at EOF, or an error; a sender attaches a message's descriptors to its first byte",
               "u64 receive sequence numbers do not wrap (2^64 messages)"]

MAX = 128 * 1024 * 1024
SAFE = "acdefghijkmnpqrtvwxyz"      # no 'l', no 'B': a misaligned parse fails at the endian byte


def pad(b, n):
    return b + b"\0" * ((-len(b)) % n)


def field(code, sig, val, big):
    e = ">" if big else "<"
    out = bytes([code, len(sig)]) + sig.encode() + b"\0"
    if sig in ("o", "s"):
        out = pad(out, 4) + struct.pack(e + "I", len(val)) + val.encode() + b"\0"
    elif sig == "g":
        out += bytes([len(val)]) + val.encode() + b"\0"
    elif sig == "u":
        out = pad(out, 4) + struct.pack(e + "I", val)
    return out


def raw_field(code, sig, pos, big, rng=None):
    """one (yv) element with an arbitrary code and a value of type `sig`, laid out from offset `pos` (a multiple of 8)"""
    e = ">" if big else "<"
    out = bytes([code, len(sig)]) + sig.encode() + b"\0"

    def al(n):
        nonlocal out
        out += b"\0" * ((-(pos + len(out))) % n)

    if sig == "s":
        al(4)
        out += struct.pack(e + "I", 3) + b"xyz\0"
    elif sig == "u":
        al(4)
        out += struct.pack(e + "I", 77)
    elif sig == "b":
        al(4)
        out += struct.pack(e + "I", 1)
    elif sig == "y":
        out += b"\x07"
    elif sig == "t":
        al(8)
        out += struct.pack(e + "Q", 1 << 40)
    elif sig == "ay":
        al(4)
        out += struct.pack(e + "I", 5) + b"\1\2\3\4\5"
    elif sig == "as":
        al(4)
        body = struct.pack(e + "I", 1) + b"a\0" + b"\0\0" + struct.pack(e + "I", 2) + b"bc\0"
        out += struct.pack(e + "I", len(body)) + body
    elif sig == "(su)":
        al(8)
        out += struct.pack(e + "I", 1) + b"q\0" + b"\0\0" + struct.pack(e + "I", 9)
    elif sig == "v":
        out += b"\x01u\0"
        al(4)
        out += struct.pack(e + "I", 5)
    elif sig == "g":
        out += b"\x02ai\0"
    elif sig == "o":
        al(4)
        out += struct.pack(e + "I", 2) + b"/z\0"
    return out


def msg(big=False, mtype=1, flags=0, serial=1, path="/a", member="m", iface=None, dest=None, sig=None, body=b"",
        nfds=None, reply=None, body_len=None, fields_len=None, version=1, endian=None, sender=None, errname=None, extra=()):
    e = ">" if big else "<"
    fs = []
    if path is not None:
        fs.append(field(1, "o", path, big))
    if iface is not None:
        fs.append(field(2, "s", iface, big))
    if member is not None:
        fs.append(field(3, "s", member, big))
    if reply is not None:
        fs.append(field(5, "u", reply, big))
    if dest is not None:
        fs.append(field(6, "s", dest, big))
    if sig is not None:
        fs.append(field(8, "g", sig, big))
    if errname is not None:
        fs.append(field(4, "s", errname, big))
    if sender is not None:
        fs.append(field(7, "s", sender, big))
    if nfds is not None:
        fs.append(field(9, "u", nfds, big))
    arr = b""
    for f in fs:
        arr = pad(arr, 8) + f
    for code, xsig in extra:
        arr = pad(arr, 8)
        arr += raw_field(code, xsig, len(arr), big)
    eb = endian if endian is not None else (ord("B") if big else ord("l"))
    h = bytes([eb, mtype, flags, version]) + struct.pack(e + "II", len(body) if body_len is None else body_len, serial)
    h += struct.pack(e + "I", len(arr) if fields_len is None else fields_len) + arr
    return pad(h, 8) + body


def compositions(n):
    """all ways to write n as an ordered sum of positive integers"""
    for mask in range(1 << (n - 1)):
        parts, run = [], 1
        for i in range(n - 1):
            if mask >> i & 1:
                parts.append(run)
                run = 1
            else:
                run += 1
        parts.append(run)
        yield parts


def line(mode, cut, script, units):
    sc = ",".join(str(x) for x in script) if script else "-"
    return "F %s %d %s %s" % (mode, cut, sc, " ".join("%s:%d" % (b.hex(), k) for b, k in units))


P16 = msg(path=None, member=None)                                   # 16 bytes: no fields, no body
HB24 = msg(path=None, member=None, body=bytes(range(1, 9)))         # 16-byte header + 8 bytes of body
FD24 = msg(path=None, member=None, nfds=1)                          # 24 bytes: UNIX_FDS = 1


def all_splits(n):
    fams = [(16 - n + 0, [(P16, 0)]), (24 - n, [(HB24, 0)]), (32 - n, [(P16, 0), (P16, 0)]), (24 - n, [(FD24, 1)])]
    for cut, units in fams:
        for parts in compositions(n):
            yield line("d", cut, parts, units)


def name(rng, lo=1, hi=8):
    return "".join(rng.choice(SAFE) for _ in range(rng.randint(lo, hi)))


def rand_body(rng, n):
    # bytes 0x00..0x3f: never an endian marker
    return bytes(rng.getrandbits(6) for _ in range(n)) if n < 4096 else bytes([rng.getrandbits(6)]) * n


def serial(rng):
    while True:
        s = rng.randint(1, 0xffffffff)
        if not any(b in (0x42, 0x6c) for b in struct.pack("<I", s)):
            return s


def rand_msg(rng, allow_fds=True, big_ok=True):
    r = rng.random()
    if r < 0.30:
        n = 0
    elif r < 0.75:
        n = rng.randint(1, 64)
    elif r < 0.98:
        n = rng.randint(65, 2000)
    else:
        n = rng.choice([2048, 3000, 4096])
    k = 0
    if allow_fds and rng.random() < 0.25:
        k = rng.randint(1, 3)
    kw = dict(big=rng.random() < 0.3, mtype=rng.randint(1, 4), flags=rng.choice([0, 0, 1, 2, 4, 3, 7]) , serial=serial(rng),
              path="/" + "/".join(name(rng) for _ in range(rng.randint(1, 3))), member=name(rng), body=rand_body(rng, n))
    if kw["mtype"] != 1:
        kw["flags"] &= 6
    if rng.random() < 0.6:
        kw["iface"] = name(rng) + "." + name(rng)
    if rng.random() < 0.3:
        kw["dest"] = name(rng) + "." + name(rng)
    if n:
        kw["sig"] = "ay"
    if k:
        kw["nfds"] = k
    elif rng.random() < 0.05:
        kw["nfds"] = 0
    if rng.random() < 0.1:
        kw.update(path=None, member=None, iface=None, dest=None)
        kw.pop("iface", None), kw.pop("dest", None)
    if rng.random() < 0.15:
        kw["flags"] = rng.choice([0x08, 0x10, 0x80, 0x09, 0xff, 0x47, 0x20]) | rng.choice([0, 0, 2, 4])   # unknown flag bits are ignored
    if rng.random() < 0.15:
        # header fields with codes this version does not know are skipped, whatever their (well-formed) value
        kw["extra"] = [(rng.choice([10, 11, 16, 0x20, 0x7f, 0xff]), rng.choice(XSIGS)) for _ in range(rng.randint(1, 2))]
    if rng.random() < 0.1:
        kw["sender"] = ":1." + str(rng.randint(1, 99))
    return msg(**kw), k


XSIGS = ["s", "u", "b", "y", "t", "ay", "as", "(su)", "v", "g", "o"]


def rand_script(rng, total, errors=False):
    style = rng.random()
    out = []
    left = total + 20
    limit = rng.randint(0, 60)
    while left > 0 and len(out) < limit:
        if style < 0.25:
            c = 1
        elif style < 0.6:
            c = rng.randint(1, 20)
        elif style < 0.8:
            c = rng.choice([1, 2, 3, 7, 8, 15, 16, 17, 100, 1000, 70000])
        else:
            c = rng.randint(1, max(1, total))
        out.append(c)
        left -= c
    if errors and out:
        i = rng.randrange(len(out))
        out[i] = rng.choice(["E", "X"])
    elif errors:
        out = [rng.choice(["E", "X"])]
    return out


def rand_cut(rng, units, maxcut=None):
    total = sum(len(b) for b, _ in units)
    bounds = [0]
    for b, _ in units:
        bounds.append(bounds[-1] + len(b))
    r = rng.random()
    if r < 0.35:
        c = 0
    elif r < 0.55:
        c = rng.randint(1, min(20, total))
    elif r < 0.85:
        c = rng.choice(bounds) + rng.choice([-1, 0, 0, 1, 5, 15, 16, 17])
    else:
        c = rng.randint(0, total)
    c = max(0, min(total, c))
    if maxcut is not None:
        c = min(c, maxcut)
    return c


def valid_case(rng, mode, errors=False, fds=True):
    units = []
    for _ in range(rng.randint(1, 6) if rng.random() < 0.9 else rng.randint(7, 20)):
        units.append(rand_msg(rng, allow_fds=fds))
    total = sum(len(b) for b, _ in units)
    cut = rand_cut(rng, units, 1000 if mode == "c" else None)
    return line(mode, cut, rand_script(rng, total - cut, errors), units)


def malformed_case(rng, mode):
    units = [rand_msg(rng, allow_fds=False) for _ in range(rng.randint(0, 2))]
    kind = rng.choice(["endian", "type", "flags", "serial0", "version", "short", "long", "over", "over", "fdcount", "fdcount",
                       "code0", "badname", "badname", "wrongtype", "unknown"])
    if rng.random() < 0.012:
        kind = "edge"       # allowed size just below the limit: the implementation really allocates 128 MiB, keep these few
    body = rand_body(rng, rng.randint(0, 40))
    big = rng.random() < 0.3
    k = 0
    if kind == "endian":
        m = msg(big=big, body=body, endian=rng.choice([0, 0x4c, 0x62, 0xff, 0x6d]))
    elif kind == "type":
        m = msg(big=big, body=body, mtype=rng.choice([0, 5, 6, 255]))
    elif kind == "flags":
        m = msg(big=big, body=body, flags=rng.choice([8, 16, 0x80, 0xff, 9]))       # accepted since 0d33c3d1
    elif kind == "code0":
        m = msg(big=big, body=body, extra=[(0, rng.choice(XSIGS))])                 # field code 0 stays invalid
    elif kind == "unknown":
        m = msg(big=big, body=body, extra=[(rng.randint(10, 255), rng.choice(XSIGS)) for _ in range(rng.randint(1, 3))])   # accepted
    elif kind == "wrongtype":
        m = msg(big=big, body=body, extra=[(rng.choice([1, 2, 3, 5, 8, 9]), rng.choice(["y", "t", "ay", "(su)", "b"]))])   # known code, wrong type
    elif kind == "badname":
        which = rng.choice(["iface", "member", "path", "dest", "sender", "errname"])
        bad = {"iface": ["a", "a..c", ".a.c", "a.7c", ""], "member": ["a.c", "7a", "", "a-c"], "path": ["a", "/a/", "//", "/a-c", ""],
               "dest": ["x", ":", "a..c", ""], "sender": ["a.c", "x", ":1", ""], "errname": ["a", "a.", ""]}[which]
        m = msg(big=big, body=body, **{which: rng.choice(bad)})
    elif kind == "serial0":
        m = msg(big=big, body=body, serial=0)
    elif kind == "version":
        m = msg(big=big, body=body, version=rng.choice([0, 2, 255]))        # accepted: the version byte is not checked
    elif kind == "short":
        body = rand_body(rng, rng.randint(8, 40))
        m = msg(big=big, body=body, body_len=rng.randint(0, len(body) - 1))
    elif kind == "long":
        m = msg(big=big, body=body, body_len=len(body) + rng.randint(1, 50))
    elif kind == "over":
        hl = len(msg(big=big))
        m = msg(big=big, body=body, body_len=rng.choice([MAX - hl + 1, MAX - hl + 2, MAX, MAX + 7, 0x7fffffff, 0xffffffff]))
    elif kind == "edge":
        hl = len(msg(big=big))
        m = msg(big=big, body=body, body_len=rng.choice([MAX - hl, MAX - hl - 1]))   # allowed size, then EOF
    else:
        declared = rng.choice([None, 0, 1, 2, 3])
        k = rng.randint(0, 4)
        m = msg(big=big, body=body, nfds=declared)
    units.append((m, k))
    if kind in ("short", "fdcount", "version") and rng.random() < 0.5:
        units.append(rand_msg(rng, allow_fds=(kind == "fdcount")))
    total = sum(len(b) for b, _ in units)
    cut = rand_cut(rng, units, 1000 if mode == "c" else None)
    return line(mode, cut, rand_script(rng, total - cut), units)


def known_shapes(rng, mode):
    """streams around the former known class (fixed by e5b20c34): fd-less and fd-carrying messages, cut several messages deep"""
    units = []
    for _ in range(rng.randint(2, 5)):
        if rng.random() < 0.5:
            units.append((msg(member=name(rng), serial=serial(rng), body=rand_body(rng, rng.randint(0, 30))), 0))
        else:
            k = rng.randint(1, 3)
            units.append((msg(member=name(rng), serial=serial(rng), nfds=k, sig="h", body=b"\0\0\0\0"), k))
    total = sum(len(b) for b, _ in units)
    cut = min(rng.randint(total // 3, total), 1000 if mode == "c" else total)
    return line(mode, cut, rand_script(rng, total - cut), units)


def big_case(rng, mode):
    """bodies of 16-64 KiB between small messages"""
    units = []
    for _ in range(rng.randint(1, 3)):
        if rng.random() < 0.5:
            units.append(rand_msg(rng))
        n = rng.choice([16384, 65536 - 48, 65536, 40000])
        k = rng.choice([0, 0, 2])
        units.append((msg(big=rng.random() < 0.3, serial=serial(rng), member=name(rng), sig="ay", body=rand_body(rng, n),
                          nfds=k if k else None), k))
    total = sum(len(b) for b, _ in units)
    cut = rng.choice([0, 0, 7, 16, 900])
    return line(mode, cut, rand_script(rng, total - cut), units)


def gen(rng, tier):
    quick = tier == "quick"
    for _ in range(10 if quick else 300):
        yield big_case(rng, rng.choice("ddc"))
    yield from all_splits(12 if quick else 14)
    # cut = 0 versions of the short streams under random chunkings
    for _ in range(300 if quick else 3000):
        units = rng.choice([[(P16, 0)], [(HB24, 0)], [(P16, 0), (FD24, 1)], [(FD24, 1), (P16, 0), (HB24, 0)]])
        total = sum(len(b) for b, _ in units)
        yield line(rng.choice("dc"), 0, [rng.randint(1, 5) for _ in range(rng.randint(0, total))], units)
    n = 1 if quick else 12
    for _ in range(1800 * n):
        yield valid_case(rng, "d")
    for _ in range(400 * n):
        yield valid_case(rng, "d", errors=True)
    for _ in range(700 * n):
        yield malformed_case(rng, "d")
    for _ in range(300 * n):
        yield known_shapes(rng, "d")
    for _ in range(900 * n):
        yield valid_case(rng, "c")
    for _ in range(150 * n):
        yield valid_case(rng, "c", errors=True)
    for _ in range(250 * n):
        yield malformed_case(rng, "c")
    for _ in range(200 * n):
        yield known_shapes(rng, "c")


CALLS = re.compile(r";calls=\d+")


def meets_spec(impl, spec):
    # the property does not say how many recvmsg calls a split needs; everything else must match
    return CALLS.sub("", impl) == spec


def nontrivial(case, impl_out):
    w = case.split(" ")
    return "OK:" in impl_out and (w[2] != "0" or w[3].count(",") >= 1)


def classify(case, impl_out):
    w = case.split(" ")
    head = impl_out.split(";")[0]
    toks = head.split(",")
    oks = sum(1 for t in toks if t.startswith("OK:"))
    last = toks[-1] if toks else "?"
    fds = "fd" if any(not u.endswith(":0") for u in w[4:]) else "nofd"
    return "%s:cut%s:%s:ok%s:%s" % (w[1], "0" if w[2] == "0" else "+", fds, oks if oks < 3 else "3+", last if not last.startswith("OK") else "OK")


def search(rng, bad_cases):
    for _ in range(6000):
        r = rng.random()
        mode = "c" if any(c.startswith("F c") for c in bad_cases) and rng.random() < 0.5 else "d"
        if r < 0.6:
            yield valid_case(rng, mode)
        elif r < 0.8:
            yield known_shapes(rng, mode)
        else:
            yield malformed_case(rng, mode)
    yield from all_splits(13)


ENABLED = True
LEVEL = "proof"
LEVEL_TEXT = ("Theorems in coq/theories/Properties/C14.v over an executable model of ReadHalf::receive_message (both read loops, "
              "draining of already_received_bytes, the 128 MiB test, the already_received_fds block as repaired by fix: e5b20c34) and of the "
              "SocketReader numbering: for every list of valid messages, EVERY handshake cut and EVERY function choosing the size of each recvmsg "
              "answer, the reader yields exactly those messages, byte-identical, in order, with their own descriptors and sequence numbers "
              "1,2,3,... and ends with empty buffers (C14_frames, C14_frames_state: full strength, no excluded class); a declared size above "
              "128 MiB is rejected in the state reached right after its 16 header bytes (C14_limit, C14_limit_buffered); receive_message has no "
              "panic site for any stream and any oracle (C14_no_panic). The model is tied to the code by differential runs of the real "
              "receive_message / handshake / SocketReader over a scripted transport, including all splits of short streams.")
LEVEL_NOTE = ("Trusted: Coq kernel; hand-written model; scripted transport in harness/hconn; header-field parsing is a parameter "
              "(driver instance = C11's Fields model); messages compared by length + 64-bit hash; u64 sequence numbers assumed not to wrap. "
              "The former finding leftover_fd is fixed (e5b20c34); its witness stays in the corpus and must pass.")
