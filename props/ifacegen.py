"""Shared machinery of C26 / C27 / C28 / C33 (proc-macro properties: the theorems quantify over interface
*descriptions*; the tie to the real macros is made by generating Rust sources from the same descriptions).

  description  := dict(name, methods, props, signals)            (the Coq record `idesc`, coq/theories/C26/Desc.v)
  desc_token   := one word shared by the Coq driver (parsed), the harness (compiled in) and the case lines
  emit_rust    := the *trusted* description -> source emitter: `#[zbus::interface]` impl + `#[zbus::proxy]` trait +
                  glue, handlers with the standard behaviour of harness/hiface/src/rt.rs (= C26/Std.v)
  batches      := corpus descriptions first, then descriptions drawn from the seed
"""
import hashlib
import os
import random
import re
import shutil
import sys

sys.path.insert(0, os.path.join(os.path.dirname(os.path.dirname(os.path.abspath(__file__))), "vlib"))
import core  # noqa: E402

TYPES = "yuxbsARNDvo"
PROP_TYPES = "yuxbsANDvo"        # no `From<(u32, String)> for Value`: tuples cannot be property types
RUST = {"y": "u8", "u": "u32", "x": "i64", "b": "bool", "s": "String", "A": "Vec<u32>", "R": "(u32, String)",
        "N": "Pair", "D": "HashMap<String, u32>", "v": "OwnedValue", "o": "OwnedObjectPath"}
SIG = {"y": "y", "u": "u", "x": "x", "b": "b", "s": "s", "A": "au", "R": "(us)", "N": "(us)", "D": "a{su}", "v": "v", "o": "o"}
EMITS = {"t": "true", "i": "invalidates", "c": "const", "f": "false"}
WORDS = ["Add", "Get", "Put", "Run", "Stop", "Go", "Mix", "Zap", "Hold", "Send", "Peek", "Flip", "Sum", "Cut", "Join", "Ask"]
# "--", "---", "----", "-->" and a trailing "-": rewritten by the macro since fix e95e1976 (before it "--" made the document
# ill-formed and "-->" ended the comment early)
DOCS = [" plain text", " a -- b", " x <b>y</b> & \"z\" 'q'", " ends --> here", "", "  ", " two\nlines", " dash-", " -", " <!-- nested",
        " --- three", "----", " a--b---c----d-", "--> <method name=\"Injected\"/> <!--",
        " café ☃", " a - - b", "\tTab", " ]]> &amp; &#60;"]


# ---------------------------------------------------------------- names
def snake(pascal):
    out = ""
    for i, ch in enumerate(pascal):
        if ch.isupper() and i > 0:
            out += "_"
        out += ch.lower()
    return out


def hx(s):
    return s.encode("utf8").hex()


# ---------------------------------------------------------------- description <-> token
def out_tok(o):
    if o[0] == "-":
        return "-"
    if o[0] == "1":
        return "1" + o[1]
    return "t" + "".join(o[1])


def doc_tok(doc):
    return "_".join(hx(d) if d else "e" for d in doc) if doc else "-"


def desc_token(d):
    parts = [d["name"]]
    for m in d["methods"]:
        fl = ("m" if m["mut"] else "") + ("f" if m["fall"] else "") + ("a" if m["async"] else "")
        parts.append("m.%s.%s.%s.%s.%s" % (m["name"], "".join(m["ins"]) or "-", out_tok(m["out"]), fl or "-", doc_tok(m["doc"])))
    for p in d["props"]:
        fl = ("g" if p["gfall"] else "") + ("s" if p["sfall"] else "") + ("m" if p["smut"] else "") + \
             ("a" if p["gasync"] else "") + ("b" if p["sasync"] else "")
        parts.append("p.%s.%s.%s.%s.%s.%s" % (p["name"], p["ty"], p["acc"], p["emits"], fl or "-", doc_tok(p["doc"])))
    for s in d["signals"]:
        parts.append("s.%s.%s.%s" % (s["name"], "".join(s["args"]) or "-", doc_tok(s["doc"])))
    return "/".join(parts)


def parse_doc(t):
    if t == "-":
        return []
    return ["" if x == "e" else bytes.fromhex(x).decode("utf8") for x in t.split("_")]


def parse_desc(tok):
    parts = tok.split("/")
    d = {"name": parts[0], "methods": [], "props": [], "signals": []}
    for p in parts[1:]:
        f = p.split(".")
        if f[0] == "m":
            o = f[3]
            out = ("-",) if o == "-" else ("1", o[1]) if o[0] == "1" else ("t", list(o[1:]))
            d["methods"].append({"name": f[1], "ins": [] if f[2] == "-" else list(f[2]), "out": out, "mut": "m" in f[4].replace("-", ""),
                                 "fall": "f" in f[4], "async": "a" in f[4], "doc": parse_doc(f[5])})
        elif f[0] == "p":
            d["props"].append({"name": f[1], "ty": f[2], "acc": f[3], "emits": f[4], "gfall": "g" in f[5], "sfall": "s" in f[5],
                               "smut": "m" in f[5], "gasync": "a" in f[5], "sasync": "b" in f[5], "doc": parse_doc(f[6])})
        elif f[0] == "s":
            d["signals"].append({"name": f[1], "args": [] if f[2] == "-" else list(f[2]), "doc": parse_doc(f[3])})
    return d


OTHER = {"name": "Other", "methods": [{"name": "MHello", "ins": [], "out": ("1", "s"), "mut": False, "fall": False, "async": False, "doc": []}],
         "props": [], "signals": []}


# ---------------------------------------------------------------- random descriptions
def rand_doc(rng, p=0.45):
    if rng.random() > p:
        return []
    return [rng.choice(DOCS) for _ in range(rng.choice([1, 1, 1, 2, 3]))]


def rand_desc(rng, name, rich=True):
    d = {"name": name, "methods": [], "props": [], "signals": []}
    used = set()

    def fresh(prefix):
        while True:
            n = prefix + rng.choice(WORDS) + (rng.choice(WORDS) if rng.random() < 0.3 else "") + (str(rng.randint(2, 9)) if rng.random() < 0.2 else "")
            if n not in used:
                used.add(n)
                return n
    for _ in range(rng.randint(1, 4) if rich else rng.randint(0, 2)):
        k = rng.random()
        ins = [rng.choice(TYPES) for _ in range(0 if k < 0.15 else 1 if k < 0.5 else 2 if k < 0.85 else 3)]
        k = rng.random()
        if k < 0.2:
            out = ("-",)
        elif k < 0.6:
            # a single output of TUPLE type `(u32, String)` is, for the macro, the tuple output (u32, String): not a shape of its own
            out = ("1", rng.choice(TYPES.replace("R", "")))
        else:
            out = ("t", [rng.choice(TYPES) for _ in range(rng.choice([0, 1, 2, 2, 2, 3]))])
        d["methods"].append({"name": fresh("M"), "ins": ins, "out": out, "mut": rng.random() < 0.4, "fall": rng.random() < 0.4,
                             "async": rng.random() < 0.5, "doc": rand_doc(rng)})
    for _ in range(rng.randint(1, 4) if rich else rng.randint(0, 2)):
        acc = rng.choice(["r", "w", "rw", "rw", "rw"])
        sfall = acc != "r" and rng.random() < 0.3
        # a fallible `&self` setter does not compile (generated code mixes fdo::Result and zbus::Result): always `&mut self`
        d["props"].append({"name": fresh("P"), "ty": rng.choice(PROP_TYPES), "acc": acc,
                           "emits": "f" if acc == "w" else rng.choice("ttticf"),
                           "gfall": acc != "w" and rng.random() < 0.3, "sfall": sfall,
                           "smut": acc != "r" and (sfall or rng.random() < 0.6), "gasync": acc != "w" and rng.random() < 0.3,
                           "sasync": acc != "r" and rng.random() < 0.3, "doc": rand_doc(rng)})
    for _ in range(rng.randint(0, 2)):
        d["signals"].append({"name": fresh("S"), "args": [rng.choice(TYPES) for _ in range(rng.choice([0, 1, 1, 2, 2, 3]))],
                             "doc": rand_doc(rng)})
    return d


# ---------------------------------------------------------------- the emitter (trusted)
def rust_str(s):
    out = '"'
    for ch in s:
        if ch == '"':
            out += '\\"'
        elif ch == "\\":
            out += "\\\\"
        elif ch == "\n":
            out += "\\n"
        elif ch == "\t":
            out += "\\t"
        elif ord(ch) < 32:
            out += "\\x%02x" % ord(ch)
        else:
            out += ch
    return out + '"'


def docs(doc, ind):
    return "".join("%s#[doc = %s]\n" % (ind, rust_str(x)) for x in doc)


def ret_type(o):
    if o[0] == "-":
        return None
    if o[0] == "1":
        return RUST[o[1]]
    ts = o[1]
    if len(ts) == 0:
        return "()"
    if len(ts) == 1:
        return "(%s,)" % RUST[ts[0]]
    return "(%s)" % ", ".join(RUST[t] for t in ts)


def out_types(o):
    return [] if o[0] == "-" else [o[1]] if o[0] == "1" else list(o[1])


def ret_expr(o):
    """expression building the standard result from the digest h"""
    d = ["<%s as Tv>::derive(h.wrapping_add(%d))" % (RUST[t], i) for i, t in enumerate(out_types(o))]
    if o[0] == "-":
        return "()"
    if o[0] == "1":
        return d[0]
    if len(d) == 0:
        return "()"
    if len(d) == 1:
        return "(%s,)" % d[0]
    return "(%s)" % ", ".join(d)


def emit_iface(d, k):
    L = []
    w = L.append
    name = d["name"]
    w("pub mod g%d {" % k)
    w("    #![allow(unused_variables, unused_mut, unused_imports, dead_code, clippy::all)]")
    w("    use hiface_rt::{self as rt, Pair, Tv, Val};")
    w("    use futures_util::StreamExt;")
    w("    use std::collections::HashMap;")
    w("    use std::sync::Mutex;")
    w("    use zbus::zvariant::{OwnedObjectPath, OwnedValue};")
    w("")
    w("    pub struct Srv {")
    w("        tag: String,")
    for p in d["props"]:
        w("        %s: Mutex<%s>," % (snake(p["name"]), RUST[p["ty"]]))
    w("    }")
    w("    impl Srv {")
    w("        pub fn new(tag: &str) -> Self {")
    w("            Srv {")
    w("                tag: tag.to_string(),")
    for p in d["props"]:
        w("                %s: Mutex::new(<%s as Tv>::derive(rt::digest(%s)))," % (snake(p["name"]), RUST[p["ty"]], rust_str(p["name"])))
    w("            }")
    w("        }")
    w("    }")
    w("")
    w("    #[zbus::interface(name = \"org.zv.%s\")]" % name)
    w("    impl Srv {")
    for m in d["methods"]:
        w(docs(m["doc"], "        ").rstrip("\n")) if m["doc"] else None
        args = "".join(", a%d: %s" % (i, RUST[t]) for i, t in enumerate(m["ins"]))
        rt_ = ret_type(m["out"])
        if m["fall"]:
            rets = " -> zbus::fdo::Result<%s>" % (rt_ or "()")
        else:
            rets = (" -> %s" % rt_) if rt_ else ""
        w("        %sfn %s(&%sself%s)%s {" % ("async " if m["async"] else "", snake(m["name"]), "mut " if m["mut"] else "", args, rets))
        w("            let h = rt::entry(&self.tag, %s, &[%s]);" % (rust_str(m["name"]), ", ".join("a%d.to_val()" % i for i in range(len(m["ins"])))))
        if m["fall"]:
            w("            if let Some(e) = rt::method_failure(h) {")
            w("                return Err(e);")
            w("            }")
            w("            Ok(%s)" % ret_expr(m["out"]))
        elif rt_:
            w("            %s" % ret_expr(m["out"]))
        w("        }")
    for s in d["signals"]:
        w(docs(s["doc"], "        ").rstrip("\n")) if s["doc"] else None
        args = "".join(", a%d: %s" % (i, RUST[t]) for i, t in enumerate(s["args"]))
        w("        #[zbus(signal)]")
        w("        async fn %s(emitter: &zbus::object_server::SignalEmitter<'_>%s) -> zbus::Result<()>;" % (snake(s["name"]), args))
    for p in d["props"]:
        f, ty, nm = snake(p["name"]), RUST[p["ty"]], p["name"]
        if "r" in p["acc"]:
            w(docs(p["doc"], "        ").rstrip("\n")) if p["doc"] else None
            w("        #[zbus(property(emits_changed_signal = \"%s\"))]" % EMITS[p["emits"]]) if p["emits"] != "t" or k % 2 else w("        #[zbus(property)]")
            w("        %sfn %s(&self) -> %s {" % ("async " if p["gasync"] else "", f, ("zbus::fdo::Result<%s>" % ty) if p["gfall"] else ty))
            w("            rt::log(format!(\"{}#get_%s\", self.tag));" % nm)
            w("            let v = self.%s.lock().unwrap().clone();" % f)
            if p["gfall"]:
                w("            if rt::getter_fails(&v.to_val()) {")
                w("                return Err(zbus::fdo::Error::Failed(\"g%s\".into()));" % nm)
                w("            }")
                w("            Ok(v)")
            else:
                w("            v")
            w("        }")
        if "w" in p["acc"]:
            if "r" not in p["acc"] and p["doc"]:
                w(docs(p["doc"], "        ").rstrip("\n"))
            w("        #[zbus(property)]")
            w("        %sfn set_%s(&%sself, v: %s)%s {" % ("async " if p["sasync"] else "", f, "mut " if p["smut"] else "", ty,
                                                      " -> zbus::fdo::Result<()>" if p["sfall"] else ""))
            w("            rt::log(format!(\"{}#set_%s={}\", self.tag, v.to_val().tok()));" % nm)
            if p["sfall"]:
                w("            if rt::setter_fails(&v.to_val()) {")
                w("                return Err(zbus::fdo::Error::Failed(\"s%s\".into()));" % nm)
                w("            }")
            w("            *self.%s.lock().unwrap() = v;" % f)
            if p["sfall"]:
                w("            Ok(())")
            w("        }")
    w("    }")
    w("")
    # ---- the proxy
    w("    #[zbus::proxy(interface = \"org.zv.%s\", default_path = \"/zv/a\")]" % name)
    w("    pub trait Px {")
    for m in d["methods"]:
        args = "".join(", a%d: %s" % (i, RUST[t]) for i, t in enumerate(m["ins"]))
        w("        fn %s(&self%s) -> zbus::Result<%s>;" % (snake(m["name"]), args, ret_type(m["out"]) or "()"))
    for s in d["signals"]:
        args = "".join(", a%d: %s" % (i, RUST[t]) for i, t in enumerate(s["args"]))
        w("        #[zbus(signal)]")
        w("        fn %s(&self%s) -> zbus::Result<()>;" % (snake(s["name"]), args))
    for p in d["props"]:
        f, ty = snake(p["name"]), RUST[p["ty"]]
        if "r" in p["acc"]:
            w("        #[zbus(property(emits_changed_signal = \"%s\"))]" % EMITS[p["emits"]])
            w("        fn %s(&self) -> zbus::Result<%s>;" % (f, ty))
        if "w" in p["acc"]:
            w("        #[zbus(property)]")
            w("        fn set_%s(&self, v: %s) -> zbus::Result<()>;" % (f, ty))
    w("    }")
    w("")
    # ---- glue
    w("    pub async fn register(os: &zbus::ObjectServer, path: &str) -> zbus::Result<bool> {")
    w("        os.at(path, Srv::new(path)).await")
    w("    }")
    w("")

    def conv_args(ts, ind):
        return "".join("%slet a%d: %s = Tv::from_val(args.get(%d)?)?;\n" % (ind, i, RUST[t], i) for i, t in enumerate(ts))

    def render_ret(o, var):
        ts = out_types(o)
        if o[0] == "-" or (o[0] == "t" and len(ts) == 0):
            return "String::new()"
        if o[0] == "1":
            return "%s.to_val().tok()" % var
        return "rt::toks(&[%s])" % ", ".join("%s.%d.to_val()" % (var, i) for i in range(len(ts)))

    for mode, aw, conn_ty, px in (("async", ".await", "zbus::Connection", "PxProxy"), ("blocking", "", "zbus::blocking::Connection", "PxProxyBlocking")):
        asy = "async " if mode == "async" else ""
        # a proxy with the property cache off (`cached` = false) or with the builder's defaults (cache on, the
        # `false`-mode properties listed as uncached by the macro)
        w("    pub %sfn mk_%s(conn: &%s, path: &str, cached: bool) -> Option<Result<%s<'static>, String>> {" % (asy, mode, conn_ty, px))
        w("        let b = %s::builder(conn).destination(rt::SRV_NAME).ok()?.path(path.to_string()).ok()?;" % px)
        w("        let b = if cached { b } else { b.cache_properties(zbus::proxy::CacheProperties::No) };")
        w("        Some(b.build()%s.map_err(|e| rt::zerr_tok(&e)))" % aw)
        w("    }")
        w("    pub %sfn proxy_%s(conn: &%s, path: &str, op: &rt::POp) -> Option<String> {" % (asy, mode, conn_ty))
        w("        match mk_%s(conn, path, false)%s? {" % (mode, aw))
        w("            Ok(px) => op_%s(&px, op)%s," % (mode, aw))
        w("            Err(e) => Some(e),")
        w("        }")
        w("    }")
        w("    pub %sfn slot_new_%s(conn: &%s, path: &str, cached: bool) -> Option<Result<Box<dyn std::any::Any + Send + Sync>, String>> {" % (asy, mode, conn_ty))
        w("        Some(mk_%s(conn, path, cached)%s?.map(|p| Box::new(p) as Box<dyn std::any::Any + Send + Sync>))" % (mode, aw))
        w("    }")
        w("    pub %sfn slot_op_%s(slot: &(dyn std::any::Any + Send + Sync), op: &rt::POp) -> Option<String> {" % (asy, mode))
        w("        op_%s(slot.downcast_ref::<%s<'static>>()?, op)%s" % (mode, px, aw))
        w("    }")
        w("    /// the cache's view of the synchronisation sentinel (see main.rs sync_slots)")
        w("    pub fn slot_sync_%s(slot: &(dyn std::any::Any + Send + Sync)) -> Option<u32> {" % mode)
        w("        slot.downcast_ref::<%s<'static>>()?.inner().cached_property::<u32>(\"ZvSync\").ok().flatten()" % px)
        w("    }")
        w("    pub %sfn op_%s(px: &%s<'static>, op: &rt::POp) -> Option<String> {" % (asy, mode, px))
        w("        match op {")
        w("            rt::POp::Method { name, args } => match name.as_str() {")
        for m in d["methods"]:
            w("                %s => {" % rust_str(m["name"]))
            if len(m["ins"]) == 0:
                w("                    if !args.is_empty() { return None; }")
            else:
                w("                    if args.len() != %d { return None; }" % len(m["ins"]))
            L.append(conv_args(m["ins"], "                    ").rstrip("\n")) if m["ins"] else None
            w("                    Some(match px.%s(%s)%s {" % (snake(m["name"]), ", ".join("a%d" % i for i in range(len(m["ins"]))), aw))
            w("                        Ok(r) => format!(\"O{}\", %s)," % render_ret(m["out"], "r"))
            w("                        Err(e) => rt::zerr_tok(&e),")
            w("                    })")
            w("                }")
        w("                _ => None,")
        w("            },")
        w("            rt::POp::Get { name } => match name.as_str() {")
        for p in d["props"]:
            if "r" in p["acc"]:
                w("                %s => Some(match px.%s()%s {" % (rust_str(p["name"]), snake(p["name"]), aw))
                w("                    Ok(r) => format!(\"O{}\", r.to_val().tok()),")
                w("                    Err(e) => rt::zerr_tok(&e),")
                w("                }),")
        w("                _ => None,")
        w("            },")
        w("            rt::POp::Set { name, val } => match name.as_str() {")
        for p in d["props"]:
            if "w" in p["acc"]:
                w("                %s => {" % rust_str(p["name"]))
                w("                    let v: %s = Tv::from_val(val)?;" % RUST[p["ty"]])
                w("                    Some(match px.set_%s(v)%s {" % (snake(p["name"]), aw))
                w("                        Ok(()) => \"O\".to_string(),")
                w("                        Err(e) => rt::zerr_tok(&e),")
                w("                    })")
                w("                }")
        w("                _ => None,")
        w("            },")
        w("        }")
        w("    }")
        w("")
    w("    pub async fn emit(server: &zbus::Connection, path: &str, name: &str, args: &[Val]) -> Option<zbus::Result<()>> {")
    w("        let em = zbus::object_server::SignalEmitter::new(server, path.to_string()).ok()?;")
    w("        match name {")
    for s in d["signals"]:
        w("            %s => {" % rust_str(s["name"]))
        w("                if args.len() != %d { return None; }" % len(s["args"]))
        L.append(conv_args(s["args"], "                ").rstrip("\n")) if s["args"] else None
        w("                Some(Srv::%s(&em%s).await)" % (snake(s["name"]), "".join(", a%d" % i for i in range(len(s["args"])))))
        w("            }")
    w("            _ => None,")
    w("        }")
    w("    }")
    w("")

    def sig_render(s):
        if not s["args"]:
            return "String::new()"
        return "match x.args() { Ok(a) => rt::toks(&[%s]), Err(e) => return Some(rt::zerr_tok(&e)) }" % \
               ", ".join("a.a%d.to_val()" % i for i in range(len(s["args"])))

    w("    pub async fn signal_async(client: &zbus::Connection, server: &zbus::Connection, path: &str, name: &str, args: &[Val]) -> Option<String> {")
    w("        let px = match PxProxy::builder(client).destination(rt::SRV_NAME).ok()?.path(path.to_string()).ok()?")
    w("            .cache_properties(zbus::proxy::CacheProperties::No).build().await {")
    w("            Ok(p) => p,")
    w("            Err(e) => return Some(rt::zerr_tok(&e)),")
    w("        };")
    w("        match name {")
    for s in d["signals"]:
        w("            %s => {" % rust_str(s["name"]))
        w("                let mut st = match px.receive_%s().await { Ok(s) => s, Err(e) => return Some(rt::zerr_tok(&e)) };" % snake(s["name"]))
        w("                if let Err(e) = emit(server, path, name, args).await? { return Some(format!(\"EMIT{}\", rt::zerr_tok(&e))); }")
        w("                let t = async_io::Timer::after(std::time::Duration::from_secs(3));")
        w("                let n = st.next();")
        w("                futures_util::pin_mut!(n);")
        w("                match futures_util::future::select(n, t).await {")
        w("                    futures_util::future::Either::Left((Some(x), _)) => Some(format!(\"O{}\", %s))," % sig_render(s))
        w("                    _ => Some(\"T\".to_string()),")
        w("                }")
        w("            }")
    w("            _ => None,")
    w("        }")
    w("    }")
    w("")
    w("    pub fn signal_blocking(client: &zbus::blocking::Connection, server: &zbus::Connection, path: &str, name: &str, args: &[Val]) -> Option<String> {")
    w("        let px = match PxProxyBlocking::builder(client).destination(rt::SRV_NAME).ok()?.path(path.to_string()).ok()?")
    w("            .cache_properties(zbus::proxy::CacheProperties::No).build() {")
    w("            Ok(p) => p,")
    w("            Err(e) => return Some(rt::zerr_tok(&e)),")
    w("        };")
    w("        match name {")
    for s in d["signals"]:
        w("            %s => {" % rust_str(s["name"]))
        w("                let mut st = match px.receive_%s() { Ok(s) => s, Err(e) => return Some(rt::zerr_tok(&e)) };" % snake(s["name"]))
        w("                if let Err(e) = zbus::block_on(emit(server, path, name, args))? { return Some(format!(\"EMIT{}\", rt::zerr_tok(&e))); }")
        w("                Some(rt::with_watchdog(move || match st.next() {")
        w("                    Some(x) => format!(\"O{}\", %s)," % sig_render(s).replace("return Some(rt::zerr_tok(&e))", "return rt::zerr_tok(&e)"))
        w("                    None => \"T\".to_string(),")
        w("                }))")
        w("            }")
    w("            _ => None,")
    w("        }")
    w("    }")
    w("}")
    return "\n".join(x for x in L if x is not None)


# ---------------------------------------------------------------- the fixed corpus of descriptions
def _m(name, ins, out, fl="", doc=()):
    o = ("-",) if out == "-" else ("1", out[1]) if out[0] == "1" else ("t", list(out[1:]))
    return {"name": name, "ins": list(ins.replace("-", "")), "out": o, "mut": "m" in fl, "fall": "f" in fl, "async": "a" in fl, "doc": list(doc)}


def _p(name, ty, acc, em, fl="", doc=()):
    return {"name": name, "ty": ty, "acc": acc, "emits": em, "gfall": "g" in fl, "sfall": "s" in fl, "smut": "m" in fl,
            "gasync": "a" in fl, "sasync": "b" in fl, "doc": list(doc)}


def _s(name, args, doc=()):
    return {"name": name, "args": list(args.replace("-", "")), "doc": list(doc)}


def corpus_descs():
    """hand-picked: every type in every position, every output shape, every flag, every property mode / access /
    fallibility, every signal arity, doc texts incl. the known-deviation ones"""
    return [
        {"name": "KTypes", "methods": [_m("MBytes", "yux", "tyux"), _m("MStrs", "bso", "tbso"), _m("MConts", "AD", "tAD"),
                                       _m("MVar", "v", "1v"), _m("MVarPath", "vo", "tov", "a")], "props": [], "signals": []},
        {"name": "KStructs", "methods": [_m("MPairIn", "R", "1s"), _m("MTwoIn", "us", "1u"), _m("MNamedIn", "N", "1u"),
                                         _m("MNamedOut", "u", "1N"), _m("MTupleOut", "u", "tus"), _m("MPairInTuple", "u", "tR"),
                                         _m("MOneTuple", "u", "tu"), _m("MUnitTuple", "u", "t"), _m("MNoargs", "-", "-"),
                                         _m("MMixed", "uRs", "tRu"), _m("MNamedBoth", "N", "1N", "f")], "props": [], "signals": []},
        {"name": "KFlags", "methods": [_m("MPlain", "u", "1u"), _m("MMut", "u", "1u", "m"), _m("MFall", "u", "1u", "f"),
                                       _m("MAsync", "u", "1u", "a"), _m("MAll", "u", "1u", "mfa"), _m("MFallUnit", "s", "-", "f"),
                                       _m("MFallTuple", "s", "tus", "fa"), _m("MMutNoargs", "-", "1s", "m")],
         "props": [_p("PCount", "u", "rw", "t", "m")], "signals": []},
        {"name": "KModes", "methods": [_m("MPing", "-", "1u")],
         "props": [_p("PTrue", "u", "rw", "t", "m"), _p("PInval", "u", "rw", "i", "m"), _p("PConst", "u", "rw", "c", "m"),
                   _p("PFalse", "u", "rw", "f", "m"), _p("PRo", "s", "r", "t"), _p("PWo", "s", "w", "f", "m"),
                   _p("PRoInval", "x", "r", "i"), _p("PSelfSet", "b", "rw", "t", "")], "signals": []},
        {"name": "KFallible", "methods": [],
         "props": [_p("PGf", "u", "rw", "t", "gm"), _p("PSf", "u", "rw", "t", "sm"), _p("PGsf", "u", "rw", "i", "gsm"),
                   _p("PGfRo", "s", "r", "t", "g"), _p("PGfFalse", "y", "rw", "f", "gm"), _p("PAsync", "u", "rw", "t", "mab"),
                   _p("PGfAsync", "s", "rw", "t", "gsmab")], "signals": []},
        {"name": "KPropTypes", "methods": [],
         "props": [_p("PVar", "v", "rw", "t", "m"), _p("PVec", "A", "rw", "t", "m"), _p("PMap", "D", "rw", "i", "m"),
                   _p("PNamed", "N", "rw", "t", "m"), _p("PPath", "o", "rw", "f", "m"), _p("PBool", "b", "rw", "t", "m"),
                   _p("PI64", "x", "rw", "t", "m"), _p("PU8", "y", "rw", "c", "m"), _p("PVarRo", "v", "r", "f")], "signals": []},
        {"name": "KSignals", "methods": [_m("MEcho", "s", "1s")], "props": [_p("PVal", "u", "rw", "t", "m")],
         "signals": [_s("SNone", "-"), _s("SOne", "u"), _s("SPair", "R"), _s("STwo", "us"), _s("SNamed", "N"), _s("SThree", "sAD"),
                     _s("SVar", "v"), _s("SPathBool", "ob")]},
        {"name": "KDocs",
         "methods": [_m("MPlain", "u", "1u", "", [" plain text"]), _m("MDashes", "u", "-", "", [" a -- b"]),
                     _m("MBlanks", "-", "-", "", ["", "  ", " lead blank skipped", "", " x", "  ", ""]),
                     _m("MLines", "s", "1s", "f", [" two\nlines", " third"]), _m("MXml", "-", "1s", "", [" x <b>y</b> & \"z\" 'q'"]),
                     _m("MDashEnd", "-", "-", "a", [" dash-", " -"]), _m("MOnlyBlank", "-", "-", "", ["", "   "]),
                     _m("MNested", "-", "-", "", [" <!-- nested"]),
                     _m("MThree", "-", "-", "", [" --- three", "----", " tail-"]),
                     _m("MInject", "-", "-", "", ["--> <method name=\"Injected\"><arg type=\"s\" direction=\"in\"/></method> <!--"])],
         "props": [_p("PZed", "u", "rw", "t", "m", [" zed doc"]), _p("PAlpha", "u", "r", "i", "", [" alpha -- doc"]),
                   _p("Pa", "s", "w", "f", "m", [" setter only doc"]), _p("PB", "b", "rw", "f", "", [" café ☃"])],
         "signals": [_s("SDoc", "u", [" signal doc", " ]]> &amp; &#60;"]), _s("SDash", "-", [" a - - b"])]},
    ]


NCORPUS_PARTS = 2
NRAND_PARTS = 4

def emit_part(descs, idxs):
    L = ["// GENERATED by props/ifacegen.py from interface descriptions — do not edit.", "#![allow(clippy::all)]", ""]
    for k in idxs:
        L.append(emit_iface(descs[k], k))
        L.append("")
    return "\n".join(L) + "\n"


def emit_tables(descs, crate_of):
    """crate_of[k] = the crate that holds module g<k>"""
    toks = [desc_token(d) for d in descs]
    L = ["// GENERATED by props/ifacegen.py from interface descriptions — do not edit.",
         "// The description tokens below are the ones the Coq driver (C26/Runner.v) parses.",
         "#![allow(clippy::all)]",
         "use hiface_rt as rt;",
         "pub const DESCS: &[&str] = &["]
    for t in toks:
        L.append("    %s," % rust_str(t))
    L.append("];")
    L.append("")
    n = len(descs)

    def table(sig, call, aw):
        L.append(sig + " {")
        L.append("    match idx {")
        for k in range(n):
            L.append("        %d => %s::g%d::%s%s," % (k, crate_of[k], k, call, aw))
        L.append("        _ => panic!(\"no such interface\"),")
        L.append("    }")
        L.append("}")
    table("pub async fn register(idx: usize, os: &zbus::ObjectServer, path: &str) -> zbus::Result<bool>", "register(os, path)", ".await")
    table("pub async fn proxy_async(idx: usize, conn: &zbus::Connection, path: &str, op: &rt::POp) -> Option<String>", "proxy_async(conn, path, op)", ".await")
    table("pub fn proxy_blocking(idx: usize, conn: &zbus::blocking::Connection, path: &str, op: &rt::POp) -> Option<String>", "proxy_blocking(conn, path, op)", "")
    table("pub async fn slot_new_async(idx: usize, conn: &zbus::Connection, path: &str, cached: bool) -> Option<Result<Box<dyn std::any::Any + Send + Sync>, String>>", "slot_new_async(conn, path, cached)", ".await")
    table("pub fn slot_new_blocking(idx: usize, conn: &zbus::blocking::Connection, path: &str, cached: bool) -> Option<Result<Box<dyn std::any::Any + Send + Sync>, String>>", "slot_new_blocking(conn, path, cached)", "")
    table("pub async fn slot_op_async(idx: usize, slot: &(dyn std::any::Any + Send + Sync), op: &rt::POp) -> Option<String>", "slot_op_async(slot, op)", ".await")
    table("pub fn slot_op_blocking(idx: usize, slot: &(dyn std::any::Any + Send + Sync), op: &rt::POp) -> Option<String>", "slot_op_blocking(slot, op)", "")
    table("pub fn slot_sync_async(idx: usize, slot: &(dyn std::any::Any + Send + Sync)) -> Option<u32>", "slot_sync_async(slot)", "")
    table("pub fn slot_sync_blocking(idx: usize, slot: &(dyn std::any::Any + Send + Sync)) -> Option<u32>", "slot_sync_blocking(slot)", "")
    table("pub async fn signal_async(idx: usize, client: &zbus::Connection, server: &zbus::Connection, path: &str, name: &str, args: &[rt::Val]) -> Option<String>",
          "signal_async(client, server, path, name, args)", ".await")
    table("pub fn signal_blocking(idx: usize, client: &zbus::blocking::Connection, server: &zbus::Connection, path: &str, name: &str, args: &[rt::Val]) -> Option<String>",
          "signal_blocking(client, server, path, name, args)", "")
    return "\n".join(L) + "\n"


HARNESS_SRC = os.path.join(core.HARNESS, "hiface")
FU = 'futures-util = { version = "0.3", default-features = false, features = ["async-await", "async-await-macro"] }'


def write_if_changed(path, text):
    os.makedirs(os.path.dirname(path), exist_ok=True)
    if os.path.exists(path) and open(path).read() == text:
        return False
    tmp = path + ".tmp%d" % os.getpid()
    open(tmp, "w").write(text)
    os.replace(tmp, path)
    return True


def zbus_dep(repo):
    return 'zbus = { path = "%s/zbus", features = ["p2p", "bus-impl"] }' % repo


def part_toml(name, rt_path, repo):
    return ('[package]\nname = "%s"\nversion = "0.0.0"\nedition = "2021"\n\n[dependencies]\nhiface_rt = { path = "%s" }\n'
            '%s\nasync-io = "2"\n%s\n' % (name, rt_path, zbus_dep(repo), FU))


def bin_toml(name, hcommon, rt_path, parts, repo):
    deps = "".join('%s = { path = "%s" }\n' % (n, p) for n, p in parts)
    return ('[package]\nname = "%s"\nversion = "0.0.0"\nedition = "2021"\n\n[dependencies]\nhcommon = { path = "%s" }\n'
            'hiface_rt = { path = "%s" }\n%s%s\nzbus_xml = { path = "%s/zbus_xml" }\nzvariant = { path = "%s/zvariant" }\n'
            'async-io = "2"\n%s\n\n[workspace]\n' % (name, hcommon, rt_path, deps, zbus_dep(repo), repo, repo, FU))


def write_corpus_tree(repo=None):
    """harness/hiface: the committed crate for the corpus batch alone (Other + corpus descriptions in parts c0, c1).
    Regenerated on every run; the files only change when the emitter or the corpus does."""
    repo = repo or core.REPO
    descs = [OTHER] + corpus_descs()
    n = len(descs)
    crate_of = {k: "hiface_c%d" % (k % NCORPUS_PARTS) for k in range(n)}
    for j in range(NCORPUS_PARTS):
        write_if_changed(os.path.join(HARNESS_SRC, "parts", "c%d" % j, "Cargo.toml"), part_toml("hiface_c%d" % j, "../../rt", repo))
        write_if_changed(os.path.join(HARNESS_SRC, "parts", "c%d" % j, "src", "lib.rs"),
                         emit_part(descs, [k for k in range(n) if k % NCORPUS_PARTS == j]))
    write_if_changed(os.path.join(HARNESS_SRC, "rt", "Cargo.toml"),
                     '[package]\nname = "hiface_rt"\nversion = "0.0.0"\nedition = "2021"\n\n[dependencies]\nhcommon = { path = "../../hcommon" }\n'
                     '%s\nzvariant = { path = "%s/zvariant" }\nserde = { version = "1", features = ["derive"] }\n' % (zbus_dep(repo), repo))
    write_if_changed(os.path.join(HARNESS_SRC, "Cargo.toml"),
                     bin_toml("hiface", "../hcommon", "rt", [("hiface_c%d" % j, "parts/c%d" % j) for j in range(NCORPUS_PARTS)], repo))
    write_if_changed(os.path.join(HARNESS_SRC, "src", "gen_ifaces.rs"), emit_tables(descs, crate_of))
    return descs


def batch_key(descs, texts):
    """names the batch tree: the hand-written sources, the description tokens and the emitted parts"""
    h = hashlib.sha256()
    for f in (os.path.join(HARNESS_SRC, "src", "main.rs"), os.path.join(HARNESS_SRC, "rt", "src", "lib.rs")):
        h.update(open(f, "rb").read())
    for d in descs:
        h.update(desc_token(d).encode())
    for t in texts:
        h.update(t.encode())
    return h.hexdigest()[:10]


def write_batch_tree(rand_descs, repo=None):
    """_build/hiface/<key>: the crate for Other + corpus + the batch's random descriptions.  The corpus parts and rt are the
    shared crates under harness/hiface (compiled once); the random descriptions go to parts r0..r3 of this tree."""
    repo = repo or core.REPO
    corpus = write_corpus_tree(repo)
    descs = corpus + rand_descs
    n0, n = len(corpus), len(descs)
    rparts = min(NRAND_PARTS, max(1, len(rand_descs)))
    part_texts = [emit_part(descs, [k for k in range(n0, n) if (k - n0) % rparts == j]) for j in range(rparts)] if rand_descs else []
    key = batch_key(descs, part_texts)
    name = "hiface_" + key
    outdir = os.path.join(core.BUILD, "hiface", key)
    crate_of = {k: "hiface_c%d" % (k % NCORPUS_PARTS) for k in range(n0)}
    for k in range(n0, n):
        crate_of[k] = "%s_r%d" % (name, (k - n0) % rparts)
    rt_abs = os.path.join(HARNESS_SRC, "rt")
    parts = [("hiface_c%d" % j, os.path.join(HARNESS_SRC, "parts", "c%d" % j)) for j in range(NCORPUS_PARTS)]
    for j, text in enumerate(part_texts):
        write_if_changed(os.path.join(outdir, "parts", "r%d" % j, "Cargo.toml"), part_toml("%s_r%d" % (name, j), rt_abs, repo))
        write_if_changed(os.path.join(outdir, "parts", "r%d" % j, "src", "lib.rs"), text)
        parts.append(("%s_r%d" % (name, j), "parts/r%d" % j))
    write_if_changed(os.path.join(outdir, "Cargo.toml"), bin_toml(name, os.path.join(core.HARNESS, "hcommon"), rt_abs, parts, repo))
    write_if_changed(os.path.join(outdir, "src", "gen_ifaces.rs"), emit_tables(descs, crate_of))
    write_if_changed(os.path.join(outdir, "src", "main.rs"), open(os.path.join(HARNESS_SRC, "src", "main.rs")).read())
    write_if_changed(os.path.join(outdir, ".cargo", "config.toml"), open(os.path.join(core.HARNESS, ".cargo", "config.toml")).read())
    lock = os.path.join(outdir, "Cargo.lock")
    if not os.path.exists(lock):
        shutil.copy(os.path.join(repo, "Cargo.lock"), lock)
    return outdir, name, descs


def build_batch(rand_descs):
    """returns (binary path or None, log, descs)"""
    outdir, name, descs = write_batch_tree(rand_descs)
    env = {"RUSTFLAGS": "--cfg %s" % core.GUARD, "CARGO_TARGET_DIR": core.TARGET}
    rc, out = core.sh(["cargo", "build", "--offline"], cwd=outdir, timeout=3000, env=env)
    if rc != 0 and "Cargo.lock" in out:
        shutil.copy(os.path.join(core.REPO, "Cargo.lock"), os.path.join(outdir, "Cargo.lock"))
        rc, out = core.sh(["cargo", "build", "--offline"], cwd=outdir, timeout=3000, env=env)
    prune_batches(keep=os.path.basename(outdir))
    if rc != 0:
        return None, out[-6000:], descs
    return os.path.join(core.TARGET, "debug", name), "", descs


def prune_batches(keep, limit=6):
    """old batch trees and their artifacts in the shared target directory"""
    base = os.path.join(core.BUILD, "hiface")
    try:
        ds = sorted((d for d in os.listdir(base) if d != keep), key=lambda d: os.path.getmtime(os.path.join(base, d)))
    except OSError:
        return
    for d in ds[:max(0, len(ds) - (limit - 1))]:
        shutil.rmtree(os.path.join(base, d), ignore_errors=True)
        dbg = os.path.join(core.TARGET, "debug")
        for sub in ("", "deps", "incremental", ".fingerprint"):
            p = os.path.join(dbg, sub)
            if os.path.isdir(p):
                for f in os.listdir(p):
                    if ("hiface_" + d) in f:
                        q = os.path.join(p, f)
                        shutil.rmtree(q, ignore_errors=True) if os.path.isdir(q) else os.remove(q)


def batch_descs(tier, seed, batch=0):
    """the random descriptions of batch number `batch` for this tier and seed"""
    rng = random.Random("ifaces-%s-%s-%d" % (tier, seed, batch))
    n = 12
    return [rand_desc(rng, "G%d" % i) for i in range(n)]


# ---------------------------------------------------------------- values and cases
PR = "org.freedesktop.DBus.Properties"
STRS = ["", "x", "hello world", "é☃", "a,b:c;d|e", "--", "0"]
PATHS_V = ["/", "/a", "/zv/a", "/a_b/C9"]
U32S = [0, 1, 2, 7, 255, 256, 65535, 4294967295, 4294967294, 123456789]


def tok_str(x):
    return x.encode("utf8").hex()


def gen_val(rng, t, depth=0):
    """a token of a value of menu type t"""
    if t == "y":
        return "y%d" % rng.choice([0, 1, 127, 128, 255, rng.randint(0, 255)])
    if t == "u":
        return "u%d" % rng.choice(U32S + [rng.randint(0, 4294967295)])
    if t == "x":
        return "x%d" % rng.choice([0, 1, -1, 9223372036854775807, -9223372036854775808, rng.randint(-10**12, 10**12)])
    if t == "b":
        return "b%d" % rng.randint(0, 1)
    if t == "s":
        return "s" + tok_str(rng.choice(STRS + ["w%d" % rng.randint(0, 999)]))
    if t == "o":
        return "o" + tok_str(rng.choice(PATHS_V + ["/p%d" % rng.randint(0, 99)]))
    if t == "A":
        return "A" + ".".join(str(rng.choice(U32S)) for _ in range(rng.choice([0, 0, 1, 2, 5])))
    if t in "RN":
        return "R%d.%s" % (rng.choice(U32S), tok_str(rng.choice(STRS)))
    if t == "D":
        keys = sorted(set(rng.choice(["k", "a", "", "zz", "é", "k%d" % rng.randint(0, 9)]) for _ in range(rng.choice([0, 0, 1, 2, 3]))),
                      key=lambda z: z.encode("utf8"))
        return "D" + "+".join("%s.%d" % (tok_str(k), rng.choice(U32S)) for k in keys)
    if t == "v":
        inner = rng.choice("yuxbsoARDv" if depth < 2 else "yuxbsoARD")
        return "v" + gen_val(rng, inner, depth + 1)
    raise ValueError(t)


def other_type(rng, t):
    """a menu type with a different D-Bus signature"""
    while True:
        u = rng.choice(TYPES)
        if SIG[u] != SIG[t]:
            return u


def gen_args(rng, ts):
    return ",".join(gen_val(rng, t) for t in ts)


def bad_args(rng, ts):
    """argument lists that do NOT have the declared types (several kinds), possibly the accepted deviations"""
    k = rng.random()
    if not ts:
        return gen_args(rng, [rng.choice(TYPES) for _ in range(rng.choice([1, 1, 2]))])          # extra args for a no-arg method
    if k < 0.3:
        i = rng.randrange(len(ts))
        us = list(ts)
        us[i] = other_type(rng, ts[i])
        return gen_args(rng, us)                                                              # one wrong type
    if k < 0.45:
        return gen_args(rng, ts[:-1])                                                         # one missing
    if k < 0.6:
        return gen_args(rng, list(ts) + [rng.choice(TYPES)])                                  # one extra
    if k < 0.7:
        return ""                                                                              # none
    if k < 0.85 and len(ts) == 1 and ts[0] in "RN":
        return "u%d,s%s" % (rng.choice(U32S), tok_str(rng.choice(STRS)))                      # (us) sent as u, s
    if k < 0.85 and [SIG[t] for t in ts] == ["u", "s"]:
        return "R%d.%s" % (rng.choice(U32S), tok_str(rng.choice(STRS)))                       # u, s sent as (us)
    if len(ts) >= 2:
        us = list(ts)
        rng.shuffle(us)
        if [SIG[t] for t in us] != [SIG[t] for t in ts]:
            return gen_args(rng, us)                                                          # permuted
    return gen_args(rng, [other_type(rng, t) for t in ts])


LAYOUTS = ["L/zv/a=D,/zv/a/b=D,/zv/c=O", "L/zv/a=D", "L/=D,/zv/c=O", "L/zv/a=D,/zv/c=O,/zv/c/d=D", "L/a/b/c=D,/a=O,/zv/a=D"]


def layout_paths(layout):
    """(paths with D, paths with only O, intermediate / root paths without D, unknown paths)"""
    regs = [e.split("=") for e in layout[1:].split(",") if e]
    dpaths = [p for p, k in regs if k == "D"]
    opaths = [p for p, k in regs if k == "O" and p not in dpaths]
    inter = set(["/"])
    for p, _ in regs:
        segs = [x for x in p.split("/") if x]
        for i in range(1, len(segs)):
            inter.add("/" + "/".join(segs[:i]))
    inter = sorted(x for x in inter if x not in dpaths)
    unknown = ["/nope", dpaths[0].rstrip("/") + "/x", "/zv/ab"]
    unknown = [u for u in unknown if u not in dpaths and u not in opaths and u not in inter]
    return dpaths, opaths, inter, unknown


def call_op(path, iface, member, args, noreply=False):
    return "c:%s:%s:%s:%s:%s" % (path or "-", iface or "-", member or "-", "n" if noreply else "-", args)


def iname(d):
    return "org.zv." + d["name"]


def sname(x):
    return "s" + tok_str(x)


def gen26(rng, d, tier):
    """dispatch: right / wrong / missing path, interface, member, argument types, the no-reply flag"""
    cases = []
    I = iname(d)
    ncases = 6 if tier == "quick" else 16
    for ci in range(ncases):
        layout = LAYOUTS[ci % len(LAYOUTS)] if ci < len(LAYOUTS) else rng.choice(LAYOUTS)
        dp, op_, inter, unk = layout_paths(layout)
        ops = []
        members = [m["name"] for m in d["methods"]]
        wrong_members = [p["name"] for p in d["props"]] + [s["name"] for s in d["signals"]] + ["MNope", "Get", "Ping", "MHello"] + \
                        [m.lower() for m in members[:1]]
        for _ in range(14 if tier == "quick" else 24):
            k = rng.random()
            m = rng.choice(d["methods"]) if d["methods"] else None
            path = rng.choice(dp)
            nr = rng.random() < 0.2
            if m and k < 0.32:
                ops.append(call_op(path, I, m["name"], gen_args(rng, m["ins"]), nr))                      # everything right
            elif m and k < 0.52:
                ops.append(call_op(path, I, m["name"], bad_args(rng, m["ins"]), nr))                      # wrong arguments
            elif k < 0.62:
                wp = rng.choice(inter + unk + op_ + unk)
                ops.append(call_op(wp, I, m["name"] if m else "MNope", gen_args(rng, m["ins"]) if m else "", nr))   # wrong path
            elif k < 0.72:
                wi = rng.choice(["org.zv.Other", "org.zv.Nope", "org.freedesktop.DBus.Peer", PR, None, None, I + "x"])
                ops.append(call_op(path, wi, m["name"] if m else "MNope", gen_args(rng, m["ins"]) if m else "", nr))  # wrong / missing interface
            elif k < 0.82:
                ops.append(call_op(path, I, rng.choice(wrong_members), gen_args(rng, m["ins"]) if m and rng.random() < 0.5 else "", nr))  # wrong member
            elif k < 0.86:
                which = rng.choice(["p", "m", "pm"])
                ops.append(call_op(None if "p" in which else path, I, None if "m" in which else (m["name"] if m else "MNope"),
                                   gen_args(rng, m["ins"]) if m else "", nr))                                # missing PATH / MEMBER
            elif k < 0.92:
                ops.append(call_op(rng.choice(dp + inter + op_), "org.freedesktop.DBus.Peer", rng.choice(["Ping", "Ping", "Pong"]),
                                   rng.choice(["", "", "u1"]), nr))
            elif k < 0.96 and op_:
                ops.append(call_op(rng.choice(op_ + dp), "org.zv.Other", "MHello", rng.choice(["", "", "s41"]), nr))
            else:
                p = rng.choice(d["props"]) if d["props"] else None
                ops.append(call_op(path, PR, rng.choice(["Get", "GetAll", "Set", "Nope"]),
                                   ",".join([sname(I)] + ([sname(p["name"])] if p and rng.random() < 0.7 else [])), nr))
        cases.append("26 %s %s %s" % (desc_token(d), layout, " ".join(ops)))
    return cases


def gen28(rng, d, tier):
    """Properties: Get / GetAll / Set histories with right and wrong names, types, interfaces, paths"""
    cases = []
    I = iname(d)
    ncases = 5 if tier == "quick" else 14
    if not d["props"]:
        ncases = 1                  # nothing to read or write: one history of lookups that must all fail
    for ci in range(ncases):
        layout = rng.choice(["L/zv/a=D", "L/zv/a=D,/zv/a/b=D,/zv/c=O"])
        dp, op_, inter, unk = layout_paths(layout)
        ops = []
        for _ in range(18 if tier == "quick" else 40):
            k = rng.random()
            p = rng.choice(d["props"]) if d["props"] else None
            path = rng.choice(dp)
            nr = rng.random() < 0.1
            pn = p["name"] if p else "PNope"
            if p and k < 0.4:
                ops.append(call_op(path, PR, "Set", "%s,%s,v%s" % (sname(I), sname(pn), gen_val(rng, p["ty"])), nr))       # right type (whatever the access)
            elif p and k < 0.5:
                ops.append(call_op(path, PR, "Set", "%s,%s,v%s" % (sname(I), sname(pn), gen_val(rng, other_type(rng, p["ty"]))), nr))
            elif p and k < 0.54:
                ops.append(call_op(path, PR, "Set", "%s,%s,vv%s" % (sname(I), sname(pn), gen_val(rng, p["ty"])), nr))      # value wrapped in one more variant
            elif k < 0.7:
                ops.append(call_op(path, PR, "Get", "%s,%s" % (sname(I), sname(pn)), nr))
            elif k < 0.8:
                ops.append(call_op(path, PR, "GetAll", sname(I), nr))
            elif k < 0.85:
                wn = rng.choice(["PNope", pn.lower(), (d["methods"][0]["name"] if d["methods"] else "MNope"), ""])
                if rng.random() < 0.5:
                    ops.append(call_op(path, PR, "Get", "%s,%s" % (sname(I), sname(wn)), nr))
                else:
                    ops.append(call_op(path, PR, "Set", "%s,%s,v%s" % (sname(I), sname(wn), gen_val(rng, "u")), nr))
            elif k < 0.9:
                wi = rng.choice(["org.zv.Nope", "org.zv.Other", "org.freedesktop.DBus.Peer", PR, "bad name", "x"])
                which = rng.choice(["Get", "GetAll", "Set"])
                a = {"Get": "%s,%s" % (sname(wi), sname(pn)), "GetAll": sname(wi), "Set": "%s,%s,vu1" % (sname(wi), sname(pn))}[which]
                ops.append(call_op(path, PR, which, a, nr))
            elif k < 0.95:
                wp = rng.choice(inter + unk + op_)
                ops.append(call_op(wp, PR, rng.choice(["Get", "GetAll"]), "%s,%s" % (sname(I), sname(pn)) if rng.random() < 0.5 else sname(I), nr))
            else:
                a = rng.choice(["", sname(I), "%s,%s" % (sname(I), sname(pn)), "%s,%s,u1" % (sname(I), sname(pn)), "u1,u2"])
                ops.append(call_op(path, PR, rng.choice(["Get", "GetAll", "Set"]), a, nr))                                   # arbitrary argument lists
        cases.append("28 %s %s %s" % (desc_token(d), layout, " ".join(ops)))
    return cases


TREES = ["L/zv/a=D", "L/=D", "L/zv/a=D,/zv/a/b=D,/zv/c=O", "L/a/b/c/d=D,/a/b=O,/a/x=D", "L/=O,/q=D,/q/r=O,/q/s=D", "L"]


def gen27(rng, d, tier):
    """introspection on random trees, plus for every member what actually travels (calls, replies, signals, Get/Set)"""
    cases = []
    I = iname(d)
    for ti, layout in enumerate(TREES if tier != "quick" else TREES[:4] + [rng.choice(TREES[4:])]):
        dp, op_, inter, unk = layout_paths(layout) if layout != "L" else ([], [], ["/"], ["/nope"])
        ops = ["i:%s" % p for p in sorted(set(dp + op_ + inter + unk[:1]))]
        if dp:
            path = dp[0]
            for m in d["methods"]:
                ops.append(call_op(path, I, m["name"], gen_args(rng, m["ins"])))
                ops.append(call_op(path, I, m["name"], bad_args(rng, m["ins"])))
            for s in d["signals"]:
                ops.append("sg:a:%s:%s:%s" % (path, s["name"], gen_args(rng, s["args"])))
            for p in d["props"]:
                ops.append(call_op(path, PR, "Get", "%s,%s" % (sname(I), sname(p["name"]))))
                ops.append(call_op(path, PR, "Set", "%s,%s,v%s" % (sname(I), sname(p["name"]), gen_val(rng, p["ty"]))))
                ops.append(call_op(path, PR, "Set", "%s,%s,v%s" % (sname(I), sname(p["name"]), gen_val(rng, other_type(rng, p["ty"])))))
            ops.append(call_op(path, PR, "GetAll", sname(I)))
        cases.append("27 %s %s %s" % (desc_token(d), layout, " ".join(ops)))
    return cases


def gen33(rng, d, tier):
    """generated proxies (async and blocking) against the generated interface"""
    cases = []
    ncases = 3 if tier == "quick" else 8
    for ci in range(ncases):
        layout = rng.choice(["L/zv/a=D", "L/zv/a=D,/zv/a/b=D,/zv/c=O"])
        dp, _, _, _ = layout_paths(layout)
        ops = []
        for _ in range(16 if tier == "quick" else 36):
            k = rng.random()
            ab = rng.choice("ab")
            path = rng.choice(dp)
            if d["methods"] and k < 0.4:
                m = rng.choice(d["methods"])
                ops.append("pm:%s:%s:%s:%s" % (ab, path, m["name"], gen_args(rng, m["ins"])))
            elif d["props"] and k < 0.75:
                p = rng.choice(d["props"])
                if "w" in p["acc"] and (rng.random() < 0.55 or "r" not in p["acc"]):
                    ops.append("ps:%s:%s:%s:%s" % (ab, path, p["name"], gen_val(rng, p["ty"])))
                else:
                    ops.append("pg:%s:%s:%s" % (ab, path, p["name"]))
            elif d["signals"] and k < 0.95:
                s = rng.choice(d["signals"])
                ops.append("sg:%s:%s:%s:%s" % (ab, path, s["name"], gen_args(rng, s["args"])))
            elif d["props"]:
                ops.append(call_op(path, PR, "GetAll", sname(iname(d))))
        if ops:
            cases.append("33 %s %s %s" % (desc_token(d), layout, " ".join(ops)))
    # property histories PER PROXY INSTANCE: read -> change (through that proxy, through another proxy, by a raw Set)
    # -> read again through the SAME proxy; default caching and CacheProperties::No (control), async and blocking
    rprops = [p for p in d["props"] if "r" in p["acc"]]
    if rprops:
        for ci in range(2 if tier == "quick" else 5):
            path = "/zv/a"
            slots = [("s1", "a", "c"), ("s2", "b", "c"), ("s3", rng.choice("ab"), "n")]
            ops = ["pn:%s:%s:%s:%s" % (n, ab, c, path) for n, ab, c in slots]
            if ci % 2 == 1:
                ops = ops[:1] + [call_op(path, PR, "GetAll", sname(iname(d)))] + ops[1:]
            order = list(rprops)
            rng.shuffle(order)
            for p in order:
                ops += ["qg:%s:%s" % (n, p["name"]) for n, _, _ in slots]               # populate the caches
                if "w" in p["acc"]:
                    for how in rng.sample(["s1", "s2", "s3", "raw", "fresh"], 3):
                        v = gen_val(rng, p["ty"])
                        if how == "raw":
                            ops.append(call_op(path, PR, "Set", "%s,%s,v%s" % (sname(iname(d)), sname(p["name"]), v)))
                        elif how == "fresh":
                            ops.append("ps:%s:%s:%s:%s" % (rng.choice("ab"), path, p["name"], v))
                        else:
                            ops.append("qs:%s:%s:%s" % (how, p["name"], v))
                        ops += ["qg:%s:%s" % (n, p["name"]) for n, _, _ in slots]       # ... and read again, same proxies
            cases.append("33 %s L%s=D %s" % (desc_token(d), path, " ".join(ops)))
    return cases


GEN = {"C26": gen26, "C27": gen27, "C28": gen28, "C33": gen33}
MODE = {"C26": "26", "C27": "27", "C28": "28", "C33": "33"}


# ---------------------------------------------------------------- comparing observations
def wild(pat, text):
    """'*' in pat matches any run of characters without a separator"""
    if pat == text:
        return True
    return re.fullmatch(re.escape(pat).replace(r"\*", r"[^|&;]*"), text) is not None


def agree_op(impl, model):
    return wild(model, impl)


def parse_canon_node(s, i=0):
    """canonical node text -> (list of iface strings, list of (name, child)), next index"""
    assert s[i] == "["
    j = s.index("]", i)
    ifs = s[i + 1:j].split("~") if j > i + 1 else []
    assert s[j + 1] == "{"
    k = j + 2
    kids = []
    while s[k] != "}":
        b = s.index("[", k)
        name = s[k:b]
        child, k = parse_canon_node(s, b)
        kids.append((name, child))
        if s[k] == "~":
            k += 1
    return (ifs, kids), k + 1


def norm_iface(t):
    name, m, sg, p = t.split(":")
    return "%s:M%s:S%s:P%s" % (name, "+".join(sorted(m[1:].split("+"))), "+".join(sorted(sg[1:].split("+"))), "+".join(sorted(p[1:].split("+"))))


def norm_node(n):
    ifs, kids = n
    return "[" + "~".join(sorted(norm_iface(t) for t in ifs)) + "]{" + "~".join(k + norm_node(c) for k, c in sorted(kids)) + "}"


def norm_canon(z):
    """member order inside an interface is not demanded by the property: sort it away"""
    try:
        n, _ = parse_canon_node(z)
        return norm_node(n)
    except (ValueError, AssertionError, IndexError):
        return z


def reply_meets(spec, impl):
    if spec.startswith("?"):
        return impl == "N" or reply_meets(spec[1:], impl)
    if spec == "E*":
        return impl.startswith("E") and "&" not in impl
    return wild(spec, impl)


def meets_op(impl, spec):
    if spec == "-":
        return True
    sf, imf = spec.split("|"), impl.split("|")
    if len(sf) != len(imf):
        return False
    if sf[0].startswith("I") and len(sf) == 5:
        if not imf[0].startswith("I"):
            return False
        return (norm_canon(imf[0][1:]) == norm_canon(sf[0][1:]) and imf[2] != "BADXML" and norm_canon(imf[2]) == norm_canon(sf[2])
                and imf[3] == sf[3] and imf[4] == sf[4])
    if not reply_meets(sf[0], imf[0]):
        return False
    return all(a == "*" or wild(a, b) for a, b in zip(sf[1:], imf[1:]))


# ---------------------------------------------------------------- the strict XML reader (Python's expat)
def py_canon(xml_text):
    from xml.dom import minidom
    import xml.etree.ElementTree as ET
    try:
        doc = minidom.parseString(xml_text.encode("utf8"))
        ET.fromstring(xml_text.encode("utf8"))
    except Exception:
        return "BADXML"

    def els(n, tag):
        return [c for c in n.childNodes if c.nodeType == c.ELEMENT_NODE and c.tagName == tag]

    def arg(a):
        return "%s=%s" % (a.getAttribute("name") if a.hasAttribute("name") else "-", a.getAttribute("type"))

    def iface(i):
        ms = []
        for m in els(i, "method"):
            ins = [arg(a) for a in els(m, "arg") if a.getAttribute("direction") == "in"]
            outs = [arg(a) for a in els(m, "arg") if a.getAttribute("direction") != "in"]
            ms.append("%s(%s>%s)" % (m.getAttribute("name"), ",".join(ins), ",".join(outs)))
        ss = ["%s(%s)" % (m.getAttribute("name"), ",".join(arg(a) for a in els(m, "arg"))) for m in els(i, "signal")]
        ps = []
        for p in els(i, "property"):
            em = "true"
            for a in els(p, "annotation"):
                if a.getAttribute("name") == "org.freedesktop.DBus.Property.EmitsChangedSignal":
                    em = a.getAttribute("value")
                    break
            acc = {"read": "r", "write": "w", "readwrite": "rw"}.get(p.getAttribute("access"), "?")
            ps.append("%s=%s/%s/%s" % (p.getAttribute("name"), p.getAttribute("type"), acc, em))
        return "%s:M%s:S%s:P%s" % (i.getAttribute("name"), "+".join(ms), "+".join(ss), "+".join(ps))

    def node(n):
        ifs = sorted((iface(i) for i in els(n, "interface")), key=lambda z: z.encode("utf8"))
        kids = sorted(((c.getAttribute("name") if c.hasAttribute("name") else "?", node(c)) for c in els(n, "node")),
                      key=lambda z: (z[0].encode("utf8"), z[1].encode("utf8")))
        return "[" + "~".join(ifs) + "]{" + "~".join(k + v for k, v in kids) + "}"
    return node(doc.documentElement)


def post_impl(line):
    """replace the X<hex of the XML text> field of every Introspect observation by the strict reader's verdict"""
    if "|X" not in line:
        return line
    out = []
    for ob in line.split(";"):
        f = ob.split("|")
        if len(f) == 5 and f[2].startswith("X"):
            try:
                f[2] = py_canon(bytes.fromhex(f[2][1:]).decode("utf8"))
            except ValueError:
                f[2] = "BADXML"
        out.append("|".join(f))
    return ";".join(out)


# ---------------------------------------------------------------- the run (custom_run of props/C26|C27|C28|C33.py)
import json
import time


def corpus_lines(pid):
    d = os.path.join(core.ROOT, "corpus", pid)
    out = []
    if os.path.isdir(d):
        for f in sorted(os.listdir(d)):
            if f.endswith(".txt"):
                for ln in open(os.path.join(d, f)):
                    ln = ln.rstrip("\n")
                    if ln and not ln.startswith("#"):
                        out.append(ln)
    return out


def dedupe(seq):
    seen, out = set(), []
    for x in seq:
        if x not in seen:
            seen.add(x)
            out.append(x)
    return out


def split3(line):
    parts = line.split("\t")
    while len(parts) < 3:
        parts.append("-")
    return parts[0], parts[1], parts[2]


def evaluate(cases, model_out, impl_out, known_classes):
    """per op: correspondence (impl vs model), oracle (impl vs spec) outside the known classes"""
    dis, vio, known, nops = [], [], {}, 0
    for c, mo, io in zip(cases, model_out, impl_out):
        m, sp, cl = split3(mo)
        ops = c.split(" ")[3:]
        mm, ss, cc, ii = m.split(";"), sp.split(";"), cl.split(";"), io.split(";")
        if m == "BADCASE" or io in ("BADCASE", "PANIC", "NOCONN", "ABORT", "HANG") or not (len(ops) == len(mm) == len(ss) == len(cc) == len(ii)):
            if not (m == "BADCASE" and io == "BADCASE") and ops:
                dis.append({"case": c, "op": "*", "impl": io[:2000], "model": m[:2000], "spec": "-", "class": "-"})
            continue
        for k, (o, a, b, s_, cls) in enumerate(zip(ops, ii, mm, ss, cc)):
            nops += 1
            if not agree_op(a, b):
                dis.append({"case": c, "op_index": k, "op": o, "impl": a[:4000], "model": b[:4000], "spec": s_[:2000], "class": cls})
            if not meets_op(a, s_):
                if cls != "-" and cls in known_classes:
                    known.setdefault(cls, []).append(c)
                else:
                    vio.append({"case": c, "op_index": k, "op": o, "impl": a[:4000], "model": b[:4000], "spec": s_[:4000], "class": cls})
    return dis, vio, known, nops


def op_kind(o):
    f = o.split(":")
    if f[0] == "c":
        std = f[2].startswith("org.freedesktop.") if f[2] != "-" else False
        return "call:" + ("props." + f[3] if f[2] == PR else "std" if std else "user") + (":noreply" if f[4] == "n" else "")
    return f[0]


def outcome_kind(a):
    r = a.split("|")[0]
    if r.startswith("R") or r.startswith("O"):
        return "ok"
    if r.startswith("E"):
        return "err:" + r[1:].split("=")[0]
    if r.startswith("I"):
        return "xml" + (":BAD" if "BADXML" in a else "")
    return r[:8]


def shrink_case(binary, zmodel, case, known_classes):
    """drop ops while the case still violates (the layout and description stay)"""
    w = case.split(" ")
    head, ops = w[:3], w[3:]

    def bad(ops_):
        line = " ".join(head + ops_)
        mo = core.run_lines(zmodel, [line])
        io = [post_impl(x) for x in core.run_lines(binary, [line])]
        _, v, _, _ = evaluate([line], mo, io, known_classes)
        return bool(v)
    i = 0
    while i < len(ops) and len(ops) > 1:
        trial = ops[:i] + ops[i + 1:]
        if bad(trial):
            ops = trial
        else:
            i += 1
    return " ".join(head + ops)


def run_property(prop, pid, tier, seed, replay=None):
    t0 = time.time()
    log = core.log
    coq = core.coq_check(pid, thorough=(tier == "thorough"))
    log("[%s] coq_check %.1fs" % (pid, time.time() - t0))
    zmodel, merr = core.model_build(pid, prop.RUN_MODULE)
    log("[%s] model_build %.1fs" % (pid, time.time() - t0))
    kf = core.known_findings(pid)
    known_classes = {e["class"] for e in kf if e.get("status") == "known"}
    problems, tool_errors = [], []
    if not coq["ok"]:
        problems.append({"kind": "proof", "theorem": coq.get("failed_at"), "log": coq["log"][-1500:], "audit": coq["audit"]})
    if zmodel is None:
        problems.append({"kind": "proof", "theorem": "model does not build/extract", "log": merr[-1500:]})

    # ---- batches of descriptions: [(random descriptions, cases)]
    rng = random.Random("cases-%s-%s-%s" % (pid, tier, seed))
    batches = []
    if replay:
        rp = json.load(open(replay))
        rand = [parse_desc(t) for t in rp.get("rand_descs", [])]
        cases = [x["case"] if isinstance(x, dict) else x for x in rp.get("cases", [])] or ([rp["case"]] if "case" in rp else [])
        batches.append((rand, cases, 0))
    else:
        nb = 1 if tier == "quick" else 4
        for b in range(nb):
            rand = batch_descs(tier, seed, b)
            cases = []
            if b == 0:
                cases += corpus_lines(pid) + [e["case"] for e in kf if "case" in e]
                for d in corpus_descs():
                    cases += GEN[pid](rng, d, tier)
            fixed = len(cases)
            for d in rand:
                cases += GEN[pid](rng, d, tier)
            batches.append((rand, dedupe(cases), fixed))

    disagreements, violations, known_hits = [], [], {}
    dist, nontrivial, samples = {}, set(), []
    total_cases = total_ops = gen_count = programs = 0
    build_failed = False
    last = None
    for rand, cases, fixed in batches:
        binary, berr, descs = build_batch(rand)
        log("[%s] cargo build of the batch done at %.1fs" % (pid, time.time() - t0))
        programs += len(descs)
        if binary is None:
            build_failed = True
            problems.append({"kind": "correspondence", "theorem": "generated interfaces do not build against /repo (harness hiface)", "log": berr[-2500:]})
            continue
        if zmodel is None or not cases:
            continue
        last = (binary, rand)
        gen_count += len(cases) - fixed
        model_out = core.run_lines(zmodel, cases, shards=min(core.NCPU, 8))
        impl_out = [post_impl(x) for x in core.run_lines(binary, cases, shards=min(core.NCPU, 8), timeout=1500)]
        if any(x.startswith("BADCASE") for x in model_out) or any(x.startswith("BADCASE") for x in impl_out):
            bad = [c for c, x, y in zip(cases, model_out, impl_out) if x.startswith("BADCASE") or y.startswith("BADCASE")][:2]
            tool_errors.append("case syntax rejected: %r" % [b[:300] for b in bad])
        log("[%s] %d cases run at %.1fs" % (pid, len(cases), time.time() - t0))
        d, v, k, nops = evaluate(cases, model_out, impl_out, known_classes)
        if d or v:
            # schedule-dependent hiccups (a reply overtaken, a slow start): re-run the suspicious cases once
            again = dedupe([x["case"] for x in d + v])
            idx = {c: i for i, c in enumerate(cases)}
            io2 = [post_impl(x) for x in core.run_lines(binary, again, shards=1)]
            for c, o in zip(again, io2):
                impl_out[idx[c]] = o
            d, v, k, nops = evaluate(cases, model_out, impl_out, known_classes)
        for x in d + v:
            x["rand_descs"] = [desc_token(t) for t in rand]
        disagreements += d
        violations += v
        for kk, vv in k.items():
            known_hits.setdefault(kk, []).extend(vv)
        total_cases += len(cases)
        total_ops += nops
        for c, io in zip(cases, impl_out):
            ops, ii = c.split(" ")[3:], io.split(";")
            if len(ops) != len(ii):
                continue
            kinds = set()
            for o, a in zip(ops, ii):
                key = op_kind(o) + " -> " + outcome_kind(a)
                dist[key] = dist.get(key, 0) + 1
                kinds.add(outcome_kind(a).split(":")[0])
            if len(ops) >= 2 and "ok" in kinds | ({"ok"} if "xml" in kinds else set()) and len(kinds) >= 2:
                nontrivial.add(c)
        if not samples:
            step = max(1, len(cases) // 4)
            samples = [{"case": c[:1500], "impl": i[:1500], "model_spec_class": m[:3000]} for c, i, m in
                       list(zip(cases, impl_out, model_out))[::step][:4]]
        # extraction vs in-Coq evaluation on a sample
        kx = 3 if tier == "quick" else 12
        short = [i for i in range(len(cases)) if len(cases[i]) + len(model_out[i]) < 9000]
        pick = sorted(rng.sample(short, min(kx, len(short))))
        okx, outx = core.vm_crosscheck(pid, prop.RUN_MODULE, [cases[i] for i in pick], [model_out[i] for i in pick])
        if not okx:
            tool_errors.append("extracted model and vm_compute disagree on the sample: " + outx[-400:])

    known_lines = []
    for e in kf:
        if e.get("status") == "known" and known_hits.get(e["class"]):
            hits = known_hits[e["class"]]
            known_lines.append("KNOWN-FINDING: property=%s %s [class %s, %d op(s) this run]" % (pid, e["what_fails"], e["class"], len(hits)))

    p_ok = coq["ok"] and zmodel is not None
    c_ok = not disagreements and not build_failed
    o_ok = not violations
    status, replay_path, searched = 0, None, 0
    if violations:
        status = 1
        v0 = violations[0]
        if last and not replay:
            try:
                v0 = dict(v0, case=shrink_case(last[0], zmodel, v0["case"], known_classes)) if v0.get("rand_descs") == [desc_token(t) for t in last[1]] else v0
            except Exception as ex:
                log("shrink failed:", ex)
        replay_path = core.write_replay(pid, seed, {"property": pid, "tier": tier, "seed": seed, "kind": "spec-violation",
                                                    "case": v0["case"], "op": v0.get("op"), "impl": v0["impl"], "model": v0["model"],
                                                    "spec": v0["spec"], "rand_descs": v0.get("rand_descs", []),
                                                    "cases": [x["case"] for x in violations[:10]]})
    elif not p_ok or not c_ok:
        # the property is no longer shown to hold: look harder for an input on which the implementation breaks it
        found = None
        if last and zmodel and not replay:
            t1 = time.time()
            srng = random.Random("search-%s-%s" % (pid, seed))
            binary, rand = last
            extra = []
            targets = [parse_desc(x["case"].split(" ")[1]) for x in disagreements[:6] if x["case"].split(" ")[1:2]]
            for d in targets + corpus_descs() + rand:
                extra += GEN[pid](srng, d, "thorough")
            extra = dedupe(extra)[:1500]
            searched = len(extra)
            mo2 = core.run_lines(zmodel, extra, shards=min(core.NCPU, 8))
            io2 = [post_impl(x) for x in core.run_lines(binary, extra, shards=min(core.NCPU, 8), timeout=1500)]
            _, v2, _, _ = evaluate(extra, mo2, io2, known_classes)
            if v2:
                found = dict(v2[0], rand_descs=[desc_token(t) for t in rand])
            log("search: %d extra cases in %.1fs, found=%s" % (searched, time.time() - t1, bool(found)))
        status = 1
        if found:
            replay_path = core.write_replay(pid, seed, {"property": pid, "tier": tier, "seed": seed, "kind": "spec-violation",
                                                        "case": found["case"], "op": found.get("op"), "impl": found["impl"],
                                                        "model": found["model"], "spec": found["spec"], "rand_descs": found["rand_descs"]})
            violations = [found]
        else:
            replay_path = core.write_replay(pid, seed, {
                "property": pid, "tier": tier, "seed": seed, "kind": "proof" if not p_ok else "correspondence",
                "theorem": [p.get("theorem") for p in problems], "problems": problems[:5],
                "cases": disagreements[:10], "rand_descs": disagreements[0].get("rand_descs", []) if disagreements else [],
                "note": "no failing input found; the theorem/correspondence named here no longer checks"})

    theorems = coq["theorems"]
    ev = {
        "property_id": pid, "tier": tier, "seed": seed, "level": getattr(prop, "LEVEL", "proof"),
        "wall_s": round(time.time() - t0, 2),
        "violations": len(violations) + (1 if status and not violations else 0),
        "coverage": {
            "obligations": len(theorems) + 1,
            "discharged": (len(theorems) + 1) if coq["ok"] else 0,
            "theorems": theorems,
            "partial_or_refuted": [t for t in theorems if t.endswith("_partial") or t.endswith("_refuted")],
            "axioms_reported": coq["axioms"],
            "closed_under_global_context": coq.get("closed", 0),
            "audit_hits": coq["audit"],
            "checker_cmd": coq["checker_cmd"],
            "trusted_base": ["Coq 8.16.1 kernel (vm_compute used in finite-domain lemmas and witnesses; no native_compute)",
                             "extraction (ExtrOcamlBasic only) + model/driver.ml, cross-checked by in-Coq vm_compute on a sample",
                             "hand-written model of what the macros generate, tied to /repo by the differential correspondence below"]
                            + list(getattr(prop, "TRUSTED", [])),
            "evaluations": total_ops,
            "cases": total_cases,
            "generated": gen_count,
            "programs": programs,
            "distinct_nontrivial": len(nontrivial),
            "rule": getattr(prop, "RULE", ""),
            "samples": samples if samples else [{"note": "no case could be run"}],
            "distribution": dist,
            "disagreements_checked": len(disagreements),
            "known_class_hits": {k: len(v) for k, v in known_hits.items()},
            "search_extra_cases": searched,
            "tool_errors": tool_errors,
        },
        "assumptions": list(getattr(prop, "ASSUMPTIONS", [])),
    }
    core.write_evidence(pid, ev)
    for ln in known_lines:
        print(ln)
    log("[%s] tier=%s seed=%s cases=%d ops=%d interfaces=%d P_ok=%s C_ok=%s O_ok=%s theorems=%d axioms=%s wall=%.1fs" %
        (pid, tier, seed, total_cases, total_ops, programs, p_ok, c_ok, o_ok, len(theorems), coq["axioms"], time.time() - t0))
    for te in tool_errors:
        log("TOOL-ERROR:", te)
    if status:
        tail = "" if violations else " no-failing-input-found"
        for p_ in problems[:3]:
            log("PROBLEM:", p_.get("kind"), p_.get("theorem"), "\n", (p_.get("log") or "")[-1500:])
        for d in disagreements[:5]:
            log("DISAGREE:", {k: (v if k != "rand_descs" else "...") for k, v in d.items()})
        for v in violations[:5]:
            log("VIOLATES:", {k: (v_ if k != "rand_descs" else "...") for k, v_ in v.items()})
        print("VIOLATION property=%s replay=%s%s" % (pid, replay_path, tail))
        return 1
    if tool_errors:
        return 2
    return 0


if __name__ == "__main__":
    if sys.argv[1] == "emit":
        rng = random.Random(int(sys.argv[2]))
        ds = [rand_desc(rng, "G%d" % i) for i in range(int(sys.argv[3]))]
        b, log, descs = build_batch(ds)
        print(b, log, file=sys.stderr)
        for d in descs:
            print(desc_token(d))
