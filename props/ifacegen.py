"""Shared machinery of C26 / C27 / C28 / C33 (proc-macro properties: the theorems quantify over interface
*descriptions*; the tie to the real macros is made by generating Rust sources from the same descriptions).

  description  := dict(name, methods, props, signals)            (the Coq record `idesc`, coq/theories/C26/Desc.v)
  desc_token   := one word shared by the Coq driver (parsed), the harness (compiled in) and the case lines
  emit_rust    := the *trusted* description -> source emitter: `#[zbus::interface]` impl + `#[zbus::proxy]` trait +
                  glue, handlers with the standard behaviour of harness/hiface/src/rt.rs (= C26/Std.v)
  batches      := corpus descriptions first, then descriptions drawn from the seed
"""
import hashlib
import os
import random
import re
import shutil
import sys

sys.path.insert(0, os.path.join(os.path.dirname(os.path.dirname(os.path.abspath(__file__))), "vlib"))
import core  # noqa: E402

TYPES = "yuxbsARNDvo"
PROP_TYPES = "yuxbsANDvo"        # no `From<(u32, String)> for Value`: tuples cannot be property types
RUST = {"y": "u8", "u": "u32", "x": "i64", "b": "bool", "s": "String", "A": "Vec<u32>", "R": "(u32, String)",
        "N": "Pair", "D": "HashMap<String, u32>", "v": "OwnedValue", "o": "OwnedObjectPath"}
SIG = {"y": "y", "u": "u", "x": "x", "b": "b", "s": "s", "A": "au", "R": "(us)", "N": "(us)", "D": "a{su}", "v": "v", "o": "o"}
EMITS = {"t": "true", "i": "invalidates", "c": "const", "f": "false"}
WORDS = ["Add", "Get", "Put", "Run", "Stop", "Go", "Mix", "Zap", "Hold", "Send", "Peek", "Flip", "Sum", "Cut", "Join", "Ask"]
DOCS = [" plain text", " a -- b", " x <b>y</b> & \"z\" 'q'", " ends --> here", "", "  ", " two\nlines", " dash-", " -", " <!-- nested",
        " café ☃", " a - - b", "\tTab", " ]]> &amp; &#60;"]


# ---------------------------------------------------------------- names
def snake(pascal):
    out = ""
    for i, ch in enumerate(pascal):
        if ch.isupper() and i > 0:
            out += "_"
        out += ch.lower()
    return out


def hx(s):
    return s.encode("utf8").hex()


# ---------------------------------------------------------------- description <-> token
def out_tok(o):
    if o[0] == "-":
        return "-"
    if o[0] == "1":
        return "1" + o[1]
    return "t" + "".join(o[1])


def doc_tok(doc):
    return "_".join(hx(d) if d else "e" for d in doc) if doc else "-"


def desc_token(d):
    parts = [d["name"]]
    for m in d["methods"]:
        fl = ("m" if m["mut"] else "") + ("f" if m["fall"] else "") + ("a" if m["async"] else "")
        parts.append("m.%s.%s.%s.%s.%s" % (m["name"], "".join(m["ins"]) or "-", out_tok(m["out"]), fl or "-", doc_tok(m["doc"])))
    for p in d["props"]:
        fl = ("g" if p["gfall"] else "") + ("s" if p["sfall"] else "") + ("m" if p["smut"] else "") + \
             ("a" if p["gasync"] else "") + ("b" if p["sasync"] else "")
        parts.append("p.%s.%s.%s.%s.%s.%s" % (p["name"], p["ty"], p["acc"], p["emits"], fl or "-", doc_tok(p["doc"])))
    for s in d["signals"]:
        parts.append("s.%s.%s.%s" % (s["name"], "".join(s["args"]) or "-", doc_tok(s["doc"])))
    return "/".join(parts)


def parse_doc(t):
    if t == "-":
        return []
    return ["" if x == "e" else bytes.fromhex(x).decode("utf8") for x in t.split("_")]


def parse_desc(tok):
    parts = tok.split("/")
    d = {"name": parts[0], "methods": [], "props": [], "signals": []}
    for p in parts[1:]:
        f = p.split(".")
        if f[0] == "m":
            o = f[3]
            out = ("-",) if o == "-" else ("1", o[1]) if o[0] == "1" else ("t", list(o[1:]))
            d["methods"].append({"name": f[1], "ins": [] if f[2] == "-" else list(f[2]), "out": out, "mut": "m" in f[4].replace("-", ""),
                                 "fall": "f" in f[4], "async": "a" in f[4], "doc": parse_doc(f[5])})
        elif f[0] == "p":
            d["props"].append({"name": f[1], "ty": f[2], "acc": f[3], "emits": f[4], "gfall": "g" in f[5], "sfall": "s" in f[5],
                               "smut": "m" in f[5], "gasync": "a" in f[5], "sasync": "b" in f[5], "doc": parse_doc(f[6])})
        elif f[0] == "s":
            d["signals"].append({"name": f[1], "args": [] if f[2] == "-" else list(f[2]), "doc": parse_doc(f[3])})
    return d


OTHER = {"name": "Other", "methods": [{"name": "MHello", "ins": [], "out": ("1", "s"), "mut": False, "fall": False, "async": False, "doc": []}],
         "props": [], "signals": []}


# ---------------------------------------------------------------- random descriptions
def rand_doc(rng, p=0.45):
    if rng.random() > p:
        return []
    return [rng.choice(DOCS) for _ in range(rng.choice([1, 1, 1, 2, 3]))]


def rand_desc(rng, name, rich=True):
    d = {"name": name, "methods": [], "props": [], "signals": []}
    used = set()

    def fresh(prefix):
        while True:
            n = prefix + rng.choice(WORDS) + (rng.choice(WORDS) if rng.random() < 0.3 else "") + (str(rng.randint(2, 9)) if rng.random() < 0.2 else "")
            if n not in used:
                used.add(n)
                return n
    for _ in range(rng.randint(1, 4) if rich else rng.randint(0, 2)):
        k = rng.random()
        ins = [rng.choice(TYPES) for _ in range(0 if k < 0.15 else 1 if k < 0.5 else 2 if k < 0.85 else 3)]
        k = rng.random()
        if k < 0.2:
            out = ("-",)
        elif k < 0.6:
            out = ("1", rng.choice(TYPES))
        else:
            out = ("t", [rng.choice(TYPES) for _ in range(rng.choice([0, 1, 2, 2, 2, 3]))])
        d["methods"].append({"name": fresh("M"), "ins": ins, "out": out, "mut": rng.random() < 0.4, "fall": rng.random() < 0.4,
                             "async": rng.random() < 0.5, "doc": rand_doc(rng)})
    for _ in range(rng.randint(1, 4) if rich else rng.randint(0, 2)):
        acc = rng.choice(["r", "w", "rw", "rw", "rw"])
        sfall = acc != "r" and rng.random() < 0.3
        # a fallible `&self` setter does not compile (generated code mixes fdo::Result and zbus::Result): always `&mut self`
        d["props"].append({"name": fresh("P"), "ty": rng.choice(PROP_TYPES), "acc": acc,
                           "emits": "f" if acc == "w" else rng.choice("ttticf"),
                           "gfall": acc != "w" and rng.random() < 0.3, "sfall": sfall,
                           "smut": acc != "r" and (sfall or rng.random() < 0.6), "gasync": acc != "w" and rng.random() < 0.3,
                           "sasync": acc != "r" and rng.random() < 0.3, "doc": rand_doc(rng)})
    for _ in range(rng.randint(0, 2)):
        d["signals"].append({"name": fresh("S"), "args": [rng.choice(TYPES) for _ in range(rng.choice([0, 1, 1, 2, 2, 3]))],
                             "doc": rand_doc(rng)})
    return d


# ---------------------------------------------------------------- the emitter (trusted)
def rust_str(s):
    out = '"'
    for ch in s:
        if ch == '"':
            out += '\\"'
        elif ch == "\\":
            out += "\\\\"
        elif ch == "\n":
            out += "\\n"
        elif ch == "\t":
            out += "\\t"
        elif ord(ch) < 32:
            out += "\\x%02x" % ord(ch)
        else:
            out += ch
    return out + '"'


def docs(doc, ind):
    return "".join("%s#[doc = %s]\n" % (ind, rust_str(x)) for x in doc)


def ret_type(o):
    if o[0] == "-":
        return None
    if o[0] == "1":
        return RUST[o[1]]
    ts = o[1]
    if len(ts) == 0:
        return "()"
    if len(ts) == 1:
        return "(%s,)" % RUST[ts[0]]
    return "(%s)" % ", ".join(RUST[t] for t in ts)


def out_types(o):
    return [] if o[0] == "-" else [o[1]] if o[0] == "1" else list(o[1])


def ret_expr(o):
    """expression building the standard result from the digest h"""
    d = ["<%s as Tv>::derive(h.wrapping_add(%d))" % (RUST[t], i) for i, t in enumerate(out_types(o))]
    if o[0] == "-":
        return "()"
    if o[0] == "1":
        return d[0]
    if len(d) == 0:
        return "()"
    if len(d) == 1:
        return "(%s,)" % d[0]
    return "(%s)" % ", ".join(d)


def emit_iface(d, k):
    L = []
    w = L.append
    name = d["name"]
    w("pub mod g%d {" % k)
    w("    #![allow(unused_variables, unused_mut, unused_imports, dead_code, clippy::all)]")
    w("    use hiface_rt::{self as rt, Pair, Tv, Val};")
    w("    use futures_util::StreamExt;")
    w("    use std::collections::HashMap;")
    w("    use std::sync::Mutex;")
    w("    use zbus::zvariant::{OwnedObjectPath, OwnedValue};")
    w("")
    w("    pub struct Srv {")
    for p in d["props"]:
        w("        %s: Mutex<%s>," % (snake(p["name"]), RUST[p["ty"]]))
    w("    }")
    w("    impl Srv {")
    w("        pub fn new() -> Self {")
    w("            Srv {")
    for p in d["props"]:
        w("                %s: Mutex::new(<%s as Tv>::derive(rt::digest(%s)))," % (snake(p["name"]), RUST[p["ty"]], rust_str(p["name"])))
    w("            }")
    w("        }")
    w("    }")
    w("")
    w("    #[zbus::interface(name = \"org.zv.%s\")]" % name)
    w("    impl Srv {")
    for m in d["methods"]:
        w(docs(m["doc"], "        ").rstrip("\n")) if m["doc"] else None
        args = "".join(", a%d: %s" % (i, RUST[t]) for i, t in enumerate(m["ins"]))
        rt_ = ret_type(m["out"])
        if m["fall"]:
            rets = " -> zbus::fdo::Result<%s>" % (rt_ or "()")
        else:
            rets = (" -> %s" % rt_) if rt_ else ""
        w("        %sfn %s(&%sself%s)%s {" % ("async " if m["async"] else "", snake(m["name"]), "mut " if m["mut"] else "", args, rets))
        w("            let h = rt::entry(%s, &[%s]);" % (rust_str(m["name"]), ", ".join("a%d.to_val()" % i for i in range(len(m["ins"])))))
        if m["fall"]:
            w("            if let Some(e) = rt::method_failure(h) {")
            w("                return Err(e);")
            w("            }")
            w("            Ok(%s)" % ret_expr(m["out"]))
        elif rt_:
            w("            %s" % ret_expr(m["out"]))
        w("        }")
    for s in d["signals"]:
        w(docs(s["doc"], "        ").rstrip("\n")) if s["doc"] else None
        args = "".join(", a%d: %s" % (i, RUST[t]) for i, t in enumerate(s["args"]))
        w("        #[zbus(signal)]")
        w("        async fn %s(emitter: &zbus::object_server::SignalEmitter<'_>%s) -> zbus::Result<()>;" % (snake(s["name"]), args))
    for p in d["props"]:
        f, ty, nm = snake(p["name"]), RUST[p["ty"]], p["name"]
        if "r" in p["acc"]:
            w(docs(p["doc"], "        ").rstrip("\n")) if p["doc"] else None
            w("        #[zbus(property(emits_changed_signal = \"%s\"))]" % EMITS[p["emits"]]) if p["emits"] != "t" or k % 2 else w("        #[zbus(property)]")
            w("        %sfn %s(&self) -> %s {" % ("async " if p["gasync"] else "", f, ("zbus::fdo::Result<%s>" % ty) if p["gfall"] else ty))
            w("            rt::log(format!(\"get %s\"));" % nm)
            w("            let v = self.%s.lock().unwrap().clone();" % f)
            if p["gfall"]:
                w("            if rt::getter_fails(&v.to_val()) {")
                w("                return Err(zbus::fdo::Error::Failed(\"g%s\".into()));" % nm)
                w("            }")
                w("            Ok(v)")
            else:
                w("            v")
            w("        }")
        if "w" in p["acc"]:
            if "r" not in p["acc"] and p["doc"]:
                w(docs(p["doc"], "        ").rstrip("\n"))
            w("        #[zbus(property)]")
            w("        %sfn set_%s(&%sself, v: %s)%s {" % ("async " if p["sasync"] else "", f, "mut " if p["smut"] else "", ty,
                                                      " -> zbus::fdo::Result<()>" if p["sfall"] else ""))
            w("            rt::log(format!(\"set %s={}\", v.to_val().tok()));" % nm)
            if p["sfall"]:
                w("            if rt::setter_fails(&v.to_val()) {")
                w("                return Err(zbus::fdo::Error::Failed(\"s%s\".into()));" % nm)
                w("            }")
            w("            *self.%s.lock().unwrap() = v;" % f)
            if p["sfall"]:
                w("            Ok(())")
            w("        }")
    w("    }")
    w("")
    # ---- the proxy
    w("    #[zbus::proxy(interface = \"org.zv.%s\", default_path = \"/zv/a\")]" % name)
    w("    pub trait Px {")
    for m in d["methods"]:
        args = "".join(", a%d: %s" % (i, RUST[t]) for i, t in enumerate(m["ins"]))
        w("        fn %s(&self%s) -> zbus::Result<%s>;" % (snake(m["name"]), args, ret_type(m["out"]) or "()"))
    for s in d["signals"]:
        args = "".join(", a%d: %s" % (i, RUST[t]) for i, t in enumerate(s["args"]))
        w("        #[zbus(signal)]")
        w("        fn %s(&self%s) -> zbus::Result<()>;" % (snake(s["name"]), args))
    for p in d["props"]:
        f, ty = snake(p["name"]), RUST[p["ty"]]
        if "r" in p["acc"]:
            w("        #[zbus(property(emits_changed_signal = \"%s\"))]" % EMITS[p["emits"]])
            w("        fn %s(&self) -> zbus::Result<%s>;" % (f, ty))
        if "w" in p["acc"]:
            w("        #[zbus(property)]")
            w("        fn set_%s(&self, v: %s) -> zbus::Result<()>;" % (f, ty))
    w("    }")
    w("")
    # ---- glue
    w("    pub async fn register(os: &zbus::ObjectServer, path: &str) -> zbus::Result<bool> {")
    w("        os.at(path, Srv::new()).await")
    w("    }")
    w("")

    def conv_args(ts, ind):
        return "".join("%slet a%d: %s = Tv::from_val(args.get(%d)?)?;\n" % (ind, i, RUST[t], i) for i, t in enumerate(ts))

    def render_ret(o, var):
        ts = out_types(o)
        if o[0] == "-" or (o[0] == "t" and len(ts) == 0):
            return "String::new()"
        if o[0] == "1":
            return "%s.to_val().tok()" % var
        return "rt::toks(&[%s])" % ", ".join("%s.%d.to_val()" % (var, i) for i in range(len(ts)))

    for mode, aw, conn_ty, px in (("async", ".await", "zbus::Connection", "PxProxy"), ("blocking", "", "zbus::blocking::Connection", "PxProxyBlocking")):
        w("    pub %sfn proxy_%s(conn: &%s, path: &str, op: &rt::POp) -> Option<String> {" % ("async " if mode == "async" else "", mode, conn_ty))
        w("        let px = match %s::builder(conn).destination(rt::SRV_NAME).ok()?.path(path.to_string()).ok()?" % px)
        w("            .cache_properties(zbus::proxy::CacheProperties::No).build()%s {" % aw)
        w("            Ok(p) => p,")
        w("            Err(e) => return Some(rt::zerr_tok(&e)),")
        w("        };")
        w("        match op {")
        w("            rt::POp::Method { name, args } => match name.as_str() {")
        for m in d["methods"]:
            w("                %s => {" % rust_str(m["name"]))
            if len(m["ins"]) == 0:
                w("                    if !args.is_empty() { return None; }")
            else:
                w("                    if args.len() != %d { return None; }" % len(m["ins"]))
            L.append(conv_args(m["ins"], "                    ").rstrip("\n")) if m["ins"] else None
            w("                    Some(match px.%s(%s)%s {" % (snake(m["name"]), ", ".join("a%d" % i for i in range(len(m["ins"]))), aw))
            w("                        Ok(r) => format!(\"O{}\", %s)," % render_ret(m["out"], "r"))
            w("                        Err(e) => rt::zerr_tok(&e),")
            w("                    })")
            w("                }")
        w("                _ => None,")
        w("            },")
        w("            rt::POp::Get { name } => match name.as_str() {")
        for p in d["props"]:
            if "r" in p["acc"]:
                w("                %s => Some(match px.%s()%s {" % (rust_str(p["name"]), snake(p["name"]), aw))
                w("                    Ok(r) => format!(\"O{}\", r.to_val().tok()),")
                w("                    Err(e) => rt::zerr_tok(&e),")
                w("                }),")
        w("                _ => None,")
        w("            },")
        w("            rt::POp::Set { name, val } => match name.as_str() {")
        for p in d["props"]:
            if "w" in p["acc"]:
                w("                %s => {" % rust_str(p["name"]))
                w("                    let v: %s = Tv::from_val(val)?;" % RUST[p["ty"]])
                w("                    Some(match px.set_%s(v)%s {" % (snake(p["name"]), aw))
                w("                        Ok(()) => \"O\".to_string(),")
                w("                        Err(e) => rt::zerr_tok(&e),")
                w("                    })")
                w("                }")
        w("                _ => None,")
        w("            },")
        w("        }")
        w("    }")
        w("")
    w("    pub async fn emit(server: &zbus::Connection, path: &str, name: &str, args: &[Val]) -> Option<zbus::Result<()>> {")
    w("        let em = zbus::object_server::SignalEmitter::new(server, path.to_string()).ok()?;")
    w("        match name {")
    for s in d["signals"]:
        w("            %s => {" % rust_str(s["name"]))
        w("                if args.len() != %d { return None; }" % len(s["args"]))
        L.append(conv_args(s["args"], "                ").rstrip("\n")) if s["args"] else None
        w("                Some(Srv::%s(&em%s).await)" % (snake(s["name"]), "".join(", a%d" % i for i in range(len(s["args"])))))
        w("            }")
    w("            _ => None,")
    w("        }")
    w("    }")
    w("")

    def sig_render(s):
        if not s["args"]:
            return "String::new()"
        return "match x.args() { Ok(a) => rt::toks(&[%s]), Err(e) => return Some(rt::zerr_tok(&e)) }" % \
               ", ".join("a.a%d.to_val()" % i for i in range(len(s["args"])))

    w("    pub async fn signal_async(client: &zbus::Connection, server: &zbus::Connection, path: &str, name: &str, args: &[Val]) -> Option<String> {")
    w("        let px = match PxProxy::builder(client).destination(rt::SRV_NAME).ok()?.path(path.to_string()).ok()?")
    w("            .cache_properties(zbus::proxy::CacheProperties::No).build().await {")
    w("            Ok(p) => p,")
    w("            Err(e) => return Some(rt::zerr_tok(&e)),")
    w("        };")
    w("        match name {")
    for s in d["signals"]:
        w("            %s => {" % rust_str(s["name"]))
        w("                let mut st = match px.receive_%s().await { Ok(s) => s, Err(e) => return Some(rt::zerr_tok(&e)) };" % snake(s["name"]))
        w("                if let Err(e) = emit(server, path, name, args).await? { return Some(format!(\"EMIT{}\", rt::zerr_tok(&e))); }")
        w("                let t = async_io::Timer::after(std::time::Duration::from_secs(3));")
        w("                let n = st.next();")
        w("                futures_util::pin_mut!(n);")
        w("                match futures_util::future::select(n, t).await {")
        w("                    futures_util::future::Either::Left((Some(x), _)) => Some(format!(\"O{}\", %s))," % sig_render(s))
        w("                    _ => Some(\"T\".to_string()),")
        w("                }")
        w("            }")
    w("            _ => None,")
    w("        }")
    w("    }")
    w("")
    w("    pub fn signal_blocking(client: &zbus::blocking::Connection, server: &zbus::Connection, path: &str, name: &str, args: &[Val]) -> Option<String> {")
    w("        let px = match PxProxyBlocking::builder(client).destination(rt::SRV_NAME).ok()?.path(path.to_string()).ok()?")
    w("            .cache_properties(zbus::proxy::CacheProperties::No).build() {")
    w("            Ok(p) => p,")
    w("            Err(e) => return Some(rt::zerr_tok(&e)),")
    w("        };")
    w("        match name {")
    for s in d["signals"]:
        w("            %s => {" % rust_str(s["name"]))
        w("                let mut st = match px.receive_%s() { Ok(s) => s, Err(e) => return Some(rt::zerr_tok(&e)) };" % snake(s["name"]))
        w("                if let Err(e) = zbus::block_on(emit(server, path, name, args))? { return Some(format!(\"EMIT{}\", rt::zerr_tok(&e))); }")
        w("                Some(rt::with_watchdog(move || match st.next() {")
        w("                    Some(x) => format!(\"O{}\", %s)," % sig_render(s).replace("return Some(rt::zerr_tok(&e))", "return rt::zerr_tok(&e)"))
        w("                    None => \"T\".to_string(),")
        w("                }))")
        w("            }")
    w("            _ => None,")
    w("        }")
    w("    }")
    w("}")
    return "\n".join(x for x in L if x is not None)


NPARTS = 4


def part_of(k, n, nparts=NPARTS):
    """interface k of n goes to part k % nparts (round robin keeps the parts balanced)"""
    return k % nparts


def emit_part(descs, part, nparts=NPARTS):
    L = ["// GENERATED by props/ifacegen.py from interface descriptions — do not edit.", "#![allow(clippy::all)]", ""]
    for k, d in enumerate(descs):
        if part_of(k, len(descs), nparts) == part:
            L.append(emit_iface(d, k))
            L.append("")
    return "\n".join(L) + "\n"


def emit_tables(descs, crate_prefix, nparts=NPARTS):
    toks = [desc_token(d) for d in descs]
    L = ["// GENERATED by props/ifacegen.py from interface descriptions — do not edit.",
         "// The description tokens below are the ones the Coq driver (C26/Run.v) parses.",
         "#![allow(clippy::all)]",
         "use hiface_rt as rt;",
         "pub const DESCS: &[&str] = &["]
    for t in toks:
        L.append("    %s," % rust_str(t))
    L.append("];")
    L.append("")
    n = len(descs)

    def table(sig, call, aw):
        L.append(sig + " {")
        L.append("    match idx {")
        for k in range(n):
            L.append("        %d => %s_p%d::g%d::%s%s," % (k, crate_prefix, part_of(k, n, nparts), k, call, aw))
        L.append("        _ => panic!(\"no such interface\"),")
        L.append("    }")
        L.append("}")
    table("pub async fn register(idx: usize, os: &zbus::ObjectServer, path: &str) -> zbus::Result<bool>", "register(os, path)", ".await")
    table("pub async fn proxy_async(idx: usize, conn: &zbus::Connection, path: &str, op: &rt::POp) -> Option<String>", "proxy_async(conn, path, op)", ".await")
    table("pub fn proxy_blocking(idx: usize, conn: &zbus::blocking::Connection, path: &str, op: &rt::POp) -> Option<String>", "proxy_blocking(conn, path, op)", "")
    table("pub async fn signal_async(idx: usize, client: &zbus::Connection, server: &zbus::Connection, path: &str, name: &str, args: &[rt::Val]) -> Option<String>",
          "signal_async(client, server, path, name, args)", ".await")
    table("pub fn signal_blocking(idx: usize, client: &zbus::blocking::Connection, server: &zbus::Connection, path: &str, name: &str, args: &[rt::Val]) -> Option<String>",
          "signal_blocking(client, server, path, name, args)", "")
    return "\n".join(L) + "\n"


HARNESS_SRC = os.path.join(core.HARNESS, "hiface")


def write_if_changed(path, text):
    os.makedirs(os.path.dirname(path), exist_ok=True)
    if os.path.exists(path) and open(path).read() == text:
        return False
    tmp = path + ".tmp%d" % os.getpid()
    open(tmp, "w").write(text)
    os.replace(tmp, path)
    return True


def write_tree(outdir, descs, bin_name="hiface", nparts=NPARTS, repo=None, hcommon=None):
    """The whole harness crate for a batch of descriptions: <outdir>/{Cargo.toml, src/main.rs, src/gen_ifaces.rs, rt/, parts/p<i>/}.
    main.rs and rt/ are the hand-written files of harness/hiface; everything else is generated."""
    repo = repo or core.REPO
    in_tree = os.path.abspath(outdir) == os.path.abspath(HARNESS_SRC)
    hcommon = hcommon or ("../hcommon" if in_tree else os.path.join(core.HARNESS, "hcommon"))
    hcommon_rt = ("../" + hcommon) if in_tree else hcommon
    zb = 'zbus = { path = "%s/zbus", features = ["p2p", "bus-impl"] }' % repo
    fu = 'futures-util = { version = "0.3", default-features = false, features = ["async-await", "async-await-macro"] }'
    parts_deps = "".join('%s_p%d = { path = "parts/p%d" }\n' % (bin_name, i, i) for i in range(nparts))
    write_if_changed(os.path.join(outdir, "Cargo.toml"),
                     '[package]\nname = "%s"\nversion = "0.0.0"\nedition = "2021"\n\n[dependencies]\nhcommon = { path = "%s" }\n'
                     'hiface_rt = { path = "rt" }\n%s%s\nzbus_xml = { path = "%s/zbus_xml" }\nzvariant = { path = "%s/zvariant" }\n'
                     'async-io = "2"\n%s\n\n[workspace]\n' % (bin_name, hcommon, parts_deps, zb, repo, repo, fu))
    write_if_changed(os.path.join(outdir, "rt", "Cargo.toml"),
                     '[package]\nname = "hiface_rt"\nversion = "0.0.0"\nedition = "2021"\n\n[dependencies]\nhcommon = { path = "%s" }\n'
                     '%s\nzvariant = { path = "%s/zvariant" }\nserde = { version = "1", features = ["derive"] }\n' % (hcommon_rt, zb, repo))
    for i in range(nparts):
        write_if_changed(os.path.join(outdir, "parts", "p%d" % i, "Cargo.toml"),
                         '[package]\nname = "%s_p%d"\nversion = "0.0.0"\nedition = "2021"\n\n[dependencies]\nhiface_rt = { path = "../../rt" }\n'
                         '%s\nasync-io = "2"\n%s\n' % (bin_name, i, zb, fu))
        write_if_changed(os.path.join(outdir, "parts", "p%d" % i, "src", "lib.rs"), emit_part(descs, i, nparts))
    write_if_changed(os.path.join(outdir, "src", "gen_ifaces.rs"), emit_tables(descs, bin_name, nparts))
    if os.path.abspath(outdir) != os.path.abspath(HARNESS_SRC):
        write_if_changed(os.path.join(outdir, "src", "main.rs"), open(os.path.join(HARNESS_SRC, "src", "main.rs")).read())
        write_if_changed(os.path.join(outdir, "rt", "src", "lib.rs"), open(os.path.join(HARNESS_SRC, "rt", "src", "lib.rs")).read())
        cfg = os.path.join(core.HARNESS, ".cargo", "config.toml")
        write_if_changed(os.path.join(outdir, ".cargo", "config.toml"), open(cfg).read())


if __name__ == "__main__":
    if sys.argv[1] == "emit":
        rng = random.Random(int(sys.argv[2]))
        ds = [OTHER] + [rand_desc(rng, "G%d" % i) for i in range(int(sys.argv[3]))]
        write_tree(sys.argv[4], ds)
        for d in ds:
            print(desc_token(d))
