"""C02 — encoding then decoding returns the original value (D-Bus format; GVariant: see LEVEL_NOTE)."""
import codec_gen as G

ID = "C02"
CRATE = "hz"
RUN_MODULE = "DBus.Run"
RULE = ("random well-typed dynamic values as in C01, encoded by the real serializer, the produced bytes (and fds) decoded by the real "
        "deserializer as a Value (variant) or as a message body (Structure for the signature); observation = encoded length, consumed "
        "length, value equality. non-trivial = contains a container")
TRUSTED = ["models DBus/Ser.v and DBus/De.v (serializer, deserializer, ValueSeed/SignatureSeed visitors, Array::append, Dict::append)"]
ASSUMPTIONS = ["Value::Dict is a BTreeMap: equality is on the canonical (sorted, de-duplicated) form",
               "GVariant format: not covered by this check (D-Bus format only)"]


def gen(rng, tier):
    n = 6000 if tier == "quick" else 150000
    for _ in range(n):
        big = rng.random() < 0.5
        pos = G.rand_pos(rng)
        if rng.random() < 0.6:
            s = G.rand_sig(rng, rng.choice([1, 2, 3, 3, 4]))
            yield G.case_ser("--", big, pos, "dyn", G.rand_val(rng, s, 4), cmd="rt")
        else:
            s = ('r', [G.rand_sig(rng, rng.choice([0, 1, 2, 3])) for _ in range(rng.randint(1, 4))])
            yield G.case_ser("--", big, pos, "body", G.rand_val(rng, s, 4), cmd="rt")
    for w in G.wide_values():
        yield G.case_ser("--", rng.random() < 0.5, rng.choice([0, 3]), "dyn", w, cmd="rt")
        if w[0] == 'r':
            yield G.case_ser("--", rng.random() < 0.5, rng.choice([0, 5]), "body", w, cmd="rt")
    import itertools
    for k in range(1, 4 if tier == "quick" else 5):
        for w in itertools.product("a(v{", repeat=k):
            for pos in (0, 3):
                yield G.case_ser("--", False, pos, "dyn", G.tower("".join(w)), cmd="rt")
                # empty arrays of the tower type at odd offsets
                t = G.tower("".join(w))
                yield G.case_ser("--", True, pos, "dyn", ('a', G.vsig(t), []), cmd="rt")


def nontrivial(case, impl_out):
    return any(t in case.split(" ") for t in ("a", "e", "r", "v"))


def classify(case, impl_out):
    return impl_out.split(":")[0]


def search(rng, bad):
    for c in gen(rng, "quick"):
        yield c


ENABLED = True
LEVEL = "proof"
LEVEL_TEXT = ("Theorem over the models of zvariant's D-Bus serializer and deserializer: decoding `marshal e pos v ++ rest` at any offset "
              "returns v and consumes exactly the encoded length, for every well-formed value within the limits; with C01 this is the round "
              "trip of the code's own encoder. Tied to /repo by running encode-then-decode on the real code for generated values.")
LEVEL_NOTE = ("This check covers the D-Bus format; the GVariant half of the property (model of zvariant/src/gvariant, theorems "
              "C02_gv_roundtrip / C02_gv_decode_spec, correspondence runs under the gvariant feature) lives in the C05 check and "
              "coq/theories/Properties/C05.v. Typed targets other than the dynamic Value are exercised on the encoder side (C01) "
              "but decoded as dynamic values.")
