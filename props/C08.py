"""C08 — dynamic values obey equality, ordering, hashing and conversion laws."""
import random

ID = "C08"
CRATE = "hvalue"
RUN_MODULE = "C08.Run"
TWO_PHASE = True   # the model receives  case <TAB> observation: is it what the model predicts, do the laws hold on it
RULE = ("law cases: triples of random nested values (depth <= 3; arrays, dicts, structures, variants, fds) whose scalars come from "
        "boundary classes (0, 1, min, max, +-0, +-inf, quiet/signalling/negative NaNs with payloads, subnormals, empty and multi-byte strings, "
        "signature strings of all kinds incl. the ones Signature::cmp could not tell apart before fix 668536e1), arranged as equal copies / one-leaf mutants / same-shape values / "
        "container-signature-only differences (empty ay vs ab, empty dicts) / variant changes / independent values; plus ill-typed "
        "constructions (append mismatch, empty structure). conv cases: a value of each of 57 Rust types (scalars, String, Signature, "
        "ObjectPath, Value, Vec, HashMap, tuples, nested) converted to Value and back. non-trivial = the case has a container, a variant or a NaN")
TRUSTED = ["std library behaviour the derives expand to (slice/BTreeMap ==, partial_cmp, Hash; f64 ==/partial_cmp/total_cmp; "
           "DefaultHasher as a function of the written byte stream) is modelled in C08/Model.v and checked only differentially",
           "BTreeMap<Value,Value> modelled as the sorted entry list with left-to-right node search (exact for <= 11 entries or any consistent order)"]
ASSUMPTIONS = ["default cargo features (no gvariant => no Value::Maybe; no option-as-array), unix (Value::Fd present)",
               "dup(2) returns a descriptor number different from every descriptor that is still open",
               "BTreeMap::from_iter over an already ascending key sequence rebuilds the same sequence (Dict::try_clone / try_to_owned)",
               "hash equality is compared as: equal byte streams fed to SipHash <=> equal u64 (collisions neglected)"]

# ----------------------------------------------------------------------------------------------- value trees
# A value is a tuple: ('y', int) ('b', 0|1) ('n'|'q'|'i'|'u'|'x'|'t', int) ('d', bits) ('s', bytes) ('g', sigstr) ('o', bytes)
# ('v', value) ('a', elemsig, [values]) ('e', ksig, vsig, [(k, v)]) ('r', [values]) ('h', idx)

INT_RANGE = {'y': (0, 255), 'n': (-32768, 32767), 'q': (0, 65535), 'i': (-2**31, 2**31 - 1), 'u': (0, 2**32 - 1),
             'x': (-2**63, 2**63 - 1), 't': (0, 2**64 - 1)}
F64_BITS = [0x0000000000000000, 0x8000000000000000, 0x3ff0000000000000, 0xbff0000000000000, 0x4000000000000000,
            0x7ff0000000000000, 0xfff0000000000000, 0x7ff8000000000000, 0x7ff8000000000001, 0xfff8000000000000,
            0x7ff0000000000001, 0xfff0000000000001, 0x7fffffffffffffff, 0x0000000000000001, 0x8000000000000001,
            0x7fefffffffffffff, 0xffefffffffffffff, 0x3ff0000000000001, 0x4008000000000000]
STRS = [b"", b"a", b"b", b"ab", b"aa", b"a b", "é".encode(), "日本".encode(), b"A", b"abc", "aÿ".encode(), b"~"]
SIGSTRS = ["", "y", "b", "s", "v", "g", "ay", "ab", "as", "aay", "(y)", "(yy)", "(yb)", "(yyy)", "(y(yy))", "((y)y)", "a{sv}", "a{sy}",
           "a{yv}", "a(y)", "a(yy)", "(ay)", "h", "d"]
PATHS = [b"/", b"/a", b"/a/b", b"/ab", b"/a_1", b"/b"]
BASIC = "ybnqiuxtdsgoh"
KEYS = "ybnqiuxtsgod"


def gen_sig(rng, depth):
    r = rng.random()
    if depth <= 0 or r < 0.45:
        return rng.choice(BASIC)
    if r < 0.55:
        return "v"
    if r < 0.75:
        return "a" + gen_sig(rng, depth - 1)
    if r < 0.87:
        return "a{" + rng.choice(KEYS) + gen_sig(rng, depth - 1) + "}"
    return "(" + "".join(gen_sig(rng, depth - 1) for _ in range(rng.randint(1, 3))) + ")"


def split_sig(s):
    """split a signature string into complete types"""
    out, i = [], 0
    while i < len(s):
        j = end_of_type(s, i)
        out.append(s[i:j])
        i = j
    return out


def end_of_type(s, i):
    c = s[i]
    if c == 'a':
        if s[i + 1] == '{':
            depth, j = 0, i + 1
            while True:
                if s[j] == '{':
                    depth += 1
                elif s[j] == '}':
                    depth -= 1
                    if depth == 0:
                        return j + 1
                j += 1
        return end_of_type(s, i + 1)
    if c == '(':
        depth, j = 0, i
        while True:
            if s[j] == '(':
                depth += 1
            elif s[j] == ')':
                depth -= 1
                if depth == 0:
                    return j + 1
            j += 1
    return i + 1


def gen_int(rng, c):
    lo, hi = INT_RANGE[c]
    r = rng.random()
    if r < 0.5:
        return rng.choice([v for v in (0, 1, 2, lo, hi, lo + 1, hi - 1, -1, 7) if lo <= v <= hi])
    if r < 0.8:
        return rng.randint(max(lo, -3), min(hi, 9))
    return rng.randint(lo, hi)


def gen_val(rng, sig, depth):
    c = sig[0]
    if c in INT_RANGE:
        return (c, gen_int(rng, c))
    if c == 'b':
        return ('b', rng.randint(0, 1))
    if c == 'd':
        return ('d', rng.choice(F64_BITS) if rng.random() < 0.85 else rng.getrandbits(64))
    if c == 's':
        return ('s', rng.choice(STRS))
    if c == 'g':
        return ('g', rng.choice(SIGSTRS))
    if c == 'o':
        return ('o', rng.choice(PATHS))
    if c == 'h':
        return ('h', rng.randint(0, 7) if rng.random() < 0.7 else rng.randint(0, 1))
    if c == 'v':
        return ('v', gen_val(rng, gen_sig(rng, depth - 1), depth - 1))
    if c == 'a' and sig[1] == '{':
        inner = split_sig(sig[2:-1])
        n = rng.choice([0, 0, 1, 2, 3, 5])
        return ('e', inner[0], inner[1], [(gen_val(rng, inner[0], depth - 1), gen_val(rng, inner[1], depth - 1)) for _ in range(n)])
    if c == 'a':
        n = rng.choice([0, 0, 1, 1, 2, 3])
        return ('a', sig[1:], [gen_val(rng, sig[1:], depth - 1) for _ in range(n)])
    if c == '(':
        return ('r', [gen_val(rng, t, depth - 1) for t in split_sig(sig[1:-1])])
    raise ValueError(sig)


def render(v):
    k = v[0]
    if k in INT_RANGE or k == 'b' or k == 'h':
        return "%s%d" % (k, v[1])
    if k == 'd':
        return "d%016x" % v[1]
    if k in 'so':
        return k + v[1].hex() + ";"
    if k == 'g':
        return "g" + v[1] + ";"
    if k == 'v':
        return "v" + render(v[1])
    if k == 'a':
        return "a%s[%s]" % (v[1], ",".join(render(x) for x in v[2]))
    if k == 'e':
        return "e%s|%s[%s]" % (v[1], v[2], ",".join(render(a) + "=" + render(b) for a, b in v[3]))
    if k == 'r':
        return "r(%s)" % ",".join(render(x) for x in v[1])
    raise ValueError(v)


def sig_of(v):
    k = v[0]
    if k == 'a':
        return "a" + v[1]
    if k == 'e':
        return "a{%s%s}" % (v[1], v[2])
    if k == 'r':
        return "(" + "".join(sig_of(x) for x in v[1]) + ")"
    return k


def children(v):
    k = v[0]
    if k == 'v':
        return [v[1]]
    if k == 'a':
        return list(v[2])
    if k == 'e':
        return [x for kv in v[3] for x in kv]
    if k == 'r':
        return list(v[1])
    return []


def rebuild(v, kids):
    k = v[0]
    if k == 'v':
        return ('v', kids[0])
    if k == 'a':
        return ('a', v[1], kids)
    if k == 'e':
        return ('e', v[1], v[2], [(kids[2 * i], kids[2 * i + 1]) for i in range(len(kids) // 2)])
    if k == 'r':
        return ('r', kids)
    return v


def mutate(rng, v, depth=3):
    """a value close to v: same shape with one thing changed (type-preserving mostly)"""
    kids = children(v)
    k = v[0]
    if kids and rng.random() < 0.7:
        i = rng.randrange(len(kids))
        kids = list(kids)
        kids[i] = mutate(rng, kids[i], depth - 1)
        return rebuild(v, kids)
    r = rng.random()
    if k == 'd':
        b = v[1]
        if r < 0.3:
            return ('d', b ^ (1 << 63))                      # flip the sign (+0 <-> -0, NaN <-> -NaN)
        if r < 0.5:
            return ('d', b ^ 1)                              # next payload / neighbour
        return ('d', rng.choice(F64_BITS))
    if k in INT_RANGE:
        lo, hi = INT_RANGE[k]
        if r < 0.15:                                          # same number, other variant
            k2 = rng.choice([c for c in INT_RANGE if INT_RANGE[c][0] <= v[1] <= INT_RANGE[c][1]])
            return (k2, v[1])
        return (k, min(hi, max(lo, v[1] + rng.choice([-1, 1, 2, -2]))))
    if k == 'b':
        return ('b', 1 - v[1])
    if k == 's':
        return ('s', rng.choice(STRS)) if r < 0.8 else ('o', b"/a")
    if k == 'g':
        return ('g', rng.choice(SIGSTRS))
    if k == 'o':
        return ('o', rng.choice(PATHS))
    if k == 'h':
        return ('h', rng.randint(0, 7))
    if k == 'a':
        if r < 0.45:                                          # only the element signature differs
            if not v[2]:
                return ('a', rng.choice(["y", "b", "s", "ay", "(y)", "(yy)", "v", "d", "a{sv}"]), [])
        if r < 0.7 and v[2]:
            return ('a', v[1], v[2][:-1])
        return ('a', v[1], v[2] + [gen_val(rng, v[1], max(0, depth - 1))])
    if k == 'e':
        if r < 0.45 and not v[3]:
            return ('e', rng.choice(KEYS), rng.choice(["y", "s", "v", "ay", "(y)", "(yy)"]), [])
        if r < 0.7 and v[3]:
            return ('e', v[1], v[2], v[3][:-1])
        return ('e', v[1], v[2], v[3] + [(gen_val(rng, v[1], max(0, depth - 1)), gen_val(rng, v[2], max(0, depth - 1)))])
    if k == 'v':
        return ('v', gen_val(rng, gen_sig(rng, 1), 1))
    if k == 'r':
        return ('r', v[1] + [gen_val(rng, gen_sig(rng, 0), 0)]) if r < 0.5 or len(v[1]) < 2 else ('r', v[1][:-1])
    return v


def law_line(a, b, c):
    return "law %s %s %s" % (render(a), render(b), render(c))


def gen_triple(rng):
    depth = rng.choice([0, 1, 1, 2, 2, 3])
    sig = gen_sig(rng, depth)
    a = gen_val(rng, sig, depth)
    kind = rng.random()
    if kind < 0.12:
        b, c = a, mutate(rng, a)
    elif kind < 0.45:
        b = mutate(rng, a)
        c = mutate(rng, b) if rng.random() < 0.5 else mutate(rng, a)
    elif kind < 0.75:
        b, c = gen_val(rng, sig, depth), gen_val(rng, sig, depth)       # same shape, fresh leaves
    elif kind < 0.85:
        b, c = gen_val(rng, sig, depth), mutate(rng, a)
    else:
        b = gen_val(rng, gen_sig(rng, depth), depth)
        c = gen_val(rng, gen_sig(rng, depth), depth)
    t = [a, b, c]
    rng.shuffle(t)
    return law_line(*t)


def gen_sigorder(rng):
    """containers whose stored signatures ARE ordered by Signature::cmp (structures of different arity) and whose members
    are ordered the other way round / equal: fixes the order in which the derives look at members and signature"""
    basics = "ybnqiuxtds"
    n1, n2 = rng.sample([1, 2, 3], 2)
    t1 = "(" + "".join(rng.choice(basics) for _ in range(n1)) + ")"
    common = min(n1, n2)
    t2 = "(" + t1[1:1 + common] + "".join(rng.choice(basics) for _ in range(n2 - common)) + ")" if rng.random() < 0.7 else \
         "(" + "".join(rng.choice(basics) for _ in range(n2)) + ")"
    kind = rng.random()
    def arr(t):
        return ('a', t, [gen_val(rng, t, 1) for _ in range(rng.choice([0, 1, 1, 2]))])
    def dic(t):
        k = rng.choice("ysu")
        return ('e', k, t, [(gen_val(rng, k, 0), gen_val(rng, t, 1)) for _ in range(rng.choice([0, 1, 2]))])
    def dick(t):
        return ('e', 'y', 'a' + t, [(gen_val(rng, 'y', 0), arr(t)) for _ in range(rng.choice([0, 1, 2]))])
    mk = arr if kind < 0.5 else dic if kind < 0.8 else dick
    a, b = mk(t1), mk(t2)
    c = mk(rng.choice([t1, t2])) if rng.random() < 0.6 else mutate(rng, a)
    if rng.random() < 0.3:
        a, b, c = ('v', a), ('v', b), ('v', c)
    elif rng.random() < 0.3:
        a, b, c = ('r', [a, ('y', 1)]), ('r', [b, ('y', 0)]), ('r', [c, ('y', 1)])
    t = [a, b, c]
    rng.shuffle(t)
    return law_line(*t)


def hand_picked():
    nan, nan2, nnan = ('d', 0x7ff8000000000000), ('d', 0x7ff8000000000001), ('d', 0xfff8000000000000)
    one, two = ('d', 0x3ff0000000000000), ('d', 0x4000000000000000)
    pz, nz = ('d', 0), ('d', 1 << 63)
    out = [
        law_line(nan, nan, nan), law_line(nan, nan2, nnan), law_line(pz, nz, one), law_line(one, nan, two),
        law_line(('a', 'd', [one]), ('a', 'd', [nan]), ('a', 'd', [two])),
        law_line(('r', [nan, ('y', 1)]), ('r', [nan, ('y', 2)]), ('r', [one, ('y', 1)])),
        law_line(('g', 'y'), ('g', 'b'), ('g', 's')), law_line(('g', '(y)'), ('g', 'y'), ('g', '(yy)')),
        law_line(('g', ''), ('g', 'y'), ('g', '(y)')), law_line(('g', '(yy)'), ('g', '(yy)'), ('g', '(yb)')),
        law_line(('a', 'y', []), ('a', 'b', []), ('a', 'y', [])), law_line(('a', '(y)', []), ('a', 'y', []), ('a', '(yy)', [])),
        law_line(('e', 's', 'v', []), ('e', 's', 'y', []), ('e', 'y', 'v', [])),
        law_line(('a', 'ay', [('a', 'y', [])]), ('a', 'ab', [('a', 'b', [])]), ('a', 'ay', [])),
        law_line(('e', 'g', 'y', [(('g', 'y'), ('y', 1)), (('g', 'b'), ('y', 2))]), ('e', 'g', 'y', [(('g', 'y'), ('y', 2))]),
                 ('e', 'g', 'y', [(('g', '(y)'), ('y', 1)), (('g', 'y'), ('y', 2)), (('g', '(yy)'), ('y', 3))])),
        law_line(('e', 'd', 'y', [(pz, ('y', 1)), (nz, ('y', 2))]), ('e', 'd', 'y', [(nan, ('y', 1)), (nan, ('y', 2)), (nan2, ('y', 3))]),
                 ('e', 'd', 'y', [(one, ('y', 1)), (nnan, ('y', 0)), (nan, ('y', 2))])),
        law_line(('h', 0), ('h', 1), ('v', ('h', 0))), law_line(('r', [('h', 2), ('y', 1)]), ('r', [('h', 2), ('y', 1)]), ('h', 2)),
        law_line(('y', 7), ('q', 7), ('t', 7)), law_line(('s', b"a"), ('o', b"/a"), ('g', 's')),
        law_line(('v', ('v', ('y', 1))), ('v', ('y', 1)), ('y', 1)),
        law_line(('e', 's', 'v', [(('s', b"b"), ('v', ('y', 1))), (('s', b"a"), ('v', ('s', b"")))]),
                 ('e', 's', 'v', [(('s', b"a"), ('v', ('s', b""))), (('s', b"b"), ('v', ('y', 1)))]),
                 ('e', 's', 'v', [(('s', b"a"), ('v', ('s', b"")))])),
        law_line(('a', 'y', [('b', 1)]), ('y', 1), ('y', 1)), law_line(('r', []), ('y', 1), ('y', 1)),
        law_line(('e', 's', 'y', [(('y', 1), ('y', 1))]), ('y', 1), ('y', 1)),
        law_line(('e', 's', 'y', [(('s', b"a"), ('q', 1))]), ('y', 1), ('y', 1)),
        law_line(('a', 'v', [('v', ('y', 1)), ('v', ('s', b"x"))]), ('a', 'v', [('v', ('y', 1))]), ('a', 'v', [])),
        law_line(('a', '(y)', [('r', [('y', 5)])]), ('a', '(yy)', [('r', [('y', 1), ('y', 1)])]), ('a', '(y)', [('r', [('y', 1)])])),
        law_line(('e', 'y', '(yy)', [(('y', 1), ('r', [('y', 1), ('y', 1)]))]), ('e', 'y', '(y)', [(('y', 2), ('r', [('y', 1)]))]),
                 ('e', 'y', '(y)', [(('y', 1), ('r', [('y', 9)]))])),
        law_line(('a', '(yd)', [('r', [('y', 1), nan])]), ('a', '(yd)', [('r', [('y', 1), nan])]), ('a', '(yd)', [('r', [('y', 1), one])])),
    ]
    return out


# ----------------------------------------------------------------------------------------------- conversions
CONV_TYPES = ["y", "b", "n", "q", "i", "u", "x", "t", "d", "s", "g", "o", "v", "ay", "ab", "an", "aq", "ai", "au", "ax", "at", "ad", "as",
              "ag", "ao", "av", "aay", "aas", "aav", "a(ys)", "aa{sy}", "a{sy}", "a{ys}", "a{sv}", "a{us}", "a{xd}", "a{oay}", "a{sas}",
              "a{s(yd)}", "a{bv}", "a{na{sv}}", "a{qg}", "a{ty}", "a{is}", "(y)", "(ys)", "(idb)", "(say)", "(v)", "(vv)", "((yq)x)",
              "(sa{sv})", "(tu(sd)g)", "(oav)", "a(v)", "a{s(v)}", "((v))"]


def key_order(v):
    return v[1]


def gen_sv(rng, ty):
    """text of a std value of type ty"""
    c = ty[0]
    if c == 'v':
        d = rng.choice([0, 1, 1, 2])
        while True:     # no descriptors here: the harness' encode/decode check would see dup'ed numbers
            t = render(gen_val(rng, gen_sig(rng, d), d))
            if "h" not in t:
                return "V" + t
    if c == 'a' and ty[1] == '{':
        kt, vt = split_sig(ty[2:-1])
        n = rng.choice([0, 1, 2, 3, 4])
        keys = {}
        for _ in range(n):
            k = gen_val(rng, kt, 0)
            keys[k[1]] = k
        ks = [keys[x] for x in sorted(keys)]
        return "<" + ",".join(render(k) + "=" + gen_sv(rng, vt) for k in ks) + ">"
    if c == 'a':
        n = rng.choice([0, 1, 2, 3])
        return "[" + ",".join(gen_sv(rng, ty[1:]) for _ in range(n)) + "]"
    if c == '(':
        return "(" + ",".join(gen_sv(rng, t) for t in split_sig(ty[1:-1])) + ")"
    return render(gen_val(rng, ty, 0))


def gen(rng, tier):
    for ln in hand_picked():
        yield ln
    n_law = 17000 if tier == "quick" else 600000
    n_conv = 60 if tier == "quick" else 1500
    for i in range(n_law):
        yield gen_triple(rng) if i % 12 else gen_sigorder(rng)
    for ty in CONV_TYPES:
        for _ in range(n_conv):
            yield "conv %s %s" % (ty, gen_sv(rng, ty))


def nontrivial(case, impl_out):
    return any(ch in case for ch in "[(<") or " v" in case or "d7ff" in case or "dfff" in case


def classify(case, impl_out):
    w = case.split(" ")
    if w[0] == "conv":
        return "conv:%s:%s" % (w[1], impl_out.split(" ")[-1][:2] if " " in impl_out else impl_out[:5])
    if not impl_out.startswith("eq="):
        return "law:" + impl_out[:9]
    f = dict(x.split("=", 1) for x in impl_out.split(" ") if "=" in x)
    eq, cm = f.get("eq", ""), f.get("cm", "")
    tags = []
    if len(eq) == 9:
        if eq[0] + eq[4] + eq[8] != "TTT":
            tags.append("irreflexive")
        off = eq[1] + eq[2] + eq[5]
        tags.append("eq%d" % off.count("T"))
        if any(cm[i] == "E" and eq[i] == "F" for i in range(9)):
            tags.append("cmpE-ne")
    if "N" in f.get("pc", ""):
        tags.append("pcNone")
    return "law:" + "+".join(tags)


def search(rng, bad_cases):
    r2 = random.Random(rng.getrandbits(64))
    for i in range(40000):
        yield gen_triple(r2) if i % 6 else gen_sigorder(r2)
    for ty in CONV_TYPES:
        for _ in range(100):
            yield "conv %s %s" % (ty, gen_sv(r2, ty))


ENABLED = True
LEVEL = "proof"
LEVEL_TEXT = ("Theorems in coq/theories/Properties/C08.v over an executable Gallina mirror of Value/Array/Dict/Structure/Signature "
              "(derived PartialEq/PartialOrd, hand-written Ord and Hash, value_signature, try_clone, try_to_owned, the std-type conversions; "
              "Signature::cmp as repaired by fix commit 668536e1): for ALL values == is symmetric and transitive, cmp is antisymmetric, equal "
              "values hash equally (token streams fed to the Hasher are identical, +0/-0 included), clones/owned copies are identical up to "
              "dup'ed descriptors and keep the signature, well-formed values are typed by their reported signature; Signature's Ord is a "
              "total order consistent with its == on all signatures. The remaining laws (reflexivity, cmp consistent with ==, transitivity "
              "of cmp, PartialOrd = Ord, conversion round trip) are REFUTED on this tree by machine-checked witnesses and proved on the "
              "complement of explicit decidable classes: for all NaN-free values (ordering, reflexivity), for values without descriptors "
              "(owned copies ==), for std values without a tuple that has a Value member (round trip). Model and code are tied by a "
              "differential check of all observations on generated triples.")
LEVEL_NOTE = ("partial: full-strength statement refuted (known findings nan, fd_dup, tuple_variant; sigcmp fixed in 668536e1); the laws hold "
              "outside these classes. Trusted: Coq kernel; the hand-written model incl. the std derives and BTreeMap-as-sorted-list; harness "
              "hvalue; Maybe (gvariant) and Optional/Option conversions are not modelled.")
