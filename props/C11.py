"""C11 — built messages parse back to the same header and body (also the message encoder library used by C12/C13)."""
import struct

ID = "C11"
CRATE = "hmsg"
RUN_MODULE = "C11.Run"
RULE = ("headers built through the public constructors (method_call / signal / method_return / error, Builder setters, "
        "Builder::from(Header)): 4 types x 8 flag sets (incl. the ones with_flags refuses) x both endians x random subsets of the "
        "optional fields with random valid names/paths of varying length (every padding residue) x body shapes "
        "unit, s, u, (su), as, h, (sh), several descriptors ((hh), ah, (hv) over 3 files incl. the same fd twice) and raw bodies over a list of signatures with 0..3 fds; a few invalid names and over-long "
        "signatures. non-trivial = a message was built (not BERR).")
TRUSTED = ["zvariant's encoding of the body value itself is taken from hand-written encoders of the listed shapes (C01 owns the general codec)",
           "signature grammar modelled by a deterministic parser (C06 owns the combinator code)"]
ASSUMPTIONS = ["header strings are valid UTF-8 (the Builder API takes &str)",
               "file descriptors are compared by (st_dev, st_ino) identity, never by number"]

# ---------------------------------------------------------------- message encoder (python side, for C12/C13 inputs)

def pad(b, n):
    return b + b"\0" * ((-len(b)) % n)


def u32(e, n):
    return struct.pack(("<" if e == "l" else ">") + "I", n & 0xFFFFFFFF)


def field(e, code, sig, val):
    """one (yv) element starting at an 8-aligned offset; val: bytes for s/o/g, int for u, raw bytes otherwise"""
    b = bytes([code, len(sig)]) + sig + b"\0"
    if sig in (b"s", b"o"):
        b = pad(b, 4) + u32(e, len(val)) + val + b"\0"
    elif sig == b"g":
        b = b + bytes([len(val)]) + val + b"\0"
    elif sig == b"u":
        b = pad(b, 4) + u32(e, val)
    else:
        b = b + val
    return b


def msg(e="l", ty=1, flags=0, ver=1, serial=1, fields=(), body=b"", body_len=None, endbyte=None, fields_len=None):
    arr = b""
    for (code, sig, val) in fields:
        arr = pad(arr, 8)
        arr += field(e, code, sig, val)
    h = (bytes([ord(e) if endbyte is None else endbyte, ty, flags, ver]) + u32(e, len(body) if body_len is None else body_len)
         + u32(e, serial) + u32(e, len(arr) if fields_len is None else fields_len) + arr)
    return pad(h, 8) + body


def pline(b, ctx="a"):
    return "p %s %s" % (ctx, b.hex() if b else "-")


def sline(msgs):
    return "s " + " ".join(m.hex() for m in msgs)


# ---------------------------------------------------------------- a small D-Bus marshaller for arbitrary values (inputs of C12/C13)
# type trees: ("y",) ("b",) ... basic; ("a", child); ("r", [fields]); ("e", key, value) = a{kv}; ("v",)
BASIC_ALIGN = {"y": 1, "b": 4, "n": 2, "q": 2, "i": 4, "u": 4, "x": 8, "t": 8, "d": 8, "s": 4, "o": 4, "g": 1, "h": 4, "v": 1}


def sig_str(t):
    k = t[0]
    if k == "a":
        return "a" + sig_str(t[1])
    if k == "r":
        return "(" + "".join(sig_str(f) for f in t[1]) + ")"
    if k == "e":
        return "a{" + sig_str(t[1]) + sig_str(t[2]) + "}"
    return k


def align_of(t):
    k = t[0]
    if k in ("a", "e"):
        return 4
    if k == "r":
        return 8
    return BASIC_ALIGN[k]


def rand_type(rng, depth=0, basic_only=False):
    basics = "ybnqiuxtdsog"
    r = rng.random()
    if basic_only or depth >= 3 or r < 0.55:
        return (rng.choice(basics),)
    if r < 0.70:
        return ("a", rand_type(rng, depth + 1))
    if r < 0.82:
        return ("r", [rand_type(rng, depth + 1) for _ in range(rng.randint(1, 3))])
    if r < 0.90:
        return ("e", rand_type(rng, depth + 1, rng.random() < 0.8), rand_type(rng, depth + 1))
    if r < 0.97:
        return ("v",)
    return ("h",)


def rand_value(rng, t, depth=0):
    k = t[0]
    if k == "y":
        return rng.randrange(256)
    if k == "b":
        return rng.choice([0, 1, 1, 1, 2]) if rng.random() < 0.1 else rng.choice([0, 1])
    if k in "nq":
        return rng.randrange(1 << 16)
    if k in "iuh":
        return rng.randrange(1 << 32) if k != "h" else 0
    if k in "xtd":
        return rng.randrange(1 << 64)
    if k == "s":
        return rand_text(rng, 0, 6).encode("utf8")
    if k == "o":
        return path_name(rng).encode() if rng.random() < 0.93 else rng.choice([b"", b"a", b"/a/", b"//"])
    if k == "g":
        return rng.choice(["", "s", "a{sv}", "(ii)", "su", "aay"]).encode() if rng.random() < 0.93 else rng.choice([b"a", b"(", b"z"])
    if k == "a":
        return [rand_value(rng, t[1], depth + 1) for _ in range(rng.choice([0, 1, 1, 2, 3]))]
    if k == "r":
        return [rand_value(rng, f, depth + 1) for f in t[1]]
    if k == "e":
        return [(rand_value(rng, t[1], depth + 1), rand_value(rng, t[2], depth + 1)) for _ in range(rng.choice([0, 1, 2]))]
    if k == "v":
        it = rand_type(rng, 2 if depth < 2 else 3)
        return (it, rand_value(rng, it, depth + 1))
    raise ValueError(k)


def marshal(e, t, v, pos):
    """bytes of value v of type t written at absolute offset pos (padding included)"""
    k = t[0]
    out = b"\0" * ((-pos) % align_of(t))
    p = pos + len(out)
    fmt = "<" if e == "l" else ">"
    if k == "y":
        return out + bytes([v])
    if k in "nq":
        return out + struct.pack(fmt + "H", v)
    if k in "biuh":
        return out + struct.pack(fmt + "I", v)
    if k in "xtd":
        return out + struct.pack(fmt + "Q", v)
    if k in "so":
        return out + struct.pack(fmt + "I", len(v)) + v + b"\0"
    if k == "g":
        return out + bytes([len(v)]) + v + b"\0"
    if k == "v":
        it, iv = v
        sg = sig_str(it).encode()
        hd = bytes([len(sg)]) + sg + b"\0"
        return out + hd + marshal(e, it, iv, p + len(hd))
    if k == "r":
        body = b""
        for f, fv in zip(t[1], v):
            body += marshal(e, f, fv, p + len(body))
        return out + body
    if k in ("a", "e"):
        ea = 8 if k == "e" else align_of(t[1])
        start = p + 4
        first = b"\0" * ((-start) % ea)
        start += len(first)
        body = b""
        for item in v:
            if k == "e":
                body += b"\0" * ((-(start + len(body))) % 8)
                body += marshal(e, t[1], item[0], start + len(body))
                body += marshal(e, t[2], item[1], start + len(body))
            else:
                body += marshal(e, t[1], item, start + len(body))
        return out + struct.pack(fmt + "I", len(body)) + first + body
    raise ValueError(k)


def any_field(e, off, code, t, v):
    """a (yv) element at 8-aligned offset off with a value of any type"""
    sg = sig_str(t).encode()
    hd = bytes([code, len(sg)]) + sg + b"\0"
    return hd + marshal(e, t, v, off + len(hd))


def msg_any(e, ty, flags, serial, fields, body=b"", ver=1):
    """like msg(), fields are (code, type tree, value)"""
    arr = b""
    for (code, t, v) in fields:
        arr = pad(arr, 8)
        arr += any_field(e, 16 + len(arr), code, t, v)
    h = bytes([ord(e), ty, flags, ver]) + u32(e, len(body)) + u32(e, serial) + u32(e, len(arr)) + arr
    return pad(h, 8) + body


# ---------------------------------------------------------------- random valid names

def ident(rng, first="abcXYZ_", rest="abcXYZ019_", lo=1, hi=6):
    n = rng.randint(lo, hi)
    return rng.choice(first) + "".join(rng.choice(rest) for _ in range(n - 1))


def iface_name(rng):
    return ".".join(ident(rng) for _ in range(rng.randint(2, 4)))


def member_name(rng):
    return ident(rng, hi=9)


def path_name(rng):
    if rng.random() < 0.1:
        return "/"
    return "/" + "/".join(ident(rng, first="abcXYZ019_") for _ in range(rng.randint(1, 4)))


def unique_name(rng):
    return ":" + ".".join(ident(rng, first="abc019_-", rest="abc019_-", hi=4) for _ in range(rng.randint(2, 3)))


def bus_name(rng):
    return unique_name(rng) if rng.random() < 0.5 else ".".join(ident(rng, first="abcXYZ_-", rest="abcXYZ019_-") for _ in range(rng.randint(2, 3)))


def x(s):
    if s is None:
        return "-"
    if isinstance(s, str):
        s = s.encode("utf8")
    return "x" + s.hex()


SIGS = ["y", "u", "s", "ai", "as", "(su)", "su", "a{sv}", "v", "(i(ss))a(yv)", "t", "ay", "aay", "h", "sh", "g", "o", "xd", "((ss))", "a{s(ii)}"]
BAD = ["", ".", "a..b", "9a.b", "/a/", "a b", "é.x", ":1", "a.b-"]


def bline(e, ty, flags, serial, path, iface, member, errname, rs, dest, sender, via, body):
    return "b %s %d %d %d %s %s %s %s %s %s %s %d %s" % (e, ty, flags, serial, x(path), x(iface), x(member), x(errname),
                                                          "-" if rs is None else str(rs), x(dest), x(sender), 1 if via else 0, body)


def rand_text(rng, lo=0, hi=12):
    n = rng.randint(lo, hi)
    return "".join(rng.choice("abc xyz019é/._") for _ in range(n))


def rand_body(rng):
    k = rng.random()
    if k < 0.12:
        return "unit"
    if k < 0.27:
        return "s " + x(rand_text(rng))
    if k < 0.37:
        return "u %d" % rng.choice([0, 1, 255, 256, 65536, 0xFFFFFFFF, rng.randrange(1 << 32)])
    if k < 0.52:
        return "su %s %d" % (x(rand_text(rng)), rng.randrange(1 << 32))
    if k < 0.64:
        return "as" + "".join(" " + x(rand_text(rng, 0, 6)) for _ in range(rng.randint(0, 4)))
    if k < 0.70:
        return "h"
    if k < 0.76:
        return "sh " + x(rand_text(rng))
    if k < 0.80:   # several typed descriptors out of a table of 3 files, repeats included
        kind = rng.choice(["hh", "hv", "ah", "ah"])
        n = 2 if kind != "ah" else rng.choice([0, 1, 2, 3, 5])
        return kind + "".join(" %d" % rng.randrange(3) for _ in range(n))
    sig = rng.choice(SIGS)
    n = rng.choice([0, 0, 1, 3, 4, 7, 8, 9, 16, 31])
    data = bytes(rng.randrange(256) for _ in range(n))
    return "raw %s %s %d" % (x(sig) if sig else "-", x(data) if data else "-", rng.choice([0, 0, 0, 1, 3]))


def rand_case(rng, ty=None, flags=None, e=None):
    ty = ty or rng.randint(1, 4)
    if flags is None:
        flags = rng.randint(0, 7)
        if ty != 1 and rng.random() < 0.8:
            flags &= 6          # with_flags refuses NoReplyExpected on anything but a method call
    e = e or rng.choice("lB")
    serial = rng.choice([1, 2, 255, 256, 0xFFFFFFFF, rng.randrange(1, 1 << 32)])
    opt = lambda f, p=0.5: f(rng) if rng.random() < p else None
    path, iface, member = opt(path_name), opt(iface_name), opt(member_name)
    errname = iface_name(rng) if ty == 3 else None
    rs = rng.choice([1, 77, 0xFFFFFFFF, rng.randrange(1, 1 << 32)]) if rng.random() < (0.85 if ty in (2, 3) else 0.2) else None
    dest, sender = opt(bus_name), opt(unique_name, 0.4)
    if ty == 1:
        path, member = path or path_name(rng), member or member_name(rng)
    if ty == 4:
        path, iface, member = path or path_name(rng), iface or iface_name(rng), member or member_name(rng)
    if rng.random() < 0.04:   # an invalid name somewhere: the builder must refuse
        which = rng.choice(["path", "iface", "member", "dest", "sender"] + (["errname"] if ty == 3 else []))
        bad = rng.choice(BAD)
        if which == "path":
            path = bad
        elif which == "iface":
            iface = bad
        elif which == "member":
            member = bad
        elif which == "dest":
            dest = bad
        elif which == "sender":
            sender = bad
        else:
            errname = bad
    return bline(e, ty, flags, serial, path, iface, member, errname, rs, dest, sender, rng.random() < 0.2, rand_body(rng))


def gen(rng, tier):
    # every type x flag set x endian, minimal and maximal field sets
    for ty in (1, 2, 3, 4):
        for fl in range(8):
            for e in "lB":
                yield rand_case(rng, ty, fl, e)
                yield bline(e, ty, fl, 7, "/p/q", "a.b", "M", "e.r.R" if ty == 3 else None, 5, ":1.9", ":1.10", False, "su %s 42" % x("hello"))
    # name lengths sweeping every padding residue
    for n in range(1, 18):
        yield bline("l", 1, 0, 1, "/" + "p" * n, None, "M" * n, None, None, None, None, False, "unit")
        yield bline("B", 4, 0, 1, "/", "a." + "b" * n, "S", None, None, ":1." + "2" * n, None, False, "s " + x("z" * n))
    # several descriptors: every pair (same fd twice, two different fds), plain and inside a variant, arrays with repeats
    for e in "lB":
        for i in range(3):
            for j in range(3):
                yield bline(e, 4, 0, 1, "/", "a.b", "S", None, None, None, None, False, "hh %d %d" % (i, j))
                yield bline(e, 1, 0, 2, "/p", None, "M", None, None, ":1.2", None, i == j, "hv %d %d" % (i, j))
        for l in ([], [0], [1, 1], [0, 1, 2], [2, 0, 2, 0], [1, 1, 1, 1, 1, 1, 1]):
            yield bline(e, 2, 0, 3, None, None, None, None, 9, None, None, False, "ah" + "".join(" %d" % v for v in l))
    # over-long body signature: the builder asserts (usize_to_u8) instead of returning an error
    yield bline("l", 4, 0, 1, "/", "a.b", "S", None, None, None, None, False, "raw %s - 0" % x("y" * 256))
    yield bline("l", 4, 0, 1, "/", "a.b", "S", None, None, None, None, False, "raw %s - 0" % x("y" * 255))
    count = 4000 if tier == "quick" else 200000
    for _ in range(count):
        yield rand_case(rng)


def nontrivial(case, impl_out):
    return impl_out.startswith("OK|")


def classify(case, impl_out):
    w = case.split(" ")
    return "t%s:%s:%s" % (w[2], w[13] if len(w) > 13 else "?", impl_out.split("|")[0])


def fd_field(dump):
    """the UNIX_FDS value shown in a header dump ('-' = absent = 0) and the number of descriptors attached (/n<k>)"""
    import re
    m = re.search(r",fd=([0-9]+|-)[:|]", dump + "|")
    n = re.search(r"/n([0-9]+)", dump)
    if not m or not n:
        return None
    return (0 if m.group(1) == "-" else int(m.group(1))), int(n.group(1))


def meets_spec(impl, spec):
    """bytes, fd count, header+body of the built message, header+body of the re-parsed one, typed body value"""
    if impl == spec:
        return True
    if spec.startswith("FDCHK|"):
        # several descriptors: declared count (UNIX_FDS) = attached count, in the built and in the re-parsed message,
        # and every descriptor of the body comes back as the file it was
        i = impl.split("|")
        if len(i) != 6 or i[0] != "OK":
            return False
        a, b = fd_field(i[3]), fd_field(i[4])
        if a is None or b is None:
            return False
        attached = int(i[2])
        return a == (attached, attached) and b == (attached, attached) and i[5] == spec.split("|", 1)[1]
    i, s = impl.split("|"), spec.split("|")
    if len(s) != 6 or len(i) != 6:
        return False
    return i[:4] == s[:4] and (i[4] + ":").startswith(s[4] + ":") and i[5] == s[5]


def search(rng, bad_cases):
    for _ in range(30000):
        yield rand_case(rng)


ENABLED = True
LEVEL = "proof"
LEVEL_TEXT = ("Theorems in coq/theories/Properties/C11.v over the model of Builder::build_generic / Fields::serialize and of "
              "Message::from_raw_parts / QuickFields / header() / body(): for every header with valid names (any subset of fields, "
              "any type 1..4, flags, serial, both byte orders), every body byte string, signature and fd count within the size limits, "
              "the built bytes equal the D-Bus layout formula of C11/Spec.v, re-parse to the same header, signature and body bytes, "
              "the body offset is a multiple of 8, the declared body length and UNIX_FDS equal the actual ones; typed round trip for "
              "the body shapes s, u, (su), as. Tied to the code by differential runs through the public Builder API and Message::from_bytes.")
LEVEL_NOTE = ("Trusted: Coq kernel; the hand-written model (absolute-position reading of zvariant's D-Bus (de)serializer: header "
              "types y u s o g v a(yv), and since fix 9e1c6e56 the dynamically typed decoder for header-field values of any type); body values other than the listed shapes are opaque bytes + signature (general codec: C01-C03); "
              "the body signature is preserved as the D-Bus list of complete types (a one-field structure and its field are the same "
              "body signature, as zbus defines it). Side observation: a body signature longer than 255 bytes makes the builder panic.")
