"""C25 — ObjectManager signals track the managed object set."""
import itertools

ID = "C25"
CRATE = "hobjsrv"
RUN_MODULE = "C25.Run"
SHARDS = 16
RUN_TIMEOUT = 1500
MODE = "25"
RULE = ("histories of at/remove/om/rmom on a fresh in-process p2p connection pair, a client on the peer connection listening from "
        "the start: ALL histories of length <= 3 (quick) / <= 4 (thorough; those of length 4 that start with a removal are skipped) over 4 paths (/, /a, /a/b, /x) x {I1 (with a property), "
        "I2, ObjectManager}; all of length <= 2 over 6 paths x 3 interfaces + ObjectManager; random histories of length 20..60 "
        "(thorough: up to 200) with managers registered early, 60% steered away from the known-deviation class (nested managers), every flagged "
        "random history also run cut before its first flagged step. After EVERY op: the signals received (sorted), the client's "
        "replayed view and a fresh GetManagedObjects at each of the 6 paths, and their comparison ignoring interface-less paths. "
        "non-trivial = at least one signal was received and at least one manager answered with a non-empty listing")
TRUSTED = ["harness/hobjsrv: the client-side replay in Rust (checked against Spec.apply_signals through the V sections) and the "
           "per-path comparison printed in the E sections",
           "a Peer.Ping round trip after each op flushes the signals emitted before it (messages on one connection are ordered)",
           "HashMap iteration order is abstracted: signals of one step, views and listings are sorted before printing"]
ASSUMPTIONS = ["histories are sequential; properties change only by registering a new instance (no PropertiesChanged traffic)",
               "signal emission succeeds (the connection stays alive); signals of one step have pairwise distinct object paths",
               "a client has no session at a path while no manager answers there; a session starts with the registration burst"]

PATHS_SMALL = ["/", "/a", "/a/b", "/x"]
PATHS_ALL = ["/", "/a", "/a/b", "/a/b/c", "/x", "/ab"]


def alphabet(paths, kinds, om=True):
    ops = []
    for p in paths:
        for k in kinds:
            ops.append("at:%s:%s" % (p, k))
            ops.append("rm:%s:%s" % (p, k))
        if om:
            ops.append("om:%s" % p)
            ops.append("rmom:%s" % p)
    return ops


def line(ops):
    return (MODE + " " + " ".join(ops)).strip()


# ---- a Python copy of the tree and of the known-class predicate, used ONLY to steer generation
def parse(op):
    w = op.split(":")
    if w[0] == "om":
        return ("at", w[1], "M")
    if w[0] == "rmom":
        return ("rm", w[1], "M")
    return (w[0], w[1], w[2])


def segs(p):
    return tuple(x for x in p.split("/") if x)


def new_tree():
    return {(): set()}


def mgrs_above(t, p):
    return sum(1 for j in range(len(p)) if "M" in t.get(p[:j], ()))


def tree_step(t, op):
    """returns True when the step is in a known-deviation class of C25; updates t"""
    a, ps, k = parse(op)
    p = segs(ps)
    if a == "at":
        present = p in t and k in t[p]
        flagged = (not present) and k != "M" and mgrs_above(t, p) >= 2
        for j in range(len(p) + 1):
            t.setdefault(p[:j], set())
        t[p].add(k)
        return flagged
    if p not in t or k not in t[p]:
        return False
    above = mgrs_above(t, p)
    flagged = k != "M" and above >= 2
    t[p].discard(k)
    has_children = any(len(q) == len(p) + 1 and q[:len(p)] == p for q in t)
    if not t[p] and not has_children and p != ():
        del t[p]          # fixes f5fe3276, 71f8bd70: only a leaf below the root with no interface left (manager included) is destroyed
    return flagged


def first_flag_index(ops):
    t = new_tree()
    for i, o in enumerate(ops):
        if tree_step(t, o):
            return i
    return None


MANAGER_SETS = [["/"], ["/"], ["/a"], ["/a/b"], ["/a", "/x"], ["/a/b", "/x"], ["/", "/a"], ["/a", "/a/b"], ["/", "/a", "/a/b"], []]


def gen(rng, tier):
    small = alphabet(PATHS_SMALL, "12")
    maxlen = 3 if tier == "quick" else 4
    for n in range(0, maxlen + 1):
        for t in itertools.product(small, repeat=n):
            # length 4 (thorough): a history that starts with a removal on the fresh server only adds a failing
            # first step to a length-3 history that is already there
            if n == 4 and t[0].startswith("rm"):
                continue
            yield line(t)
    big = alphabet(PATHS_ALL, "123")
    for n in range(1, 3):
        for t in itertools.product(big, repeat=n):
            yield line(t)
    count = 700 if tier == "quick" else 4000
    hi = 60 if tier == "quick" else 200
    for i in range(count):
        n = rng.randint(20, hi)
        mgrs = rng.choice(MANAGER_SETS)
        nested = any(a != b and segs(a) == segs(b)[:len(segs(a))] for a in mgrs for b in mgrs)
        steer = (not nested) and rng.random() < 0.8
        paths = PATHS_ALL if rng.random() < 0.7 else PATHS_SMALL
        ops = ["om:%s" % m for m in mgrs if rng.random() < 0.8]
        ops += random_history_from(rng, ops, n, paths, "123", steer, mgrs, rng.choice([0.0, 0.03, 0.1]))
        yield line(ops)
        j = first_flag_index(ops)
        if j is not None and j > 0:
            yield line(ops[:j])


def random_history_from(rng, prefix, n, paths, kinds, steer, mgrs, toggle):
    """continue `prefix` with a random history (the steering simulation starts from the prefix's state)"""
    t = new_tree()
    for o in prefix:
        tree_step(t, o)
    ops = []
    alpha = alphabet(paths, kinds, om=False)
    omops = ["om:%s" % m for m in mgrs] + ["rmom:%s" % m for m in mgrs]
    while len(ops) < n:
        o = None
        for _ in range(30):
            c = rng.choice(omops) if (omops and rng.random() < toggle) else rng.choice(alpha)
            a, ps, k = parse(c)
            p = segs(ps)
            present = p in t and k in t[p]
            if (a == "rm") != present and rng.random() < 0.7:
                continue
            t2 = {q: set(v) for q, v in t.items()}
            if steer and tree_step(t2, c):
                continue
            o = c
            break
        if o is None:
            break
        tree_step(t, o)
        ops.append(o)
    return ops


def steps(out):
    return out.split(";")


def meets_spec(impl, spec):
    # the property evaluated on the implementation's own output: the client's view equals the listing
    # at every path where a manager answers, after every step
    for s in steps(impl):
        f = s.split("|")
        if len(f) != 5 or "!" in f[4]:
            return False
    return True


def nontrivial(case, impl_out):
    got_signal = any(len(s.split("|")) == 5 and s.split("|")[1] for s in steps(impl_out))
    listed = any(len(s.split("|")) == 5 and any(g not in ("-", "") for g in s.split("|")[3].split(",")) for s in steps(impl_out))
    return got_signal and listed


def classify(case, impl_out):
    n = len(case.split(" ")) - 1
    b = "len<=4" if n <= 4 else "len<=60" if n <= 60 else "len>60"
    st = [s.split("|") for s in steps(impl_out)]
    bad = any(len(f) == 5 and "!" in f[4] for f in st)
    mg = max([sum(1 for c in f[4] if c != "-") for f in st if len(f) == 5] or [0])
    return "%s:managers=%d:%s" % (b, mg, "diverged" if bad else "in-sync")


def search(rng, bad_cases):
    for c in bad_cases:
        ops = c.split(" ")[1:]
        for j in range(len(ops) + 1):
            yield line(ops[:j])
        for _ in range(200):
            o = list(ops)
            if o and rng.random() < 0.5:
                o[rng.randrange(len(o))] = rng.choice(alphabet(PATHS_ALL, "123"))
            else:
                o.insert(rng.randint(0, len(o)), rng.choice(alphabet(PATHS_ALL, "123")))
            yield line(o)
    for i in range(400):
        yield line(["om:/"] + random_history_from(rng, ["om:/"], rng.randint(3, 30), PATHS_ALL, "123", True, ["/"], 0.05))


ENABLED = True
LEVEL = "proof"
LEVEL_TEXT = ("Theorems in coq/theories/Properties/C25.v over ALL histories: in the model of at/remove (as repaired by fix f5fe3276) with "
              "their InterfacesAdded / InterfacesRemoved emission and of get_managed_objects, a client that replays the signals has, "
              "after every step and for every manager that answers, exactly the (object, interface, properties) triples of the "
              "manager's listing — for every history outside ONE decidable class (nested managers); inside it a concrete history "
              "refutes the full statement. The class repaired by f5fe3276 (silent subtree deletion) is now inside the theorem "
              "(C25_repaired_history). The model is tied to the code by running every short history and random long ones on the real "
              "ObjectServer (code after fixes f5fe3276, 71f8bd70) with a real client on the peer connection, comparing signals, replayed views and GetManagedObjects "
              "replies after every op.")
LEVEL_NOTE = ("partial: still refuted for nested managers — only the nearest ancestor manager emits, an outer manager's listing still "
              "contains the object; C25_sync_partial covers all other histories (including removals below a manager, removal and "
              "re-registration of managers, root removals). Fixed by f5fe3276 and now proved: removal that emptied a node with "
              "descendants. Trusted: Coq kernel, the hand-written model, harness hobjsrv (including its Rust replay), sequential histories.")
