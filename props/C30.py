"""C30 — object server use from handlers and right after setup does not hang."""

ID = "C30"
CRATE = "hdisp"
RUN_MODULE = "C30.Run"
TWO_PHASE = True
SHARDS = 16
RULE = ("D cases: one burst of 1-20 calls over a fresh in-process p2p pair (methods taking &self / &mut self on interfaces with "
        "spawning on and off, Properties.Get / GetAll / Set with &mut and &self setters, Introspect) whose handlers — method handlers, "
        "property getters, property setters — yield, sleep, emit signals and call object_server().at / remove (another path, own path) "
        "and .interface(); a watchdog of 5 s (handlers need milliseconds), a hang is re-run once in a fresh pair before it is believed. "
        "Mostly bursts inside the class where freedom from deadlock is proved (there a hang is a VIOLATION), a few in each known class "
        "(deterministic deadlocks: a property handler that registers / removes; a method handler that registers while Properties.Get "
        "or Introspect on the same interface is in flight) and bursts of the known class that only deadlock under rare schedules. "
        "L cases: conn.object_server() created on demand, at() returns, the peer sends 1-5 calls — 30 ms later (must be answered), at "
        "once, and with the socket reader made runnable before the dispatch task was spawned (the deterministic drop). The model must "
        "explain every log: a complete run for OK, a run into a deadlock / the drop of exactly the unanswered calls for HANG. "
        "non-trivial = a handler used the object server, or an L case")
TRUSTED = ["harness/hdisp: event log, watchdog (5 s, re-checked once), leaked connections on HANG",
           "the classification of a case (Known_C30 = the burst's code paths do not respect one lock order) is the extracted Coq predicate"]
ASSUMPTIONS = ["async_lock::RwLock: many readers xor one writer; a writer that owns the writer mutex blocks new readers (read from "
               "async-lock 3.4.1 raw.rs)",
               "executor: every runnable task is eventually polled; an idle internal executor polls a freshly spawned task within 30 ms "
               "(L variants a / d)",
               "at() under an ObjectManager ancestor (which runs the new interface's getters under the root write lock) is not modelled",
               "sending a reply or a signal completes by itself (transport failures: C38/C39)"]

AWAITS = ["y1", "y2", "y4", "z1", "z2", "e", "e"]
MUTS = ["a0", "a1", "r0", "r1"]


def script(rng, ops, lo=0, hi=3):
    n = rng.randint(lo, hi)
    if n == 0:
        return "-"
    return ".".join(rng.choice(ops) for _ in range(n))


def safe_methods(rng):
    n = rng.choice([1, 2, 3, 5, 8, 12, 20])
    calls = []
    for _ in range(n):
        k = rng.randint(0, 3)
        calls.append("%s%d:%s" % (rng.choice("mf"), k, script(rng, AWAITS + MUTS + MUTS, 1, 4)))
    return "D %s -,-,-,- %s" % (rng.choice(["i", "i", "1", "2", "3"]), " ".join(calls))


def safe_mixed(rng):
    # property / introspection traffic on interfaces P, mutating method handlers on the others
    pset = rng.choice([[0, 2], [1, 3], [0], [3], [0, 1]])
    others = [k for k in range(4) if k not in pset]
    getters = [script(rng, AWAITS, 0, 2) if k in pset else "-" for k in range(4)]
    n = rng.choice([2, 3, 5, 8, 12])
    calls = []
    for _ in range(n):
        if rng.random() < 0.5:
            k = rng.choice(pset)
            kind = rng.choice("gGstx")
            if kind in "gGx":
                calls.append("%s%d" % (kind, k))
            else:
                calls.append("%s%d:%s" % (kind, k, script(rng, AWAITS, 0, 3)))
        else:
            k = rng.choice(others)
            calls.append("%s%d:%s" % (rng.choice("mf"), k, script(rng, AWAITS + MUTS + MUTS, 1, 4)))
    return "D %s %s %s" % (rng.choice(["i", "i", "2", "3"]), ",".join(getters), " ".join(calls))


def safe_lookup(rng):
    # handlers of interfaces 0/1 look interfaces 2/3 up; handlers of 2/3 only await
    n = rng.choice([2, 4, 8])
    calls = []
    for _ in range(n):
        if rng.random() < 0.6:
            calls.append("%s%d:%s" % (rng.choice("mf"), rng.choice([0, 1]), script(rng, AWAITS + MUTS + ["i2", "i3", "i2"], 1, 4)))
        else:
            calls.append("%s%d:%s" % (rng.choice("mf"), rng.choice([2, 3]), script(rng, AWAITS, 0, 2)))
    return "D %s -,-,-,- %s" % (rng.choice(["i", "2"]), " ".join(calls))


def known_deterministic(rng):
    k = rng.randint(0, 3)
    m = rng.choice(MUTS)
    pick = rng.randint(0, 5)
    g = ["-", "-", "-", "-"]
    if pick == 0:
        return "D i -,-,-,- s%d:%s" % (k, m)
    if pick == 1:
        return "D i -,-,-,- t%d:y1.%s" % (k, m)
    if pick == 2:
        g[k] = m
        return "D i %s g%d" % (",".join(g), k)
    if pick == 3:
        g[k] = "e." + m
        return "D i %s G%d" % (",".join(g), k)
    if pick == 4:
        return "D i -,-,-,- m%d:z30.%s g%d" % (k, m, k)
    return "D i -,-,-,- m%d:z30.%s x%d" % (k, m, k)


def known_rare(rng):
    # in the known class, but a deadlock needs a rare schedule (no sleep to line the tasks up)
    k = rng.randint(0, 3)
    m = rng.choice(MUTS)
    pick = rng.randint(0, 2)
    if pick == 0:
        return "D i -,-,-,- f%d:%s g%d" % (k, m, k)
    if pick == 1:
        return "D i -,-,-,- g%d f%d:y1.%s f%d:-" % (k, k, m, k)
    return "D i -,-,-,- x%d f%d:%s" % (k, k, m)


def gen_case(rng, tier, allow_hang):
    """returns (case, expected_to_hang)"""
    r = rng.random()
    if r < 0.36:
        return safe_methods(rng), False
    if r < 0.66:
        return safe_mixed(rng), False
    if r < 0.74:
        return safe_lookup(rng), False
    if r < 0.84:
        return "L %s %d" % (rng.choice("aad"), rng.randint(1, 5)), False
    if r < 0.87:
        return "L b %d" % rng.randint(1, 4), False
    if r < 0.95:
        return known_rare(rng), False
    if allow_hang:
        return (known_deterministic(rng) if rng.random() < 0.8 else "L c %d" % rng.randint(1, 3)), True
    return safe_methods(rng), False


def gen(rng, tier):
    total = 230 if tier == "quick" else 12000
    hangs = 0
    cap = 6 if tier == "quick" else 400
    for _ in range(total):
        c, h = gen_case(rng, tier, hangs < cap)
        if h:
            hangs += 1
        yield c


def nontrivial(case, impl_out):
    if case.startswith("L"):
        return True
    w = case.split(" ")
    used = any(any(op and op[0] in "ari" for op in (t.split(":")[1].split(".") if ":" in t else [])) for t in w[3:])
    used = used or any(any(op and op[0] in "ari" for op in g.split(".")) for g in w[2].split(","))
    return used


def classify(case, impl_out):
    v = impl_out.split("#")[0]
    if case.startswith("L"):
        return "L%s:%s" % (case.split(" ")[1], v)
    w = case.split(" ")
    kinds = "".join(sorted({t[0] for t in w[3:]}))
    n = len(w) - 3
    return "D:%s:kinds=%s:calls%s" % (v, kinds, "1" if n == 1 else ("2-4" if n <= 4 else "5+"))


def search(rng, bad_cases):
    for _ in range(400):
        yield gen_case(rng, "thorough", False)[0]


ENABLED = True
LEVEL = "proof"
LEVEL_TEXT = ("Theorems in coq/theories/Properties/C30.v. First clause, on the dispatch model shared with C29 (dispatch task, "
              "dispatch_call_to_iface, ObjectServer::at/remove/interface, Properties::get/set/get_all, Introspectable::introspect as lock "
              "scripts over a write-preferring RwLock; handlers = arbitrary finite scripts; arbitrary scheduler): method handlers that "
              "await / register / remove / emit never deadlock (C30_nodeadlock_methods), and more generally no burst whose code paths "
              "respect one lock order does (C30_nodeadlock_partial, the class is decidable and evaluated on every case). The faithful "
              "model REFUTES the full statement: kernel-checked deadlocking runs for a property setter / getter that registers or "
              "removes an object, and for a METHOD handler that registers an object while Properties.Get or Introspect on the same "
              "interface is in flight (C30_*_refuted) — all confirmed on the real code (known findings). Second clause, on a start-up "
              "model: with on-demand creation a call sent after at() returned can be dropped (C30_lazy_start_refuted, confirmed); "
              "with the builder path, or once the dispatch task has subscribed, nothing is dropped and every call is taken in order "
              "(C30_lazy_start_partial, C30_subscribed_no_more_drops).")
LEVEL_NOTE = ("PARTIAL: the property does not hold on this tree; the theorems cover the complement of explicit known classes. "
              "Protocol-level: RwLock semantics and executor fairness are assumed contracts; at() below an ObjectManager is not modelled; "
              "object_server().interface() from handlers is modelled but not demanded by the oracle (the property text does not name it). "
              "Trusted: Coq kernel, the models, harness/hdisp with its 5 s watchdog.")
