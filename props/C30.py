"""C30 — object server use from handlers and right after setup does not hang."""

ID = "C30"
CRATE = "hdisp"
RUN_MODULE = "C30.Run"
TWO_PHASE = True
SHARDS = 16
RULE = ("D cases: one burst of 1-20 calls over a fresh in-process p2p pair (methods taking &self / &mut self on interfaces with "
        "spawning on and off, Properties.Get / GetAll / Set with &mut and &self setters, Introspect) whose handlers — method handlers, "
        "property getters, property setters — yield, sleep, emit signals and call object_server().at / remove (another path, own path) "
        "and .interface(), or remove the very interface they are running on (from &mut self and &self handlers, with and without a "
        "&mut call queued behind them); a watchdog of 8 s (handlers need milliseconds), a hang is re-run once in a fresh pair before it is believed. "
        "Mostly bursts inside the class where freedom from deadlock is proved (there a hang is a VIOLATION): since /repo d9501501 that "
        "includes property getters / setters that register or remove objects and method handlers racing with property traffic. A few "
        "bursts in the remaining known class (a handler that registers while Introspect on the same node is in flight: deterministic "
        "via a 30 ms sleep, or only under rare schedules). "
        "L cases: conn.object_server() created on demand, at() returns, the peer sends 1-5 calls — after a Ping was answered (must be "
        "answered), at once, and with the socket reader made runnable before the dispatch task was spawned (the deterministic drop). "
        "The model must explain every log: a complete run for OK, a run into a deadlock / the drop of exactly the unanswered calls for "
        "HANG. non-trivial = a handler used the object server, or an L case")
TRUSTED = ["harness/hdisp: event log, watchdog (8 s, re-checked once), leaked connections on HANG",
           "the classification of a case (Known_C30 = the burst's code paths do not respect one lock order) is the extracted Coq predicate"]
ASSUMPTIONS = ["async_lock::RwLock: many readers xor one writer; a writer that owns the writer mutex blocks new readers (read from "
               "async-lock 3.4.1 raw.rs)",
               "executor: every runnable task is eventually polled (L variants a / d wait for an answered Ping, not for a time)",
               "at() under an ObjectManager ancestor (which runs the new interface's getters under the root write lock) is not modelled",
               "sending a reply or a signal completes by itself (transport failures: C38/C39)"]

AWAITS = ["y1", "y2", "y4", "z1", "z2", "e", "e"]
MUTS = ["a0", "a1", "r0", "r1"]


def script(rng, ops, lo=0, hi=3):
    n = rng.randint(lo, hi)
    if n == 0:
        return "-"
    return ".".join(rng.choice(ops) for _ in range(n))


def safe_methods(rng):
    n = rng.choice([1, 2, 3, 5, 8, 12, 20])
    calls = []
    for _ in range(n):
        k = rng.randint(0, 3)
        calls.append("%s%d:%s" % (rng.choice("mf"), k, script(rng, AWAITS + MUTS + MUTS, 1, 4)))
    return "D %s -,-,-,- %s" % (rng.choice(["i", "i", "1", "2", "3"]), " ".join(calls))


def handlers(rng):
    # method AND property handlers that register / remove / emit, on any interface; no Introspect (C30_nodeadlock_handlers)
    getters = [script(rng, AWAITS + MUTS + MUTS, 0, 3) for _ in range(4)]
    n = rng.choice([1, 2, 3, 5, 8, 12])
    calls = []
    for _ in range(n):
        k = rng.randint(0, 3)
        kind = rng.choice("gGstmfgGst")
        if kind in "gG":
            calls.append("%s%d" % (kind, k))
        else:
            calls.append("%s%d:%s" % (kind, k, script(rng, AWAITS + MUTS + MUTS, 1, 4)))
    return "D %s %s %s" % (rng.choice(["i", "i", "1", "2", "3"]), ",".join(getters), " ".join(calls))


def safe_mixed(rng):
    # Introspect traffic on interfaces P (their handlers only await), registering handlers of every kind on the others
    pset = rng.choice([[0, 2], [1, 3], [0], [3], [0, 1]])
    others = [k for k in range(4) if k not in pset]
    getters = [script(rng, AWAITS, 0, 2) if k in pset else script(rng, AWAITS + MUTS, 0, 2) for k in range(4)]
    n = rng.choice([2, 3, 5, 8, 12])
    calls = []
    for _ in range(n):
        if rng.random() < 0.5:
            k = rng.choice(pset)
            kind = rng.choice("xxgGstmf")
            if kind in "gGx":
                calls.append("%s%d" % (kind, k))
            else:
                calls.append("%s%d:%s" % (kind, k, script(rng, AWAITS, 0, 3)))
        else:
            k = rng.choice(others)
            kind = rng.choice("mfstgG")
            if kind in "gG":
                calls.append("%s%d" % (kind, k))
            else:
                calls.append("%s%d:%s" % (kind, k, script(rng, AWAITS + MUTS + MUTS, 1, 4)))
    return "D %s %s %s" % (rng.choice(["i", "i", "2", "3"]), ",".join(getters), " ".join(calls))


def safe_lookup(rng):
    # handlers of interfaces 0/1 look interfaces 2/3 up; handlers of 2/3 only await
    n = rng.choice([2, 4, 8])
    calls = []
    for _ in range(n):
        if rng.random() < 0.6:
            calls.append("%s%d:%s" % (rng.choice("mfst"), rng.choice([0, 1]), script(rng, AWAITS + MUTS + ["i2", "i3", "i2"], 1, 4)))
        else:
            calls.append("%s%d:%s" % (rng.choice("mf"), rng.choice([2, 3]), script(rng, AWAITS, 0, 2)))
    return "D %s -,-,-,- %s" % (rng.choice(["i", "2"]), " ".join(calls))


def self_remove(rng):
    # a handler removes the very interface it runs on (`r2`, a self-removing Close): from a &mut self handler (the dispatcher holds
    # the interface's write lock), from a &self handler with and without a &mut call queued behind it; also "remove another
    # interface at my own path" (a1 .. r1).  Only method calls; nothing else looks interface k up (no Properties / Introspect /
    # interface() on k), later method calls to k either run or are answered UnknownInterface.
    k = rng.randint(0, 3)
    others = [j for j in range(4) if j != k]
    pre = []
    for _ in range(rng.choice([0, 0, 1, 2, 4])):
        j = k if rng.random() < 0.5 else rng.choice(others)
        pre.append("%s%d:%s" % (rng.choice("mf"), j, script(rng, AWAITS + ["a1", "r1", "a0", "r0"], 0, 3)))
    v = rng.randint(0, 4)
    if v == 0:
        core = ["m%d:%s" % (k, ".".join([rng.choice(AWAITS) for _ in range(rng.randint(0, 2))] + ["r2"]))]
    elif v == 1:
        core = ["f%d:z30.r2" % k, "m%d:%s" % (k, script(rng, AWAITS, 0, 1))]          # a writer queues up behind the reader
    elif v == 2:
        core = ["f%d:%s" % (k, ".".join([rng.choice(AWAITS) for _ in range(rng.randint(0, 2))] + ["r2"]))]
    elif v == 3:
        core = ["m%d:a1.%s.r1.r2" % (k, rng.choice(AWAITS))]                            # another interface at my path, then myself
    else:
        core = ["m%d:z20.r2" % k, "f%d:-" % k, "m%d:y1" % k]                             # readers and writers queued behind the closer
    post = []
    for _ in range(rng.choice([0, 1, 2, 3])):
        j = rng.choice(others) if rng.random() < 0.8 else k
        post.append("%s%d:%s" % (rng.choice("mf"), j, script(rng, AWAITS + ["a0", "r0", "a1"], 0, 2)))
    return "D %s -,-,-,- %s" % (rng.choice(["i", "i", "2", "3"]), " ".join(pre + core + post))


def known_deterministic(rng):
    # a handler holds its interface lock, sleeps, registers; Introspect on the same node in between
    k = rng.randint(0, 3)
    m = rng.choice(MUTS)
    kind = rng.choice("mmsf")
    if kind == "f":
        return "D i -,-,-,- f%d:z30.%s m%d:- x%d" % (k, m, k, k)
    return "D i -,-,-,- %s%d:z30.%s x%d" % (kind, k, m, k)


def known_rare(rng):
    # in the known class, but a deadlock needs a rare schedule (no sleep to line the tasks up)
    k = rng.randint(0, 3)
    m = rng.choice(MUTS)
    pick = rng.randint(0, 2)
    if pick == 0:
        return "D i -,-,-,- f%d:%s x%d" % (k, m, k)
    if pick == 1:
        return "D i -,-,-,- x%d t%d:y1.%s f%d:-" % (k, k, m, k)
    return "D i -,-,-,- x%d m%d:%s" % (k, k, m)


def gen_case(rng, tier, allow_hang):
    """returns (case, expected_to_hang)"""
    r = rng.random()
    if r < 0.12:
        return safe_methods(rng), False
    if r < 0.24:
        return self_remove(rng), False
    if r < 0.50:
        return handlers(rng), False
    if r < 0.68:
        return safe_mixed(rng), False
    if r < 0.75:
        return safe_lookup(rng), False
    if r < 0.85:
        return "L %s %d" % (rng.choice("aad"), rng.randint(1, 5)), False
    if r < 0.88:
        return "L b %d" % rng.randint(1, 4), False
    if r < 0.95:
        return known_rare(rng), False
    if allow_hang:
        return (known_deterministic(rng) if rng.random() < 0.75 else "L c %d" % rng.randint(1, 3)), True
    return handlers(rng), False


def gen(rng, tier):
    total = 230 if tier == "quick" else 12000
    hangs = 0
    cap = 5 if tier == "quick" else 400
    for _ in range(total):
        c, h = gen_case(rng, tier, hangs < cap)
        if h:
            hangs += 1
        yield c


def nontrivial(case, impl_out):
    if case.startswith("L"):
        return True
    w = case.split(" ")
    used = any(any(op and op[0] in "ari" for op in (t.split(":")[1].split(".") if ":" in t else [])) for t in w[3:])
    used = used or any(any(op and op[0] in "ari" for op in g.split(".")) for g in w[2].split(","))
    return used


def classify(case, impl_out):
    v = impl_out.split("#")[0]
    if case.startswith("L"):
        return "L%s:%s" % (case.split(" ")[1], v)
    w = case.split(" ")
    kinds = "".join(sorted({t[0] for t in w[3:]}))
    n = len(w) - 3
    return "D:%s:kinds=%s:calls%s" % (v, kinds, "1" if n == 1 else ("2-4" if n <= 4 else "5+"))


def search(rng, bad_cases):
    for _ in range(400):
        yield gen_case(rng, "thorough", False)[0]


ENABLED = True
LEVEL = "proof"
LEVEL_TEXT = ("Theorems in coq/theories/Properties/C30.v. First clause, on the dispatch model shared with C29 (dispatch task, "
              "dispatch_call_to_iface, ObjectServer::at/remove/interface, Properties::get/set/get_all as repaired by /repo d9501501 — root "
              "guard dropped after the lookup —, Introspectable::introspect as lock scripts over a write-preferring RwLock; handlers = "
              "arbitrary finite scripts; arbitrary scheduler): method AND property handlers that await / register / remove / emit never "
              "deadlock in bursts of method calls and Properties.Get/GetAll/Set (C30_nodeadlock_handlers), and more generally no burst "
              "whose code paths respect one lock order does (C30_nodeadlock_partial; the class is decidable, evaluated on every case, and "
              "a burst outside it must contain Introspect traffic or interface() lookups: C30_known_needs_introspect_or_lookup). The "
              "faithful model still REFUTES the statement for bursts with Introspect traffic: kernel-checked deadlocking runs of a method "
              "handler / a property setter that registers an object while Introspect walks the same node (C30_*_vs_introspect_refuted), "
              "confirmed on the real code (known finding). Second clause, on a start-up model: with on-demand creation a call sent after "
              "at() returned can be dropped (C30_lazy_start_refuted, confirmed); with the builder path, or once the dispatch task has "
              "subscribed, nothing is dropped and every call is taken in order (C30_lazy_start_partial, C30_subscribed_no_more_drops).")
LEVEL_NOTE = ("PARTIAL: two known classes remain (handler_vs_introspect, lazy_start_race); the classes prop_handler_mutates and "
              "method_vs_properties were repaired by /repo d9501501 and their witnesses are now ordinary cases that must pass. "
              "Protocol-level: RwLock semantics and executor fairness are assumed contracts; at() below an ObjectManager and "
              "ObjectManager.GetManagedObjects (same shape as Introspect) are not modelled; object_server().interface() from handlers is "
              "modelled but not demanded by the oracle (the property text does not name it). "
              "Trusted: Coq kernel, the models, harness/hdisp with its 8 s watchdog (re-checked once).")
