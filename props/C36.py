"""C36 — well-known name bookkeeping follows the bus."""
import itertools

ID = "C36"
CRATE = "hbus"
RUN_MODULE = "C36.Run"
TWO_PHASE = True
SHARDS = 16
RUN_TIMEOUT = 1500
RULE = ("histories on a real bus connection (no .p2p()) over an in-memory scripted fake bus (SASL server, Hello, RequestName / "
        "ReleaseName answered as scripted, AddMatch/RemoveMatch acknowledged): steps = request_name_with_flags(name, flags 0..7 "
        "or plain request_name) with the bus's answer if asked in {PrimaryOwner, InQueue, Exists, AlreadyOwner, error reply, "
        "code 9} and 0-2 signals sent right behind the reply, release_name with answer in {Released, NonExistent, NotOwner}, "
        "genuine NameAcquired/NameLost (sender org.freedesktop.DBus), forged ones (sender :1.66, or no sender field), over 2 "
        "names. ALL histories of length <= 3 (quick) / <= 4 (thorough) over one name x {request x allow-replacement or not x 4 "
        "reply codes, release x 2, genuine/forged acquired/lost}; all of length <= 2 over the full two-name alphabet (8 flag "
        "values + plain, 6 answers); sampled length 4-6; random histories of length 30-50, 60% of them played by a coherent bus "
        "(answers and signals a real bus could produce) so that the oracle stays in force to the end. After EVERY step the "
        "executor runs until idle and the view of both names is probed (a further request_name_with_flags(DoNotQueue), which "
        "the bus, if asked, answers Exists); a tenth of the cases probe only at the end. non-trivial = some name was reported "
        "owned or queued at some point and the history has >= 2 steps")
TRUSTED = ["harness hbus: custom Socket whose write half hands every message to the fake bus and whose read half serves the bus's "
           "answers; single-threaded driver ticking Connection::executor() (internal_executor(false))",
           "the probe (request_name_with_flags answered Exists) leaves the name map alone: checked by also running every tenth case "
           "with probes only at the end"]
ASSUMPTIONS = ["one API call or incoming signal at a time; between steps the connection's executor runs until idle",
               "every call the connection makes is answered; AddMatch succeeds; no transport failure",
               "fewer than 64 NameLost signals are buffered for one queued name (capacity of the broadcast channel; beyond it "
               "the socket reader blocks)",
               "ReleaseName is answered with one of its three reply codes",
               "signals sent by the bus BEFORE the RequestName reply of the same call are not scripted (only behind it)"]
PARTIAL = ["C36_status_partial", "C36_request_partial", "C36_release_partial", "C36_release_coherent_partial",
           "C36_conforms_partial", "C36_full_statement_refuted", "C36_lost_unmonitored_refuted",
           "C36_acquired_unmonitored_refuted"]

SIGS = "ALal"


def alphabet_one(i):
    ops = []
    for f in "01":
        for r in "1234":
            ops.append("q%s%s%s" % (i, f, r))
    for r in "12":
        ops.append("r%s%s" % (i, r))
    for s in SIGS:
        ops.append(s + i)
    return ops


def alphabet_full():
    ops = []
    for i in "01":
        for f in "01234567d":
            for r in "1234EG":
                ops.append("q%s%s%s" % (i, f, r))
        for r in "123":
            ops.append("r%s%s" % (i, r))
        for s in "ALalbm":
            ops.append(s + i)
    return ops


def line(ops, every=True):
    return ("N %s " % ("p1" if every else "p0") + " ".join(ops)).strip()


def coherent(rng, n):
    """A history a conforming bus could produce: the bus keeps (state, allow) per name; the connection's memory is assumed
    to agree with it (that is the property), so a request reaches the bus only when the state is N."""
    st = {"0": ["N", False], "1": ["N", False]}
    ops = []
    for _ in range(n):
        i = rng.choice("01")
        s, allow = st[i]
        r = rng.random()
        if r < 0.35:
            f = rng.choice("01234567d")
            fl = 7 if f == "d" else int(f)
            if s == "N":
                ans = rng.choice("1123E")
                post = ""
                if ans == "1":
                    st[i] = ["O", bool(fl & 1)]
                    if fl & 1 and rng.random() < 0.2:
                        post = "+L" + i
                        st[i] = ["N", False]
                elif ans == "2":
                    st[i] = ["Q", bool(fl & 1)]
                    if rng.random() < 0.3:
                        post = "+A" + i
                        st[i][0] = "O"
                ops.append("q%s%s%s%s" % (i, f, ans, post))
            else:
                ops.append("q%s%s%s" % (i, f, rng.choice("1234")))     # answered from memory: the script is not used
        elif r < 0.55:
            if s == "N":
                ops.append("r%s%s" % (i, rng.choice("23")))
            else:
                ops.append("r%s1" % i)
                st[i] = ["N", False]
        elif r < 0.7:
            if s == "Q":
                ops.append("A" + i)
                st[i][0] = "O"
            elif s == "O" and allow:
                ops.append("L" + i)
                st[i] = ["N", False]
            elif s == "O":
                ops.append("A" + i)                                     # harmless repetition
            else:
                ops.append("L" + i)                                     # NameLost for a name not held: no effect
        else:
            ops.append(rng.choice("albm") + i)
    return ops


def gen(rng, tier):
    quick = tier == "quick"
    one = alphabet_one("0")
    full = alphabet_full()
    k = 0
    # 1. exhaustive short histories over one name
    for n in range(0, (3 if quick else 4) + 1):
        for seq in itertools.product(one, repeat=n):
            k += 1
            yield line(seq, k % 10 != 0)
    # 2. exhaustive length <= 2 over the full alphabet (both names, all flag values, all answers)
    for a in full:
        yield line([a])
    for seq in itertools.product(full, repeat=2):
        if quick and rng.random() < 0.5:
            continue
        yield line(seq)
    # 3. sampled: length 4..6 over the two-name reduced alphabet, with signals behind the reply
    two = one + alphabet_one("1")
    for _ in range(6000 if quick else 40000):
        n = rng.randint(4, 6)
        seq = []
        for _ in range(n):
            o = rng.choice(two if rng.random() < 0.8 else full)
            if o[0] == "q" and rng.random() < 0.25:
                for _ in range(rng.randint(1, 2)):
                    o += "+" + rng.choice("ALal") + rng.choice("01")
            seq.append(o)
        yield line(seq, rng.random() < 0.9)
    # 4. long histories
    for _ in range(400 if quick else 4000):
        n = rng.randint(30, 50)
        if rng.random() < 0.6:
            yield line(coherent(rng, n), rng.random() < 0.9)
        else:
            yield line([rng.choice(two if rng.random() < 0.7 else full) for _ in range(n)], rng.random() < 0.9)


def nontrivial(case, impl_out):
    toks = impl_out.split(" ")
    return len(toks) >= 3 and any(("O" in t.split("/")[-1] or "Q" in t.split("/")[-1]) for t in toks)


def classify(case, impl_out):
    w = case.split(" ")[2:]
    n = len(w)
    forged = any(o[0] in "albm" for o in w)
    last = impl_out.split(" ")[-1]
    return "%s:%s:%s" % ("len<=4" if n <= 4 else "len<=6" if n <= 6 else "long", "forged" if forged else "plain", last)


def search(rng, bad_cases):
    # around each disagreeing case: every prefix, and every single-step substitution over the one-name alphabet
    one = alphabet_one("0") + alphabet_one("1")
    for c in bad_cases[:10]:
        w = c.split(" ")[2:]
        for n in range(1, min(len(w), 12) + 1):
            yield line(w[:n])
        for j in range(min(len(w), 6)):
            for o in one:
                yield line(w[:j] + [o] + w[j + 1:6])
    for seq in itertools.product(alphabet_one("0"), repeat=4):
        if rng.random() < 0.2:
            yield line(seq)


ENABLED = True
LEVEL = "proof"
LEVEL_TEXT = ("Theorems in coq/theories/Properties/C36.v about a Gallina mirror of request_name_with_flags / release_name / the "
              "NameAcquired and NameLost monitor tasks (which signals reach them is the model of MatchRule::matches of C21 applied to "
              "the rule the code builds): for EVERY history of requests, releases, bus answers and signals (no bound on length or on "
              "the number of names) outside two explicitly defined classes of bus behaviour, the status the connection reports for "
              "every name equals the bus's last verdict read off the bus's transcript alone, a request is answered from memory "
              "exactly when that verdict is owner/queued, release asks the bus and reports success exactly when the name was held or "
              "queued (and the bus confirms); signals not sent by org.freedesktop.DBus change nothing, at full strength. PARTIAL: the "
              "full statement is refuted by the faithful model (NameLost for a name requested without allow-replacement or still "
              "queued is ignored; NameAcquired for a name the connection is not queued for is ignored - e.g. after being replaced "
              "and re-queued by the bus); both witnesses confirmed on the real code and listed as known findings.")
LEVEL_NOTE = ("Trusted: Coq kernel; the hand-written model, tied to the code by running the real bus-connection code over a scripted "
              "fake bus on ~20k (quick) histories and comparing every API result, what the bus was asked (name, flags) and the "
              "reported status of both names after every step; the assumptions listed (sequential steps with the executor idle in "
              "between, answered calls, channel capacity). The oracle is evaluated on the implementation's own transcript.")
