"""C33 — generated proxies and interfaces agree on the wire (proc-macro property: programs x inputs)."""
import os
import sys

sys.path.insert(0, os.path.dirname(os.path.abspath(__file__)))
import ifacegen  # noqa: E402

ID = "C33"
CRATE = "hiface"
RUN_MODULE = "C33.Run"
RULE = ("interface DESCRIPTIONS: 8 corpus + 12 (thorough: 48) from the seed; for each BOTH a #[zbus::interface] impl and a "
        "#[zbus::proxy] trait (async proxy and blocking proxy) are GENERATED and compiled against /repo; per description 3 (thorough 8) "
        "histories of 16..36 operations on a p2p pair, each through the async or the blocking proxy at random: method calls with "
        "random argument values of the declared types (boundary integers, empty / non-ASCII strings, empty / multi-element arrays and "
        "maps, nested variants, structures), property reads and writes (cache off), signals emitted through the generated emitter and "
        "received through the generated stream + args(); plus per description 2 (thorough 5) PROPERTY HISTORIES PER PROXY INSTANCE: three "
        "persistent proxies (async + default cache, blocking + default cache, CacheProperties::No as control) each read every readable "
        "property (populating the caches), then the value is changed through one of the three, through a fresh proxy or by a raw "
        "Properties.Set, and all three read again — for every EmitsChangedSignal mode; after every op the driver makes every "
        "initialised cache catch up (sentinel PropertiesChanged, polled), so reads do not depend on scheduling. Observed: the value the proxy function returns, the handler log with the "
        "arguments the handler saw, every signal on the wire with its signature. evaluations = operations; non-trivial = a history "
        "that has at least one successful and one failing operation")
TRUSTED = ["the description -> Rust source emitter (props/ifacegen.py): interface and proxy are emitted from the SAME description",
           "harness/hiface; blocking proxies run on a watchdog thread against connections with internal executors",
           "the macros are MODELLED; the tie is the differential run on generated programs"]
ASSUMPTIONS = ["one-shot proxy ops run with the property cache off; persistent proxies use the macro-generated builder defaults (cache on, "
               "false-mode properties uncached); the cache's internals under concurrency and name-owner changes are C31's subject: here "
               "every cache has processed all earlier signals before the next read (the driver synchronises)",
               "values travel unchanged at a given signature (codec: C01/C02); values are abstract here",
               "user code respects its Rust signatures (bh_respects); the destination is the peer's unique name (p2p)",
               "the blocking proxy is the async proxy under block_on: one model for both, both are run"]


def custom_run(pid, tier, seed, replay=None):
    import types
    return ifacegen.run_property(types.SimpleNamespace(**globals()), pid, tier, seed, replay)


ENABLED = True
LEVEL = "proof"
LEVEL_TEXT = ("Theorems in coq/theories/Properties/C33.v over ALL interface descriptions, argument values and handler behaviours: a "
              "proxy method call (model of the generated proxy function over Proxy::call) against the dispatch model of C26 runs the "
              "handler once with exactly the caller's arguments and returns exactly the handler's result or error, for every input list "
              "and every output shape (unit, single incl. structures, tuples incl. 0 and 1 elements) — the two macros' body-signature "
              "conventions compose to the identity (C33_reply_roundtrip); property reads return the stored value; writes store it "
              "(outside one class inherited from C28); through one proxy instance with a populated default cache a read after a successful "
              "write returns the written value for the modes true / invalidates / false (C33_cached_read_after_write; const may keep its "
              "first value); emitted signals arrive with equal arguments. The macros are modelled; the tie is "
              "the differential run of generated interface + proxy pairs, async and blocking.")
LEVEL_NOTE = ("partial for property writes only: refuted when the fallible getter called for the change notification fails (the write "
              "took effect, the proxy returns an error). Method calls, reads and signals are proved at full strength. Trusted: Coq kernel, "
              "the hand-written models of both macros' output and of the proxy's property cache, the emitter, harness hiface. p2p; "
              "sequential, caches synchronised after every op.")
