"""C09 — derived and built-in Type signatures match what is serialized.

The property quantifies over *programs* (Rust type definitions).  A type definition is a `tshape` (coq/theories/C09/Model.v);
this module
  * generates shapes (hand-picked corpus first, then seeded random ones) and values of them,
  * emits harness/hderive/src/gen_types.rs — real Rust types with #[derive(Type, Serialize, Deserialize, ...)] — from the same
    descriptions, compiles it against /repo's zvariant + zvariant_derive, and
  * compares SIGNATURE, the bytes (both byte orders, several offsets), the bytes read back as a dynamic Value under
    SIGNATURE, and the typed round trip with the extracted Coq model (sig_of / sval_of_shape / ser_top) and with the
    specification side (dsig / dval_of_shape / marshal_top).
"""
import json
import os
import random
import shutil
import struct
import sys
import time

import core
from core import log

ID = "C09"
CRATE = "hderive"
RUN_MODULE = "C09.Run"
RULE = ("type definitions: a fixed corpus (every shape constructor, the std/net/time impls, one witness per known class) followed by "
        "seeded random nestings (depth <= 4) of derived structs / tuple structs / newtypes / unit, string and data-carrying enums / "
        "dict-structs over std field types; each compiled against /repo and exercised with boundary-biased random values at "
        "offsets 0..15, both byte orders; non-trivial = the type has at least one container or derived node")
TRUSTED = ["DBus/Ser.v (model of zvariant::dbus::Serializer, proved equal to the specification's marshalling in C01) and DBus/De.v",
           "serde's derive and std Serialize impls, serde_repr: modelled by their documented data-model calls (sval_of_shape)",
           "props/C09.py emitter: shape text -> Rust source (the Rust side is generated from the same description the model parses)"]
ASSUMPTIONS = ["serde derive calls serialize_struct / _tuple_struct / _newtype_struct / _unit_variant / _newtype_variant / "
               "_tuple_variant / _struct_variant as documented in serde's data model; serde_repr serializes the discriminant as the repr type",
               "Option<T> needs the option-as-array feature (without it Option<T> has no D-Bus Type impl and such types do not compile)",
               "strings and chars are nul-free (a D-Bus string cannot carry U+0000); values within the D-Bus nesting limits and 2^32 size",
               "map types are exercised through BTreeMap (HashMap shares the Type impl; its iteration order is not deterministic)"]

PRIMS = ["bool", "u8", "i8", "i16", "u16", "i32", "u32", "i64", "u64", "f32", "f64", "usize", "isize", "char", "str"]
RUST_PRIM = {"bool": "bool", "u8": "u8", "i8": "i8", "i16": "i16", "u16": "u16", "i32": "i32", "u32": "u32", "i64": "i64",
             "u64": "u64", "f32": "f32", "f64": "f64", "usize": "usize", "isize": "isize", "char": "char", "str": "String"}
INT_RANGE = {"u8": (0, 2 ** 8), "i8": (-2 ** 7, 2 ** 7), "i16": (-2 ** 15, 2 ** 15), "u16": (0, 2 ** 16), "i32": (-2 ** 31, 2 ** 31),
             "u32": (0, 2 ** 32), "i64": (-2 ** 63, 2 ** 63), "u64": (0, 2 ** 64), "usize": (0, 2 ** 64), "isize": (-2 ** 63, 2 ** 63)}
KEY_PRIMS = ["bool", "u8", "i16", "u16", "i32", "u32", "i64", "u64", "char", "str", "usize"]
LIB0 = ["dur", "systime", "ip4", "ip6", "sock4", "sock6", "ip"]
LIB1 = ["range", "rangeincl", "rangefrom", "rangeto"]
WRAP1 = ["nt", "wrap", "rev", "box", "cell"]
SEQ1 = ["vec", "deq", "lst"]
RENAMES = ["-", "lowercase", "UPPERCASE", "PascalCase", "camelCase", "snake_case", "kebab-case"]
FIELD_NAMES = ["a", "b", "c", "d", "foo_bar", "x1", "long_field_name", "k", "w_2", "zz"]
VARIANT_NAMES = ["Alpha", "Beta", "GammaRay", "D4", "Echo", "F"]


# ------------------------------------------------------------------ shapes: text form (shared with C09/Run.v)
# a shape is a nested tuple: ("p", prim) | ("unit",) | ("ustruct",) | ("ph", S) | (seq, S) | ("map", K, V) | ("opt", S) |
# ("tup"|"ts", [S]) | ("arr", n, S) | (wrap, S) | ("st", [(name, S)]) | ("uenum", repr|None, [d]) | ("senum", [name]) |
# ("enum", [(kind "u"|"n", [(name, S)])]) | ("dict", rename, [(name, opt, S)]) | (lib0,) | (lib1, S)

def text(sh):
    k = sh[0]
    if k == "p":
        return sh[1]
    if k in ("unit", "ustruct") or k in LIB0:
        return k
    if k in ("ph", "opt") or k in SEQ1 or k in WRAP1 or k in LIB1:
        return k + " " + text(sh[1])
    if k in ("map", "hmap"):
        return "%s %s %s" % (k, text(sh[1]), text(sh[2]))
    if k in ("tup", "ts"):
        return "%s %d %s" % (k, len(sh[1]), " ".join(text(x) for x in sh[1]))
    if k == "arr":
        return "arr %d %s" % (sh[1], text(sh[2]))
    if k == "st":
        return ("st %d %s" % (len(sh[1]), " ".join("%s %s" % (n, text(t)) for n, t in sh[1]))).strip()
    if k == "uenum":
        return "uenum %s %d %s" % (sh[1] or "-", len(sh[2]), " ".join(str(d) for d in sh[2]))
    if k == "senum":
        return "senum %d %s" % (len(sh[1]), " ".join(sh[1]))
    if k == "enum":
        return "enum %d %s" % (len(sh[1]), " ".join(
            "%s %d %s" % (kd, len(fs), " ".join("%s %s" % (n, text(t)) for n, t in fs)) for kd, fs in sh[1]))
    if k == "dict":
        return ("dict %s %d %s" % (sh[1], len(sh[2]), " ".join("%s %d %s" % (n, 1 if o else 0, text(t)) for n, o, t in sh[2]))).strip()
    raise ValueError(sh)


def has_opt(sh):
    return " opt " in (" " + text(sh) + " ")


def nontrivial_shape(sh):
    return sh[0] not in ("p",)


# python mirror of the declared signature, only used to steer the generator (never compared)
def sig(sh):
    k = sh[0]
    if k == "p":
        return {"bool": "b", "u8": "y", "i8": "n", "i16": "n", "u16": "q", "i32": "i", "u32": "u", "i64": "x", "u64": "t", "f32": "d",
                "f64": "d", "usize": "t", "isize": "x", "char": "s", "str": "s"}[sh[1]]
    if k in ("unit", "ustruct"):
        return ""
    if k in ("ph",) or k in WRAP1:
        return sig(sh[1])
    if k in SEQ1 or k == "opt":
        return "a" + sig(sh[1])
    if k in ("map", "hmap"):
        return "a{%s%s}" % (sig(sh[1]), sig(sh[2]))
    if k in ("tup", "ts"):
        return "(" + "".join(sig(x) for x in sh[1]) + ")"
    if k == "arr":
        return "y" if sh[1] == 0 else "(" + sig(sh[2]) * sh[1] + ")"
    if k == "st":
        return "y" if not sh[1] else "(" + "".join(sig(t) for _, t in sh[1]) + ")"
    if k == "uenum":
        return sig(("p", sh[1])) if sh[1] else "u"
    if k == "senum":
        return "s"
    if k == "enum":
        kd, fs = sh[1][-1]
        inner = sig(fs[0][1]) if (kd == "u" and len(fs) == 1) else "(" + "".join(sig(t) for _, t in fs) + ")"
        return "(u" + inner + ")"
    if k == "dict":
        return "a{sv}"
    return {"dur": "(tu)", "systime": "(tu)", "ip4": "(yyyy)", "ip6": "(" + "y" * 16 + ")", "sock4": "((yyyy)q)",
            "sock6": "((" + "y" * 16 + ")q)", "ip": "(uay)", "range": "(%s%s)", "rangeincl": "(%s%s)", "rangefrom": "(%s)",
            "rangeto": "(%s)"}[k] % ((sig(sh[1]),) * (2 if k in ("range", "rangeincl") else 1) if k in LIB1 else ())


# ------------------------------------------------------------------ emitter: shapes -> Rust source
class Emitter:
    def __init__(self):
        self.defs = []
        self.names = {}     # shape text -> Rust type name (identical descriptions share one definition)
        self.count = 0

    def add_def(self, sh, code):
        # Option<T>: Type exists only with option-as-array, so definitions that mention Option are compiled in that configuration only
        self.defs.append(('#[cfg(feature = "oaa")]\n' if has_opt(sh) else "") + code)

    def fresh(self, prefix):
        self.count += 1
        return "%s%d" % (prefix, self.count)

    DERIVE = "#[derive(Type, Serialize, Deserialize, PartialEq)]"

    def ty(self, sh):
        k = sh[0]
        if k == "p":
            return RUST_PRIM[sh[1]]
        if k == "unit":
            return "()"
        if k == "ph":
            return "std::marker::PhantomData<%s>" % self.ty(sh[1])
        if k == "vec":
            return "Vec<%s>" % self.ty(sh[1])
        if k == "deq":
            return "std::collections::VecDeque<%s>" % self.ty(sh[1])
        if k == "lst":
            return "std::collections::LinkedList<%s>" % self.ty(sh[1])
        if k == "map":
            return "std::collections::BTreeMap<%s, %s>" % (self.ty(sh[1]), self.ty(sh[2]))
        if k == "hmap":
            return "std::collections::HashMap<%s, %s>" % (self.ty(sh[1]), self.ty(sh[2]))
        if k == "opt":
            return "Option<%s>" % self.ty(sh[1])
        if k == "tup":
            return "(" + "".join(self.ty(x) + ", " for x in sh[1]) + ")"
        if k == "arr":
            return "[%s; %d]" % (self.ty(sh[2]), sh[1])
        if k == "wrap":
            return "std::num::Wrapping<%s>" % self.ty(sh[1])
        if k == "rev":
            return "std::cmp::Reverse<%s>" % self.ty(sh[1])
        if k == "box":
            return "Box<%s>" % self.ty(sh[1])
        if k == "cell":
            return "std::cell::RefCell<%s>" % self.ty(sh[1])
        if k in LIB0 or k in LIB1:
            inner = self.ty(sh[1]) if k in LIB1 else ""
            return {"dur": "std::time::Duration", "systime": "std::time::SystemTime", "ip4": "std::net::Ipv4Addr",
                    "ip6": "std::net::Ipv6Addr", "sock4": "std::net::SocketAddrV4", "sock6": "std::net::SocketAddrV6",
                    "ip": "std::net::IpAddr", "range": "std::ops::Range<%s>", "rangeincl": "std::ops::RangeInclusive<%s>",
                    "rangefrom": "std::ops::RangeFrom<%s>", "rangeto": "std::ops::RangeTo<%s>"}[k].replace("%s", inner)
        # named (derived) types
        t = text(sh)
        if t in self.names:
            return self.names[t]
        if k == "ustruct":
            name = self.fresh("U")
            self.names[t] = name
            self.add_def(sh, "%s\npub struct %s;" % (self.DERIVE, name))
        elif k == "nt":
            inner = self.ty(sh[1])
            name = self.fresh("W")
            self.names[t] = name
            self.add_def(sh, "%s\npub struct %s(pub %s);" % (self.DERIVE, name, inner))
        elif k == "ts":
            inner = [self.ty(x) for x in sh[1]]
            name = self.fresh("T")
            self.names[t] = name
            self.add_def(sh, "%s\npub struct %s(%s);" % (self.DERIVE, name, ", ".join("pub " + x for x in inner)))
        elif k == "st":
            inner = [(n, self.ty(x)) for n, x in sh[1]]
            name = self.fresh("S")
            self.names[t] = name
            self.add_def(sh, "%s\npub struct %s { %s }" % (self.DERIVE, name, ", ".join("pub %s: %s" % f for f in inner)))
        elif k == "uenum":
            name = self.fresh("N")
            self.names[t] = name
            vs = ", ".join("V%d = %d" % (i, d) for i, d in enumerate(sh[2]))
            if sh[1]:
                self.add_def(sh, "#[repr(%s)]\n#[derive(Type, Serialize_repr, Deserialize_repr, PartialEq)]\npub enum %s { %s }"
                                 % (sh[1], name, vs))
            else:
                self.add_def(sh, "%s\npub enum %s { %s }" % (self.DERIVE, name, vs))
        elif k == "senum":
            name = self.fresh("Q")
            self.names[t] = name
            self.add_def(sh, '%s\n#[zvariant(signature = "s")]\npub enum %s { %s }' % (self.DERIVE, name, ", ".join(sh[1])))
        elif k == "enum":
            vs = []
            for i, (kd, fs) in enumerate(sh[1]):
                if kd == "n":
                    vs.append("V%d { %s }" % (i, ", ".join("%s: %s" % (n, self.ty(x)) for n, x in fs)))
                else:
                    vs.append("V%d(%s)" % (i, ", ".join(self.ty(x) for _, x in fs)))
            name = self.fresh("E")
            self.names[t] = name
            self.add_def(sh, "%s\npub enum %s { %s }" % (self.DERIVE, name, ", ".join(vs)))
        elif k == "dict":
            fs = []
            for n, o, x in sh[2]:
                fs.append("pub %s: %s" % (n, ("Option<%s>" % self.ty(x)) if o else self.ty(x)))
            name = self.fresh("D")
            self.names[t] = name
            attr = 'signature = "dict"' + ("" if sh[1] == "-" else ', rename_all = "%s"' % sh[1])
            self.add_def(sh, "#[derive(Type, SerializeDict, DeserializeDict, PartialEq)]\n#[zvariant(%s)]\npub struct %s { %s }"
                             % (attr, name, ", ".join(fs)))
        else:
            raise ValueError(sh)
        return self.names[t]

    def mk(self, sh):
        """Rust expression that builds a value of the type from the token reader `p` (prefix order)."""
        k = sh[0]
        if k == "p":
            return {"str": "p.string()", "char": "p.ch()"}.get(sh[1], "p.%s()" % sh[1])
        if k == "unit":
            return "()"
        if k == "ustruct":
            return self.ty(sh)
        if k == "ph":
            return "std::marker::PhantomData::<%s>" % self.ty(sh[1])
        if k in SEQ1:
            coll = {"vec": "Vec", "deq": "std::collections::VecDeque", "lst": "std::collections::LinkedList"}[k]
            return "{ let n = p.n(); let mut v = Vec::new(); for _ in 0..n.min(100000) { v.push(%s); } v.into_iter().collect::<%s<_>>() }" % (self.mk(sh[1]), coll)
        if k in ("map", "hmap"):
            coll = "std::collections::BTreeMap" if k == "map" else "std::collections::HashMap"
            return ("{ let n = p.n(); let mut m = %s::new(); for _ in 0..n.min(100000) { let k = %s; let v = %s; m.insert(k, v); } m }"
                    % (coll, self.mk(sh[1]), self.mk(sh[2])))
        if k == "opt":
            return "if p.n() == 0 { None } else { Some(%s) }" % self.mk(sh[1])
        if k == "tup":
            return "(" + "".join(self.mk(x) + ", " for x in sh[1]) + ")"
        if k == "arr":
            if sh[1] == 0:
                return "{ let a: [%s; 0] = []; a }" % self.ty(sh[2])
            return "[" + ", ".join(self.mk(sh[2]) for _ in range(sh[1])) + "]"
        if k == "nt":
            return "%s(%s)" % (self.ty(sh), self.mk(sh[1]))
        if k == "wrap":
            return "std::num::Wrapping(%s)" % self.mk(sh[1])
        if k == "rev":
            return "std::cmp::Reverse(%s)" % self.mk(sh[1])
        if k == "box":
            return "Box::new(%s)" % self.mk(sh[1])
        if k == "cell":
            return "std::cell::RefCell::new(%s)" % self.mk(sh[1])
        if k == "ts":
            return "%s(%s)" % (self.ty(sh), ", ".join(self.mk(x) for x in sh[1]))
        if k == "st":
            return "%s { %s }" % (self.ty(sh), ", ".join("%s: %s" % (n, self.mk(x)) for n, x in sh[1]))
        if k in ("uenum", "senum"):
            name = self.ty(sh)
            vs = ["V%d" % i for i in range(len(sh[2]))] if k == "uenum" else sh[1]
            return "match p.n() { %s _ => { p.bad = true; %s::%s } }" % (
                " ".join("%d => %s::%s," % (i, name, v) for i, v in enumerate(vs)), name, vs[0])
        if k == "enum":
            name = self.ty(sh)
            arms = []
            for i, (kd, fs) in enumerate(sh[1]):
                if kd == "n":
                    arms.append("%d => %s::V%d { %s }," % (i, name, i, ", ".join("%s: %s" % (n, self.mk(x)) for n, x in fs)))
                else:
                    arms.append("%d => %s::V%d(%s)," % (i, name, i, ", ".join(self.mk(x) for _, x in fs)))
            return "match p.n() { %s _ => { p.bad = true; return None } }" % " ".join(arms)
        if k == "dict":
            fs = []
            for n, o, x in sh[2]:
                fs.append("%s: %s" % (n, ("if p.n() == 0 { None } else { Some(%s) }" % self.mk(x)) if o else self.mk(x)))
            return "%s { %s }" % (self.ty(sh), ", ".join(fs))
        if k == "dur":
            return "{ let s = p.u64(); let n = p.u32(); if n >= 1_000_000_000 { p.bad = true; } std::time::Duration::new(s, n % 1_000_000_000) }"
        if k == "systime":
            return ("{ let s = p.u64(); let n = p.u32(); if n >= 1_000_000_000 || s > (1u64 << 40) { p.bad = true; } "
                    "std::time::UNIX_EPOCH + std::time::Duration::new(s % (1u64 << 41), n % 1_000_000_000) }")
        if k == "ip4":
            return "std::net::Ipv4Addr::from([p.u8(), p.u8(), p.u8(), p.u8()])"
        if k == "ip6":
            return "std::net::Ipv6Addr::from([" + ", ".join("p.u8()" for _ in range(16)) + "])"
        if k == "sock4":
            return "{ let a = %s; std::net::SocketAddrV4::new(a, p.u16()) }" % self.mk(("ip4",))
        if k == "sock6":
            return "{ let a = %s; std::net::SocketAddrV6::new(a, p.u16(), 0, 0) }" % self.mk(("ip6",))
        if k == "ip":
            return "if p.n() == 0 { std::net::IpAddr::V4(%s) } else { std::net::IpAddr::V6(%s) }" % (self.mk(("ip4",)), self.mk(("ip6",)))
        if k == "range":
            return "{ let a = %s; let b = %s; a..b }" % (self.mk(sh[1]), self.mk(sh[1]))
        if k == "rangeincl":
            return "{ let a = %s; let b = %s; a..=b }" % (self.mk(sh[1]), self.mk(sh[1]))
        if k == "rangefrom":
            return "{ let a = %s; a.. }" % self.mk(sh[1])
        if k == "rangeto":
            return "{ let b = %s; ..b }" % self.mk(sh[1])
        raise ValueError(sh)


def emit_source(shapes):
    em = Emitter()
    arms = []
    for i, sh in enumerate(shapes):
        ty = em.ty(sh)
        guard = '#[cfg(feature = "oaa")]\n        ' if has_opt(sh) else ""
        arms.append("        %s%d => { let v: %s = %s; if !p.done() { return None; } Some(crate::observe(&v, pos)) }" % (guard, i, ty, em.mk(sh)))
    defs = em.defs
    arms2 = arms
    src = ["// GENERATED by props/C09.py from shape descriptions — do not edit.",
           "use serde::{Deserialize, Serialize};", "use serde_repr::{Deserialize_repr, Serialize_repr};",
           "use zvariant::{DeserializeDict, SerializeDict, Type};", "use crate::Toks;", "",
           "pub const SHAPES: &[&str] = &[" + ", ".join(json.dumps(text(sh)) for sh in shapes) + "];", ""]
    src += [d + "\n" for d in defs]
    src.append("pub fn run(idx: usize, pos: usize, p: &mut Toks) -> Option<String> {\n    match idx {")
    src += arms2
    src.append("        _ => None,\n    }\n}\n")
    return "\n".join(src)


# ------------------------------------------------------------------ values
STRS = ["", "a", "hello", "é", "日本", "x y", "aÿb", "0123456789abcdef0123", "\U0001F600"]
CHARS = ["a", "Z", "é", "日", "\U0001F600", "~", "\x01"]


def f64_bits(x):
    return struct.unpack("<Q", struct.pack("<d", x))[0]


def gen_prim(rng, p):
    if p == "bool":
        return [str(rng.randint(0, 1))]
    if p in INT_RANGE:
        lo, hi = INT_RANGE[p]
        c = rng.random()
        if c < 0.35:
            v = rng.choice([lo, hi - 1, 0, 1, min(hi - 1, 255), min(hi - 1, 256), lo + 1, hi - 2])
        elif c < 0.7:
            v = rng.randint(max(lo, -300), min(hi - 1, 300))
        else:
            v = rng.randint(lo, hi - 1)
        return [str(v)]
    if p == "f64":
        v = rng.choice([0.0, -0.0, 1.5, -2.25, 1e300, 5e-324, float("inf"), float("-inf"), rng.uniform(-1e6, 1e6)])
        return ["%016x" % f64_bits(v)]
    if p == "f32":
        f = struct.unpack("<f", struct.pack("<I", rng.choice([0, 0x80000000, 0x3fc00000, 0x7f800000, 0xff800000, 1, 0x00800000, 0x7f7fffff,
                                                            rng.randint(0, 0x7f7fffff), 0x80000000 | rng.randint(0, 0x7f7fffff)])))[0]
        return ["%016x" % f64_bits(f)]
    if p == "str":
        s = rng.choice(STRS) if rng.random() < 0.7 else "".join(rng.choice("abcXYZ09_é日 ") for _ in range(rng.randint(0, 12)))
        return [s.encode("utf8").hex() or "-"]
    if p == "char":
        return [rng.choice(CHARS).encode("utf8").hex()]
    raise ValueError(p)


def key_sort(p, toks):
    if p in ("str", "char"):
        return bytes.fromhex(toks[0]) if toks[0] != "-" else b""
    return int(toks[0])


def gen_value(rng, sh, big=False):
    """token list of a random value of the shape; `big`: long sequences (33..40 elements) where the shape has a known defect"""
    k = sh[0]
    if k == "p":
        return gen_prim(rng, sh[1])
    if k in ("unit", "ustruct", "ph"):
        return []
    if k in SEQ1:
        n = rng.choice([0, 1, 2, 2, 3, 5]) if not big else rng.choice([2, 33, 40])
        out = [str(n)]
        for _ in range(n):
            out += gen_value(rng, sh[1], False)
        return out
    if k in ("map", "hmap"):
        n = rng.choice([0, 1, 2, 3]) if not big else rng.choice([2, 34])
        if k == "hmap":
            n = min(n, 1)
        keys = {}
        for _ in range(n * 3):
            if len(keys) >= n:
                break
            kt = gen_value(rng, sh[1])
            keys[" ".join(kt)] = kt
        ks = sorted(keys.values(), key=lambda t: key_sort(prim_of_key(sh[1]), t))
        out = [str(len(ks))]
        for kt in ks:
            out += kt + gen_value(rng, sh[2], False)
        return out
    if k == "opt":
        return ["0"] if rng.random() < 0.3 else ["1"] + gen_value(rng, sh[1], big)
    if k in ("tup", "ts"):
        return [t for x in sh[1] for t in gen_value(rng, x, big)]
    if k == "arr":
        return [t for _ in range(sh[1]) for t in gen_value(rng, sh[2], big)]
    if k in WRAP1:
        return gen_value(rng, sh[1], big)
    if k == "st":
        return [t for _, x in sh[1] for t in gen_value(rng, x, big)]
    if k == "uenum":
        return [str(rng.randrange(len(sh[2])))]
    if k == "senum":
        return [str(rng.randrange(len(sh[1])))]
    if k == "enum":
        i = rng.randrange(len(sh[1]))
        return [str(i)] + [t for _, x in sh[1][i][1] for t in gen_value(rng, x, big)]
    if k == "dict":
        out = []
        for _, o, x in sh[2]:
            if o:
                out += ["0"] if rng.random() < 0.4 else ["1"] + gen_value(rng, x, big)
            else:
                out += gen_value(rng, x, big)
        return out
    if k == "dur":
        return [gen_prim(rng, "u64")[0], str(rng.choice([0, 1, 999999999, rng.randint(0, 999999999)]))]
    if k == "systime":
        return [str(rng.choice([0, 1, 1700000000, rng.randint(0, 2 ** 40)])), str(rng.choice([0, 999999999, rng.randint(0, 999999999)]))]
    if k == "ip4":
        return [gen_prim(rng, "u8")[0] for _ in range(4)]
    if k == "ip6":
        return [gen_prim(rng, "u8")[0] for _ in range(16)]
    if k == "sock4":
        return gen_value(rng, ("ip4",)) + gen_prim(rng, "u16")
    if k == "sock6":
        return gen_value(rng, ("ip6",)) + gen_prim(rng, "u16")
    if k == "ip":
        return ["0"] + gen_value(rng, ("ip4",)) if rng.random() < 0.5 else ["1"] + gen_value(rng, ("ip6",))
    if k in ("range", "rangeincl"):
        return gen_value(rng, sh[1]) + gen_value(rng, sh[1])
    if k in ("rangefrom", "rangeto"):
        return gen_value(rng, sh[1])
    raise ValueError(sh)


def prim_of_key(sh):
    while sh[0] in WRAP1:
        sh = sh[1]
    return sh[1]


# ------------------------------------------------------------------ shape generator
def P(p):
    return ("p", p)


def names(rng, n):
    return rng.sample(FIELD_NAMES, n)


def gen_plain(rng, depth):
    """a shape inside the proved fragment that leaves the serializer's cursor and depth intact (no bare data enum)"""
    c = rng.random()
    if depth <= 0 or c < 0.25:
        return P(rng.choice(PRIMS))
    if c < 0.33:
        return (rng.choice(SEQ1), gen_plain(rng, depth - 1))
    if c < 0.40:
        return ("map", P(rng.choice(KEY_PRIMS)), gen_mapval(rng, depth - 1))
    if c < 0.46:
        return ("opt", gen_plain(rng, depth - 1))
    if c < 0.54:
        return (rng.choice(["tup", "ts"]), [gen_field(rng, depth - 1) for _ in range(rng.randint(2, 4))])
    if c < 0.58:
        return ("arr", rng.randint(0, 3), gen_field(rng, depth - 1))
    if c < 0.64:
        return (rng.choice(WRAP1), gen_plain(rng, depth - 1))
    if c < 0.76:
        n = rng.choice([0, 1, 2, 2, 3, 4])
        return ("st", list(zip(names(rng, n), [gen_field(rng, depth - 1) for _ in range(n)])))
    if c < 0.82:
        r = rng.choice([None, None, "u8", "u16", "u32", "u64", "i8", "i16", "i32", "i64"])
        n = rng.randint(1, 4)
        if r:
            lo, hi = INT_RANGE[r]
            ds = sorted(rng.sample(range(max(lo, -1000), min(hi, 1000)), n))
            if rng.random() < 0.3:
                ds[-1] = hi - 1
        else:
            ds = sorted(rng.sample(range(0, 50), n))
        return ("uenum", r, ds)
    if c < 0.86:
        return ("senum", rng.sample(VARIANT_NAMES, rng.randint(1, 4)))
    if c < 0.93:
        n = rng.randint(0, 4)
        return ("dict", rng.choice(RENAMES), [dict_field(nm, rng.random() < 0.4, gen_field(rng, depth - 1)) for nm in names(rng, n)])
    if c < 0.97:
        return (rng.choice(LIB0[:-1]),)
    return (rng.choice(LIB1), P(rng.choice(["u8", "u16", "u32", "i64", "u64"])))


def dict_field(nm, o, t):
    # the derive decides "optional" by the field's type: a field of type Option<T> is an optional field with payload T
    return (nm, True, t[1]) if (t[0] == "opt" and not o) else (nm, o, t)


def gen_enum(rng, depth):
    """a data-carrying enum inside the fragment"""
    n = rng.randint(1, 3)
    if rng.random() < 0.4:
        # newtype variants, payload without a STRUCT signature
        for _ in range(20):
            pay = gen_plain(rng, depth - 1)
            if not sig(pay).startswith("(") and sig(pay) != "":
                break
        else:
            pay = P("u32")
        return ("enum", [("u", [("_", pay)]) for _ in range(n)])
    m = rng.randint(1, 3)
    fs = [gen_field(rng, depth - 1) for _ in range(m)]
    nm = names(rng, m)
    vs = []
    for _ in range(n):
        if m >= 2 and rng.random() < 0.5:
            vs.append(("u", [("_", f) for f in fs]))
        else:
            vs.append(("n", list(zip(nm, fs))))
    return ("enum", vs)


def gen_field(rng, depth):
    """a field position (its own sub-serializer): anything of the fragment"""
    c = rng.random()
    if depth > 0 and c < 0.18:
        return gen_enum(rng, depth)
    if depth > 0 and c < 0.22:
        return ("ip",)
    if depth > 0 and c < 0.25:
        return ("nt", gen_enum(rng, depth - 1))
    if depth > 0 and c < 0.28:
        return ("opt", gen_enum(rng, depth - 1))
    return gen_plain(rng, depth)


def gen_mapval(rng, depth):
    """a map value: may be an enum with tuple/struct variants (the cursor is reset per value), not one with newtype variants"""
    if depth > 0 and rng.random() < 0.2:
        for _ in range(10):
            e = gen_enum(rng, depth)
            if sig(e)[2:3] == "(":
                return e
    return gen_plain(rng, depth)


def gen_known(rng, depth):
    """type definitions of the known-defect classes"""
    c = rng.randrange(7)
    if c == 0:      # newtype variant over a STRUCT-signature payload
        pay = rng.choice([("st", [("a", P("u8")), ("b", P("u8"))]), ("tup", [P("u32"), P("str")]), ("dur",),
                          ("enum", [("u", [("_", P("u32"))])]), ("st", [("a", P("u32")), ("b", P("str"))])])
        return ("enum", [("u", [("_", pay)]) for _ in range(rng.randint(1, 2))])
    if c == 1:      # enum with tuple/struct variants as sequence element
        e = gen_enum(rng, depth)
        for _ in range(10):
            if sig(e)[2:3] == "(":
                break
            e = gen_enum(rng, depth)
        return (rng.choice(SEQ1), e if rng.random() < 0.7 else ("nt", e))
    if c == 2:      # newtype-variant enum / IpAddr as element or map value
        e = rng.choice([("ip",), ("enum", [("u", [("_", P("u32"))]), ("u", [("_", P("u32"))])]),
                        ("opt", ("enum", [("u", [("_", P("str"))])]))])
        return rng.choice([("vec", e), ("map", P("u8"), e), ("st", [("a", ("vec", e)), ("b", P("u8"))])])
    if c == 3:
        return rng.choice([("vec", ("unit",)), ("opt", ("unit",)), ("vec", ("ustruct",)), ("st", [("a", ("unit",))]),
                           ("map", P("u8"), ("unit",)), ("tup", [("unit",)])])
    if c == 4:
        return rng.choice([("st", [("a", P("u32")), ("p", ("ph", P("u64")))]), ("ph", P("u32")), ("vec", ("ph", P("u8")))])
    if c == 5:
        return ("st", [("a", ("vec", gen_known(rng, depth - 1) if depth > 0 else ("vec", ("ip",)))), ("b", P("u8"))])
    return ("vec", ("ip",))


CORPUS_SHAPES = (
    [P(p) for p in PRIMS] +
    [("vec", P("u8")), ("deq", P("str")), ("lst", P("i64")), ("vec", ("vec", P("u16"))), ("map", P("str"), P("u32")),
     ("map", P("u8"), ("vec", P("str"))), ("hmap", P("u32"), P("str")), ("opt", P("u8")), ("opt", ("opt", P("str"))),
     ("tup", [P("u8")]), ("tup", [P("u8"), P("str"), P("u64")]), ("ts", [P("u8"), P("i64")]), ("arr", 0, P("u8")), ("arr", 3, P("u16")),
     ("nt", P("u32")), ("nt", ("nt", P("str"))), ("wrap", P("u16")), ("rev", P("i32")), ("box", P("str")), ("cell", P("u64")),
     ("st", []), ("st", [("a", P("u32")), ("b", P("str"))]), ("st", [("a", P("u8")), ("b", ("st", [("c", P("u64"))])), ("d", P("u8"))]),
     ("st", [("a", ("st", [])), ("b", P("u32"))]), ("vec", ("st", [])),
     ("uenum", None, [5, 9]), ("uenum", "u8", [1, 200]), ("uenum", "i64", [-5, 7]), ("uenum", "u16", [0, 65535]), ("uenum", "i8", [-128, 127]),
     ("senum", ["Alpha", "Beta"]), ("vec", ("senum", ["Alpha", "Beta"])), ("map", P("str"), ("uenum", "u8", [1, 2])),
     ("enum", [("u", [("_", P("u32"))]), ("u", [("_", P("u32"))])]), ("enum", [("u", [("_", P("f64"))])]),
     ("enum", [("u", [("_", ("vec", P("str")))]), ("u", [("_", ("vec", P("str")))])]),
     ("enum", [("u", [("_", P("u16")), ("_", P("i64")), ("_", P("str"))]), ("n", [("a", P("u16")), ("b", P("i64")), ("c", P("str"))])]),
     ("enum", [("n", [("x", P("u32"))])]),
     ("st", [("e", ("enum", [("u", [("_", P("u32")), ("_", P("u32"))])])), ("f", ("enum", [("u", [("_", P("u32"))])])), ("z", P("u8"))]),
     ("vec", ("st", [("e", ("enum", [("u", [("_", P("u32")), ("_", P("u32"))])])), ("f", ("enum", [("u", [("_", P("u32"))])])), ("z", P("u8"))])),
     ("map", P("u8"), ("enum", [("u", [("_", P("u32")), ("_", P("u32"))]), ("n", [("x", P("u32")), ("y", P("u32"))])])),
     ("opt", ("enum", [("u", [("_", P("u32")), ("_", P("u32"))])])), ("opt", ("enum", [("u", [("_", P("u32"))])])),
     ("tup", [("enum", [("u", [("_", P("u32")), ("_", P("u32"))])]), P("u8")]),
     ("enum", [("u", [("_", ("enum", [("u", [("_", P("u8"))])])), ("_", P("u8"))])]),
     ("dict", "-", [("a", False, P("u32")), ("b_c", False, P("str")), ("o", True, P("u8"))]),
     ("dict", "PascalCase", [("foo_bar", False, P("u32")), ("e", False, ("enum", [("u", [("_", P("u32")), ("_", P("u32"))])])),
                             ("v", True, ("vec", P("str")))]),
     ("dict", "camelCase", [("foo_bar", True, P("i16"))]), ("dict", "kebab-case", [("foo_bar", False, P("bool"))]),
     ("dict", "UPPERCASE", [("foo_bar", False, P("char"))]), ("dict", "snake_case", [("x1", False, ("dict", "-", [("a", False, P("u8"))]))]),
     ("dict", "-", []), ("vec", ("dict", "lowercase", [("k", True, P("u64"))])),
     ("dur",), ("systime",), ("ip4",), ("ip6",), ("sock4",), ("sock6",), ("ip",), ("range", P("u32")), ("rangeincl", P("u16")),
     ("rangefrom", P("u8")), ("rangeto", P("i64")), ("st", [("t", ("dur",)), ("a", ("ip",)), ("s", ("sock4",))]), ("vec", ("dur",)),
     ("map", P("str"), ("sock6",)),
     # one witness per known class
     ("enum", [("u", [("_", ("st", [("a", P("u32")), ("b", P("str"))]))])]), ("enum", [("u", [("_", ("st", [("a", P("u8")), ("b", P("u8"))]))])]),
     ("enum", [("u", [("_", ("tup", [P("u32"), P("u32")]))])]),
     ("vec", ("enum", [("u", [("_", P("u32")), ("_", P("u32"))]), ("n", [("x", P("u32")), ("y", P("u32"))])])),
     ("vec", ("nt", ("enum", [("u", [("_", P("u32")), ("_", P("u32"))])]))),
     ("vec", ("enum", [("u", [("_", P("u32"))]), ("u", [("_", P("u32"))])])), ("map", P("u8"), ("enum", [("u", [("_", P("u32"))])])),
     ("vec", ("opt", ("enum", [("u", [("_", P("u32"))])]))), ("vec", ("ip",)),
     ("vec", ("unit",)), ("vec", ("ustruct",)), ("opt", ("unit",)), ("st", [("a", ("unit",))]),
     ("st", [("a", P("u32")), ("p", ("ph", P("u64")))]), ("ph", P("u32")),
     ])


def gen_shapes(rng, n_random):
    shapes = list(CORPUS_SHAPES)
    seen = {text(s) for s in shapes}
    tries = 0
    while len(shapes) < len(CORPUS_SHAPES) + n_random and tries < n_random * 20:
        tries += 1
        c = rng.random()
        d = rng.choice([1, 2, 2, 3, 3, 4])
        sh = gen_known(rng, d) if c < 0.12 else (gen_field(rng, d) if c < 0.6 else gen_plain(rng, d))
        t = text(sh)
        if t in seen or len(t) > 600:
            continue
        seen.add(t)
        shapes.append(sh)
    return shapes


def is_known_shape(sh):
    t = " " + text(sh) + " "
    return " unit " in t or " ustruct " in t or " ph " in t


def cases_for(rng, shapes, per_shape):
    out = []
    for i, sh in enumerate(shapes):
        oaa_only = has_opt(sh)
        for j in range(per_shape):
            big = (j % 3 == 2)
            vt = gen_value(rng, sh, big)
            pos = rng.choice([0, 0, 1, 2, 3, 4, 5, 6, 7, 8, 9, 12, 15, 4294967301]) if j else 0
            out.append((i, oaa_only, "%d %d | %s | %s" % (i, pos, text(sh), " ".join(vt))))
    return out


# ------------------------------------------------------------------ the run
def split3(line):
    parts = line.split("\t")
    while len(parts) < 3:
        parts.append("-")
    return parts[0], parts[1], parts[2]


def fields(obs):
    return dict(x.split("=", 1) for x in obs.split(";") if "=" in x)


def agree(impl, model):
    """correspondence: everything equal; the typed round trip is only predicted inside the proved fragment (R=? otherwise)"""
    if impl == model:
        return True
    a, b = fields(impl), fields(model)
    if not a or not b or set(a) != set(b):
        return False
    return all(a[k] == b[k] or (k == "R" and b[k] == "?") for k in a)


def build_batch(shapes, tag, configs=("o", "-")):
    """emit gen_types.rs for the batch, build both configurations, keep copies of the binaries"""
    src = emit_source(shapes)
    path = os.path.join(core.HARNESS, CRATE, "src", "gen_types.rs")
    old = open(path).read() if os.path.exists(path) else None
    if old != src:
        open(path, "w").write(src)
    bins = {}
    errs = {}
    outdir = os.path.join(core.BUILD, "c09")
    os.makedirs(outdir, exist_ok=True)
    for cfg in configs:
        feats = ["oaa"] if cfg == "o" else None
        b, err = core.cargo_build(CRATE, "debug", feats)
        if b is None:
            errs[cfg] = err
            continue
        dst = os.path.join(outdir, "hderive_%s_%s" % (tag, "oaa" if cfg == "o" else "default"))
        shutil.copy(b, dst)
        bins[cfg] = dst
    return bins, errs


def custom_run(pid, tier, seed, replay=None):
    t0 = time.time()
    rng = random.Random(seed)
    # the proofs / extraction run while cargo compiles the first batch of generated types
    from concurrent.futures import ThreadPoolExecutor
    pool = ThreadPoolExecutor(max_workers=1)
    fut = pool.submit(lambda: (core.coq_check(pid, thorough=(tier == "thorough")), core.model_build(pid, RUN_MODULE)))
    coq = zmodel = None
    merr = ""
    kf = core.known_findings(pid)
    known_classes = {e["class"] for e in kf if e.get("status") == "known"}
    problems, tool_errors = [], []
    configs = ("o",) if tier == "quick" else ("o", "-")

    # ---- batches of type definitions
    batches = []
    if replay:
        rp = json.load(open(replay))
        lines = [x["case"] if isinstance(x, dict) else x for x in rp.get("cases", [])] or ([rp["case"]] if "case" in rp else [])
        batches.append(("replay", None, lines))
    else:
        nb = 1 if tier == "quick" else 5
        for b in range(nb):
            shapes = gen_shapes(rng, 40 if tier == "quick" else 90) if b == 0 else \
                [s for s in gen_shapes(rng, 110)[len(CORPUS_SHAPES):]]
            batches.append(("b%d" % b, shapes, None))

    disagreements, violations, known_hits = [], [], {}
    dist, nontrivial, samples, per_config = {}, set(), [], []
    total_cases = total_evals = n_shapes = 0
    witness_lines = [e["case"] for e in kf if "case" in e]
    all_model = []
    all_cases = []
    for tag, shapes, lines in batches:
        if shapes is None:
            # replay: rebuild the type definitions from the descriptions inside the case lines
            shapes, remap = [], {}
            new_lines = []
            for ln in lines:
                w = ln.split(" ")
                try:
                    b1 = w.index("|")
                    b2 = w.index("|", b1 + 1)
                except ValueError:
                    tool_errors.append("unparsable replay line %r" % ln)
                    continue
                st = " ".join(w[b1 + 1:b2])
                if st not in remap:
                    remap[st] = len(shapes)
                    shapes.append(parse_text(st))
                new_lines.append((remap[st], " opt " in " " + st + " ", "%d %s | %s | %s" % (remap[st], w[b1 - 1], st, " ".join(w[b2 + 1:]))))
            cases = new_lines
        else:
            per = 6 if tier == "quick" else 10
            cases = cases_for(rng, shapes, per)
            if tag == "b0":
                # witnesses of the known findings and corpus lines ride on the first batch (their shapes are in the corpus)
                idx = {text(s): i for i, s in enumerate(shapes)}
                extra = witness_lines + corpus_lines()
                for ln in extra:
                    w = ln.split(" ")
                    try:
                        b1 = w.index("|")
                        b2 = w.index("|", b1 + 1)
                    except ValueError:
                        continue
                    st = " ".join(w[b1 + 1:b2])
                    if st not in idx:
                        idx[st] = len(shapes)
                        shapes.append(parse_text(st))
                    cases.insert(0, (idx[st], " opt " in " " + st + " ", "%d %s | %s | %s" % (idx[st], w[b1 - 1], st, " ".join(w[b2 + 1:]))))
        n_shapes += len(shapes)
        bins, errs = build_batch(shapes, tag, configs)
        if coq is None:
            coq, (zmodel, merr) = fut.result()
            if not coq["ok"]:
                problems.append({"kind": "proof", "theorem": coq.get("failed_at"), "log": coq["log"][-1500:], "audit": coq["audit"]})
            if zmodel is None:
                problems.append({"kind": "proof", "theorem": "model does not build/extract", "log": merr[-1500:]})
        for cfg, err in errs.items():
            problems.append({"kind": "correspondence", "theorem": "generated types (batch %s, config %s) do not build against /repo" % (tag, cfg),
                             "log": err[-2500:]})
        if zmodel is None:
            continue
        for cfg in configs:
            if cfg not in bins:
                continue
            sel = [ln for (_, oaa_only, ln) in cases if cfg == "o" or not oaa_only]
            full = ["%s %s" % (cfg, ln) for ln in sel]
            # canonical case text (what replay files and known_findings carry): "<cfg> <idx> <pos> | shape | values"
            mo = core.run_lines(zmodel, full)
            io = core.run_lines(bins[cfg], full)
            if any(x.startswith("BADCASE") for x in mo):
                tool_errors.append("model rejected case syntax: %r" % [c for c, x in zip(full, mo) if x.startswith("BADCASE")][:2])
            if any(x.startswith("BADCASE") for x in io):
                tool_errors.append("harness rejected case syntax: %r" % [c for c, x in zip(full, io) if x.startswith("BADCASE")][:2])
            d_n = v_n = 0
            for c, m3, i in zip(full, mo, io):
                m, s, k = split3(m3)
                if not agree(i, m):
                    disagreements.append({"case": c, "impl": i, "model": m, "spec": s, "class": k, "config": cfg})
                    d_n += 1
                if s != "-" and i != s:
                    if k != "-" and k in known_classes:
                        known_hits.setdefault(k, []).append(c)
                    else:
                        violations.append({"case": c, "impl": i, "model": m, "spec": s, "class": k, "config": cfg})
                        v_n += 1
                shape_txt = c.split(" | ")[1]
                head = shape_txt.split(" ")[0]
                key = "%s:%s:%s" % (head, "known" if k != "-" else "ok", "enc" if ";L=ERR" not in i and ";L=PANIC" not in i else "fail")
                dist[key] = dist.get(key, 0) + 1
                if head not in PRIMS:
                    nontrivial.add(c.split(" ", 2)[2])
            per_config.append({"config": "%s/%s" % (tag, "oaa" if cfg == "o" else "default"), "cases": len(full),
                               "disagreements": d_n, "violations": v_n})
            total_evals += len(full)
            if cfg == "o":
                total_cases += len(full)
                all_cases += full
                all_model += mo
            if not samples:
                step = max(1, len(full) // 6)
                samples = [{"case": c, "impl": i, "model_spec_class": m} for c, i, m in list(zip(full, io, mo))[::step][:8]]
    if coq is None:
        coq, (zmodel, merr) = fut.result()
    # extraction vs in-Coq evaluation on a sample
    if zmodel is not None and all_cases:
        short = [(c, m) for c, m in zip(all_cases, all_model) if len(c) < 250 and len(m) < 1200]
        pick = rng.sample(short, min(6 if tier == "quick" else 30, len(short)))
        okx, outx = core.vm_crosscheck(pid, RUN_MODULE, [c for c, _ in pick], [m for _, m in pick])
        if not okx:
            tool_errors.append("extracted model and vm_compute disagree on the sample: " + outx[-400:])

    known_lines = []
    for e in kf:
        if e.get("status") != "known":
            continue
        hits = known_hits.get(e["class"], [])
        if hits:
            known_lines.append("KNOWN-FINDING: property=%s %s [class %s, e.g. case %r, %d case(s) this run]" %
                               (pid, e["what_fails"], e["class"], e.get("case", hits[0]), len(hits)))

    p_ok = coq["ok"] and zmodel is not None
    c_ok = not disagreements and not [p for p in problems if p["kind"] == "correspondence"]
    o_ok = not violations
    status, replay_path = 0, None
    if violations:
        status = 1
        v0 = min(violations, key=lambda v: len(v["case"]))
        replay_path = core.write_replay(pid, seed, {"property": pid, "tier": tier, "seed": seed, "kind": "spec-violation",
                                                    "case": v0["case"], "impl": v0["impl"], "model": v0["model"], "spec": v0["spec"],
                                                    "config": v0.get("config"), "cases": [x["case"] for x in violations[:20]]})
    elif not p_ok or not c_ok:
        status = 1
        replay_path = core.write_replay(pid, seed, {
            "property": pid, "tier": tier, "seed": seed, "kind": "proof" if not p_ok else "correspondence",
            "theorem": [p.get("theorem") for p in problems], "problems": problems[:5],
            "cases": disagreements[:20],
            "note": "no failing input found; the theorem/correspondence named here no longer checks"})

    theorems = coq["theorems"]
    ev = {
        "property_id": pid, "tier": tier, "seed": seed, "level": LEVEL, "wall_s": round(time.time() - t0, 2),
        "violations": len(violations) + (1 if status and not violations else 0),
        "coverage": {
            "obligations": len(theorems) + 1, "discharged": (len(theorems) + 1) if coq["ok"] else 0, "theorems": theorems,
            "partial_or_refuted": [t for t in theorems if t.endswith("_partial") or t.endswith("_refuted")],
            "axioms_reported": coq["axioms"], "closed_under_global_context": coq.get("closed", 0), "audit_hits": coq["audit"],
            "checker_cmd": coq["checker_cmd"],
            "trusted_base": ["Coq 8.16.1 kernel (vm_compute used in the witness lemmas; no native_compute)",
                             "extraction (ExtrOcamlBasic only) + model/driver.ml, cross-checked by in-Coq vm_compute on a sample",
                             "hand-written model tied to /repo by the differential correspondence below"] + TRUSTED,
            "evaluations": total_evals, "generated": total_cases, "type_definitions_compiled": n_shapes, "programs": n_shapes,
            "distinct_nontrivial": len(nontrivial), "rule": RULE,
            "samples": samples if samples else [{"note": "no case could be run"}],
            "distribution": dist, "per_config": per_config, "disagreements_checked": len(disagreements),
            "known_class_hits": {k: len(v) for k, v in known_hits.items()}, "search_extra_cases": 0, "tool_errors": tool_errors,
        },
        "assumptions": ASSUMPTIONS,
    }
    core.write_evidence(pid, ev)
    for ln in known_lines:
        print(ln)
    log("[%s] tier=%s seed=%s types=%d cases=%d evals=%d P_ok=%s C_ok=%s O_ok=%s theorems=%d axioms=%s wall=%.1fs" %
        (pid, tier, seed, n_shapes, total_cases, total_evals, p_ok, c_ok, o_ok, len(theorems), coq["axioms"], time.time() - t0))
    for te in tool_errors:
        log("TOOL-ERROR:", te)
    if status:
        for p in problems[:3]:
            log("PROBLEM:", p.get("kind"), p.get("theorem"), "\n", (p.get("log") or "")[-1500:])
        for d in disagreements[:5]:
            log("DISAGREE:", d)
        for v in violations[:5]:
            log("VIOLATES:", v)
        print("VIOLATION property=%s replay=%s%s" % (pid, replay_path, "" if violations else " no-failing-input-found"))
        return 1
    if tool_errors:
        return 2
    return 0


def corpus_lines():
    d = os.path.join(core.ROOT, "corpus", ID)
    out = []
    if os.path.isdir(d):
        for f in sorted(os.listdir(d)):
            if f.endswith(".txt"):
                for ln in open(os.path.join(d, f)):
                    ln = ln.rstrip("\n")
                    if ln and not ln.startswith("#"):
                        out.append(ln)
    return out


# ------------------------------------------------------------------ shape text -> shape (for replay / corpus / witnesses)
def parse_text(t):
    toks = t.split(" ")
    sh, rest = _parse(toks)
    if rest:
        raise ValueError("trailing tokens in shape %r" % t)
    return sh


def _parse(ts):
    t, r = ts[0], ts[1:]
    if t in PRIMS:
        return P(t), r
    if t in ("unit", "ustruct") or t in LIB0:
        return (t,), r
    if t in ("ph", "opt") or t in SEQ1 or t in WRAP1 or t in LIB1:
        s, r = _parse(r)
        return (t, s), r
    if t in ("map", "hmap"):
        k, r = _parse(r)
        v, r = _parse(r)
        return (t, k, v), r
    if t in ("tup", "ts"):
        n, r = int(r[0]), r[1:]
        l = []
        for _ in range(n):
            s, r = _parse(r)
            l.append(s)
        return (t, l), r
    if t == "arr":
        n, r = int(r[0]), r[1:]
        s, r = _parse(r)
        return ("arr", n, s), r
    if t == "st":
        n, r = int(r[0]), r[1:]
        l = []
        for _ in range(n):
            nm, r = r[0], r[1:]
            s, r = _parse(r)
            l.append((nm, s))
        return ("st", l), r
    if t == "uenum":
        rp, n, r = r[0], int(r[1]), r[2:]
        return ("uenum", None if rp == "-" else rp, [int(x) for x in r[:n]]), r[n:]
    if t == "senum":
        n, r = int(r[0]), r[1:]
        return ("senum", r[:n]), r[n:]
    if t == "enum":
        n, r = int(r[0]), r[1:]
        vs = []
        for _ in range(n):
            kd, m, r = r[0], int(r[1]), r[2:]
            fs = []
            for _ in range(m):
                nm, r = r[0], r[1:]
                s, r = _parse(r)
                fs.append((nm, s))
            vs.append((kd, fs))
        return ("enum", vs), r
    if t == "dict":
        rn, n, r = r[0], int(r[1]), r[2:]
        fs = []
        for _ in range(n):
            nm, o, r = r[0], r[1] == "1", r[2:]
            s, r = _parse(r)
            fs.append((nm, o, s))
        return ("dict", rn, fs), r
    raise ValueError("unknown shape token %r" % t)


ENABLED = True
LEVEL = "proof"
PARTIAL = ["C09_partial", "C09_full_statement_refuted", "C09_newtype_variant_struct_payload_refuted", "C09_enum_in_seq_signature_refuted",
           "C09_newtype_variant_depth_leak_refuted", "C09_ipaddr_depth_leak_refuted", "C09_unit_in_container_refuted",
           "C09_phantom_data_refuted"]
LEVEL_TEXT = ("Theorems in coq/theories/Properties/C09.v, over ALL type definitions of a description datatype (primitives incl. i8/f32/"
              "usize/char, String, sequences, maps, Option under option-as-array, tuples / tuple structs / arrays, newtypes, named and empty "
              "structs, unit-only enums with and without #[repr] + serde_repr, string enums, data-carrying enums with newtype / tuple / struct "
              "variants, dict-structs with rename_all and optional fields, IpAddr; Duration, SystemTime, Ipv4/6Addr, SocketAddrV4/6, Range* as "
              "compositions) and all their values, any byte order and offset: the signature computed by the model of zvariant_derive / the "
              "library impls is the D-Bus type of the Rust type and a single complete type (C09_signature); the denoted D-Bus value is "
              "well-formed and of that signature (C09_value); what serde feeds the serializer model produces exactly the specification's "
              "marshalling of that value, in to_bytes, serialized_size and in the middle of a message (C09_conforms, C09_size, C09_step). "
              "PARTIAL: the statement for every compilable definition is refuted by the faithful model; five decidable classes of definitions "
              "are excluded (C09_known_excluded) with a machine-checked witness each, all confirmed on the real code. The decode half is "
              "observed, not proved here: the real bytes are read back by zvariant's dynamic decoder under SIGNATURE and compared with the "
              "denoted value, and the typed Deserialize round trip is checked on every case. The model is tied to the code by compiling "
              "Rust types generated from the same descriptions against /repo (differential correspondence + specification oracle).")
LEVEL_NOTE = ("Partial: proved for the fragment shape_ok (all listed shapes except the five known-defect classes; Option / newtype-wrapped "
              "data enums are covered at field, option and map-value positions). Trusted: Coq kernel; DBus/Ser.v (serializer model, C01) and its "
              "correspondence; serde derive / std Serialize impls / serde_repr modelled by their documented data-model calls; the Python "
              "emitter that turns a description into Rust source; HashMap order, fds, GVariant, #[derive(Value)], "
              "time/chrono/uuid/url feature impls are out of scope. The typed deserializers (serde Deserialize derive + zvariant dbus de) are "
              "exercised, not modelled; the dynamic reading of the bytes relies on DBus/De.v (C02/C03). Known findings: 5 classes.")
