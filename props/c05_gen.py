"""Generator helpers for C05 (GVariant): extends codec_gen with the maybe type, size steering across the framing-offset
thresholds, a throw-away Python GVariant marshaller (source of mostly-valid byte strings only) and framing-offset mutations.

Values: codec_gen's tuples plus ('m', childsig, None | value), ('A', elemsig, count, value) (array of copies) and
('S', n) (string of n 'a').  Signatures: codec_gen's trees plus ('m', child)."""
import codec_gen as G


def sigstr(s):
    if isinstance(s, str):
        return s
    if s[0] == 'm':
        return "m" + sigstr(s[1])
    if s[0] == 'a':
        return "a" + sigstr(s[1])
    if s[0] == 'e':
        return "a{" + sigstr(s[1]) + sigstr(s[2]) + "}"
    if s[0] == 'r':
        return "(" + "".join(sigstr(x) for x in s[1]) + ")"
    raise ValueError(s)


def vsig(v):
    t = v[0]
    if t in G.BASIC or t == 'v':
        return t
    if t == 'S':
        return 's'
    if t == 'm':
        return ('m', v[1])
    if t in ('a', 'A'):
        return ('a', v[1])
    if t == 'e':
        return ('e', v[1], v[2])
    if t == 'r':
        return ('r', [vsig(x) for x in v[1]])
    raise ValueError(v)


def toks(v):
    t = v[0]
    if t == 'm':
        if v[2] is None:
            return ['m', sigstr(v[1]), '0']
        return ['m', sigstr(v[1]), '1'] + toks(v[2])
    if t == 'A':
        return ['A', sigstr(v[1]), str(v[2])] + toks(v[3])
    if t == 'S':
        return ['S', str(v[1])]
    if t == 'v':
        return ['v'] + toks(v[1])
    if t == 'a':
        out = ['a', sigstr(v[1]), str(len(v[2]))]
        for x in v[2]:
            out += toks(x)
        return out
    if t == 'e':
        out = ['e', sigstr(v[1]), sigstr(v[2]), str(len(v[3]))]
        for k, x in v[3]:
            out += toks(k) + toks(x)
        return out
    if t == 'r':
        out = ['r', str(len(v[1]))]
        for x in v[1]:
            out += toks(x)
        return out
    return G.toks(v)


def text(v):
    return " ".join(toks(v))


def rand_sig(rng, depth=3, fds=False, bools=True, key=False):
    basics = "ynqiuxtdsog" + ("b" if bools else "") + ("h" if fds else "")
    if key:
        return rng.choice("ynqiuxtso" + ("b" if bools else ""))
    r = rng.random()
    if depth <= 0 or r < 0.40:
        return rng.choice(basics)
    if r < 0.48:
        return 'v'
    if r < 0.60:
        return ('m', rand_sig(rng, depth - 1, fds, bools))
    if r < 0.74:
        return ('a', rand_sig(rng, depth - 1, fds, bools))
    if r < 0.84:
        return ('e', rand_sig(rng, 0, fds, bools, key=True), rand_sig(rng, depth - 1, fds, bools))
    return ('r', [rand_sig(rng, depth - 1, fds, bools) for _ in range(rng.choice([1, 1, 2, 2, 3, 4]))])


def rand_val(rng, s, depth=3, nfds=4, bools=True):
    if isinstance(s, str):
        if s == 'v':
            inner = rand_sig(rng, max(0, depth - 1), False, bools)
            return ('v', rand_val(rng, inner, depth - 1, nfds, bools))
        return G.rand_val(rng, s, depth, nfds)
    if s[0] == 'm':
        if rng.random() < 0.35:
            return ('m', s[1], None)
        return ('m', s[1], rand_val(rng, s[1], depth - 1, nfds, bools))
    if s[0] == 'a':
        n = rng.choice([0, 0, 1, 1, 2, 3, 5]) if depth > 0 else rng.choice([0, 1, 2])
        return ('a', s[1], [rand_val(rng, s[1], depth - 1, nfds, bools) for _ in range(n)])
    if s[0] == 'e':
        n = rng.choice([0, 1, 1, 2, 3]) if depth > 0 else rng.choice([0, 1])
        ents, seen = [], set()
        for _ in range(n):
            k = G.rand_val(rng, s[1], 0, nfds)
            if k[1] in seen:
                continue
            seen.add(k[1])
            ents.append((k, rand_val(rng, s[2], depth - 1, nfds, bools)))
        ents.sort(key=lambda kv: kv[0][1])
        return ('e', s[1], s[2], ents)
    if s[0] == 'r':
        return ('r', [rand_val(rng, f, depth - 1, nfds, bools) for f in s[1]])
    raise ValueError(s)


# ---------------------------------------------------------------- python GVariant marshaller (input source only)
# It follows zvariant's conventions where they differ from the specification (4-byte booleans, no trailing padding of
# fixed-size tuples): its only use is to provide byte strings that zvariant's decoder mostly accepts.
ALIGN = {'y': 1, 'b': 4, 'n': 2, 'q': 2, 'i': 4, 'u': 4, 'x': 8, 't': 8, 'd': 8, 's': 1, 'o': 1, 'g': 1, 'h': 4, 'v': 8}


def align(s):
    if isinstance(s, str):
        return ALIGN[s]
    if s[0] in 'am':
        return align(s[1])
    if s[0] == 'e':
        return max(align(s[1]), align(s[2]))
    return max([align(f) for f in s[1]] or [1])


def fixed(s):
    if isinstance(s, str):
        return s in "ybnqiuxtdh"
    if s[0] == 'r':
        return all(fixed(f) for f in s[1])
    return False


def width(n, k):
    for w in (1, 2, 4, 8):
        if n + k * w <= 256 ** w - 1:
            return w
    raise ValueError


def expand(v):
    t = v[0]
    if t == 'A':
        return ('a', v[1], [expand(v[3])] * v[2])
    if t == 'S':
        return ('s', b"a" * v[1])
    if t == 'a':
        return ('a', v[1], [expand(x) for x in v[2]])
    if t == 'e':
        return ('e', v[1], v[2], [(expand(k), expand(x)) for k, x in v[3]])
    if t == 'r':
        return ('r', [expand(x) for x in v[1]])
    if t == 'v':
        return ('v', expand(v[1]))
    if t == 'm':
        return ('m', v[1], None if v[2] is None else expand(v[2]))
    return v


def marshal(v, big=False, pos=0, fdt=None):
    """bytes of value v (with its own signature) placed at absolute position pos"""
    import struct
    v = expand(v)
    if fdt is None:
        fdt = [0, 1, 2, 3]
    e = '>' if big else '<'
    out = bytearray()

    def pad(al):
        while (pos + len(out)) % al:
            out.append(0)

    def offs(lst, w):
        for o in lst:
            out.extend((o % (256 ** w)).to_bytes(w, 'little'))

    def go(v):
        t = v[0]
        s = vsig(v)
        pad(align(s))
        if t == 'y':
            out.append(v[1] & 0xff)
        elif t == 'b':
            out.extend(struct.pack(e + 'I', v[1]))
        elif t == 'n':
            out.extend(struct.pack(e + 'h', v[1]))
        elif t == 'q':
            out.extend(struct.pack(e + 'H', v[1]))
        elif t == 'i':
            out.extend(struct.pack(e + 'i', v[1]))
        elif t == 'u':
            out.extend(struct.pack(e + 'I', v[1]))
        elif t == 'x':
            out.extend(struct.pack(e + 'q', v[1]))
        elif t in 'td':
            out.extend(struct.pack(e + 'Q', v[1]))
        elif t in 'so':
            out.extend(v[1]); out.append(0)
        elif t == 'g':
            out.extend(b"" if v[1] == "-" else v[1].encode()); out.append(0)
        elif t == 'h':
            out.extend(struct.pack(e + 'I', fdt.index(v[1]) if v[1] in fdt else 0))
        elif t == 'v':
            go(v[1]); out.append(0); out.extend(sigstr(vsig(v[1])).encode())
        elif t == 'm':
            if v[2] is not None:
                go(v[2])
                if not fixed(v[1]):
                    out.append(0)
        elif t == 'a':
            start = len(out)
            ends = []
            for x in v[2]:
                go(x); ends.append(len(out) - start)
            if not fixed(v[1]) and len(out) > start:
                offs(ends, width(len(out) - start, len(ends)))
        elif t == 'e':
            start = len(out)
            ends = []
            al = align(s)
            for k, x in v[3]:
                pad(al)
                ks = len(out)
                go(k)
                ke = len(out) - ks
                go(x)
                if not fixed(v[1]):
                    n = len(out) - ks
                    offs([ke], width(n, 1))            # zvariant: for_bare_container(entry_size, 1)
                ends.append(len(out) - start)
            if not (fixed(v[1]) and fixed(v[2])) and len(out) > start:
                offs(ends, width(len(out) - start, len(ends)))
        elif t == 'r':
            start = len(out)
            ends = []
            sigs = [vsig(x) for x in v[1]]
            for x, fs in zip(v[1], sigs):
                go(x)
                if not fixed(fs):
                    ends.append(len(out) - start)
            if not all(fixed(f) for f in sigs) and len(out) > start:
                if ends and ends[-1] == len(out) - start:
                    ends.pop()
                ends.reverse()
                if ends:
                    offs(ends, width(len(out) - start, len(ends)))
        else:
            raise ValueError(v)

    go(v)
    return bytes(out)


def mutate_offsets(rng, b):
    """framing-offset oriented mutations: the offsets live at the end of a container"""
    if not b:
        return bytes([rng.randrange(256)])
    b = bytearray(b)
    r = rng.random()
    n = len(b)
    if r < 0.3:
        k = rng.randint(1, min(4, n))                      # the last offsets: 0 / beyond the end / huge
        for i in range(n - k, n):
            b[i] = rng.choice([0, 0, 1, n & 0xff, (n + 1) & 0xff, (n - 1) & 0xff, 0xff, 0x80, rng.randrange(256)])
    elif r < 0.45 and n >= 2:
        i = rng.randrange(n - 1)                            # decreasing offsets: swap neighbours
        b[i], b[i + 1] = b[i + 1], b[i]
    elif r < 0.6:
        i = rng.randrange(n)
        b[i] = rng.choice([0, n & 0xff, (n - 1) & 0xff, 0xff, b[i] ^ 1, (b[i] + 1) & 0xff, (b[i] - 1) & 0xff])
    elif r < 0.75:
        return bytes(b[:rng.randrange(n)])
    elif r < 0.85:
        b.extend(rng.choice([b"\0", b"\0\0", b"\x01", bytes([n & 0xff]), bytes([rng.randrange(256)])]))
    else:
        i = rng.randrange(n); del b[i]
    return bytes(b)


def tower(word, leaf=('y', 7)):
    """value built from a word over a ( v { m : nested containers"""
    v = leaf
    for ch in reversed(word):
        if ch == 'a':
            v = ('a', vsig(v), [v])
        elif ch == '(':
            v = ('r', [v])
        elif ch == 'v':
            v = ('v', v)
        elif ch == 'm':
            v = ('m', vsig(v), v)
        elif ch == '{':
            v = ('e', 's', vsig(v), [(('s', b"k"), v)])
    return v


def exceeds(word):
    a = s = tot = 0
    for ch in word:
        tot += 1
        if ch in 'a{':
            a += 1
        elif ch == '(':
            s += 1
        if a > 32 or s > 32 or tot > 64:
            return True
    return False


def case(cmd, big, pos, mode, v):
    return "%s g- %s %d %s %s" % (cmd, "B" if big else "L", pos, mode, text(v))


def hexrle(b):
    """hex token with run-length segments (HEX*N, separated by '.') for long runs of one byte"""
    if len(b) < 600:
        return G.hext(b)
    segs, i = [], 0
    while i < len(b):
        j = i
        while j < len(b) and b[j] == b[i]:
            j += 1
        if j - i >= 64:
            segs.append("%02x*%d" % (b[i], j - i))
            i = j
        else:
            k = i
            while k < len(b) and not (k + 64 <= len(b) and len(set(b[k:k + 64])) == 1):
                k += 1
            segs.append(b[i:k].hex())
            i = k
    return ".".join(segs)


def case_de_v(big, pos, nfds, b, cmd="de"):
    return "%s g- %s %d %d v %s" % (cmd, "B" if big else "L", pos, nfds, hexrle(b))


def case_de_s(big, pos, nfds, sig, b, cmd="de"):
    return "%s g- %s %d %d s %s %s" % (cmd, "B" if big else "L", pos, nfds, sig or "-", hexrle(b))


def case_de_t(big, pos, name, b, cmd="de"):
    return "%s g- %s %d 0 t:%s %s" % (cmd, "B" if big else "L", pos, name, G.hext(b))


TYPED = {"y": 'y', "b": 'b', "n": 'n', "q": 'q', "i": 'i', "u": 'u', "x": 'x', "t": 't', "s": 's',
         "mu": ('m', 'u'), "my": ('m', 'y'), "mb": ('m', 'b'), "ms": ('m', 's'), "mmu": ('m', ('m', 'u')),
         "mms": ('m', ('m', 's')), "mas": ('m', ('a', 's')),
         "ay": ('a', 'y'), "au": ('a', 'u'), "ab": ('a', 'b'), "ax": ('a', 'x'), "as": ('a', 's'),
         "aas": ('a', ('a', 's')), "aay": ('a', ('a', 'y')), "ams": ('a', ('m', 's')), "amu": ('a', ('m', 'u')),
         "(su)": ('r', ['s', 'u']), "(us)": ('r', ['u', 's']), "(ssy)": ('r', ['s', 's', 'y']), "(uy)": ('r', ['u', 'y']),
         "(yu)": ('r', ['y', 'u']), "(s)": ('r', ['s']), "a(uy)": ('a', ('r', ['u', 'y'])), "a(su)": ('a', ('r', ['s', 'u'])),
         "(asas)": ('r', [('a', 's'), ('a', 's')]), "(ass)": ('r', [('a', 's'), 's']),
         "(msmu)": ('r', [('m', 's'), ('m', 'u')]),
         "(y(su)aas)": ('r', ['y', ('r', ['s', 'u']), ('a', ('a', 's'))]),
         "a{su}": ('e', 's', 'u'), "a{us}": ('e', 'u', 's'), "a{ss}": ('e', 's', 's'), "a{uy}": ('e', 'u', 'y'),
         "a{sas}": ('e', 's', ('a', 's')), "a{yms}": ('e', 'y', ('m', 's'))}
