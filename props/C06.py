"""C06 — signature strings parse exactly per the D-Bus type grammar; format/string_len/Eq/Hash/Ord laws."""
import itertools

ID = "C06"
CRATE = "hsig"
RUN_MODULE = "C06.Run"
CONFIGS = [
    {"name": "dbus", "profile": "debug"},
    {"name": "gvariant", "profile": "debug", "features": ["gvariant"], "target_subdir": "target-gv"},
    {"name": "dbus-release", "profile": "release", "thorough_only": True},
]
RULE = ("p: every string over the 11-symbol alphabet 'y s v a ( ) { } m h z' up to length 5 (quick; plus length 6 over 'y s a ( ) { }') / 6, and 7 over "
        "'y s a ( ) { } m' (thorough); every string up to length 3 over all 14 type codes + brackets + 'm' + 'z' + 2-byte 'e-acute'; generated long and deep "
        "strings at 253..257/300 bytes and 31..34/64/65 nesting (arrays, structs, dicts, mixed, below a multi-type top level); all "
        "non-basic dict keys; grammar-driven random signatures and one-edit mutants of them. eq: accepted strings up to length 3 over "
        "'y a ( ) { }' against every string up to length 4 (5 thorough), plus random valid signatures against their own "
        "canonical/stripped/bracket-swapped/multi-byte variants. repr: pairs of trees built through the public constructors "
        "(array/static_array/dict/static_dict/structure/static_structure/maybe/static_maybe) with independent Static/Dynamic tags, same "
        "and different shapes, Unit children and empty structs included, plus nested structs/arrays over one leaf so that Ord has to walk "
        "into the fields. deep: up to 4000-fold nesting in process and 30000/50000-fold in a child process. Every case "
        "on the build without and with the gvariant feature (release build too in thorough). non-trivial = a container type is involved "
        "or the string is rejected after the first byte")
TRUSTED = ["winnow 0.7 combinators (alt, dispatch, tuple, delimited, repeat(1..) and its fold, eof, Parser::parse) modelled by hand in "
           "C06/Model.v: ordered choice with reset on backtrack, repeat stops at the first backtrack",
           "str slicing panics exactly when an index is out of range or not on a UTF-8 char boundary",
           "Hash observed as the byte sequence written to a recording Hasher; DefaultHasher equality predicted from it"]
ASSUMPTIONS = ["inputs to FromStr/PartialEq<&str> are valid UTF-8 (&str API)",
               "usize arithmetic in string_len does not overflow (strings that fit in memory)",
               "an abort by stack exhaustion is attributed to the parser when more than 5000 nested parse_signature activations are "
               "needed (C06/Classes.v deep_threshold); smaller inputs must not abort"]

ALPHA = "ysva(){}mhz"
CODES = "ybnqiuxtdsgovh"
BASIC = "ybnqiuxtdsogh"
E_ACUTE = "é"


# ---------------------------------------------------------------- helpers (generation only, nothing here is trusted)
def accepts(s, gv):
    """the wide grammar of the code (any dict key, no limits): used only to pick interesting eq/mutation cases"""
    def one(i):
        if i >= len(s):
            return None
        c = s[i]
        if c in CODES:
            return i + 1
        if c == "a":
            if i + 1 < len(s) and s[i + 1] == "{":
                j = one(i + 2)
                if j is not None:
                    j = one(j)
                    if j is not None and j < len(s) and s[j] == "}":
                        return j + 1
                return None
            return one(i + 1)
        if c == "m" and gv:
            return one(i + 1)
        if c == "(":
            j = one(i + 1)
            if j is None:
                return None
            while True:
                k = one(j)
                if k is None:
                    break
                j = k
            if j < len(s) and s[j] == ")":
                return j + 1
            return None
        return None
    i = 0
    while i < len(s):
        i = one(i)
        if i is None:
            return False
    return True


def rand_type(rng, depth, gv=True):
    r = rng.random()
    if depth <= 0 or r < 0.35:
        return rng.choice(CODES)
    if r < 0.55:
        return "a" + rand_type(rng, depth - 1, gv)
    if r < 0.72:
        key = rng.choice(BASIC) if rng.random() < 0.85 else rand_type(rng, depth - 1, gv)
        return "a{" + key + rand_type(rng, depth - 1, gv) + "}"
    if r < 0.93 or not gv:
        return "(" + "".join(rand_type(rng, depth - 1, gv) for _ in range(rng.randint(1, 4))) + ")"
    return "m" + rand_type(rng, depth - 1, gv)


def rand_sig(rng, gv=True):
    return "".join(rand_type(rng, rng.randint(0, 4), gv) for _ in range(rng.choice([1, 1, 1, 2, 3])))


def mutate(rng, s):
    if not s:
        return rng.choice(ALPHA)
    i = rng.randrange(len(s))
    k = rng.random()
    c = rng.choice(ALPHA + "()}{")
    if k < 0.34:
        return s[:i] + s[i + 1:]
    if k < 0.67:
        return s[:i] + c + s[i:]
    return s[:i] + c + s[i + 1:]


def raw(s):
    return s if s else "_"


def hx(s):
    return s.encode("utf8").hex() if s else "-"


def p_line(s):
    if s and all(33 <= ord(c) < 127 for c in s) and s != "_":
        return "p " + s
    return "px " + hx(s)


def eq_line(s, o):
    ok = lambda x: all(33 <= ord(c) < 127 for c in x) and x != "_"
    if ok(s) and ok(o):
        return "eq %s %s" % (raw(s), raw(o))
    return "eqx %s %s" % (hx(s), hx(o))


def product_strings(alpha, maxlen, minlen=0):
    for n in range(minlen, maxlen + 1):
        for t in itertools.product(alpha, repeat=n):
            yield "".join(t)


def boundary_strings():
    out = []
    for n in (253, 254, 255, 256, 257, 300):
        out.append("y" * n)
        out.append("ay" * (n // 2) + "s" * (n % 2))
        out.append(("a{sv}" * (n // 5 + 1))[:n - n % 5] + "y" * (n % 5))
        out.append("(" + "i" * (n - 2) + ")")
        out.append("a{s(" + "x" * (n - 6) + ")}")
        out.append("a" * 32 + "y" * (n - 32))
    for k in (30, 31, 32, 33, 34, 64, 65):
        out.append("a" * k + "y")
        out.append("(" * k + "y" + ")" * k)
        out.append("a{s" * k + "v" + "}" * k)
        out.append("a(" * k + "y" + ")" * k)
        out.append("(a" * k + "y" + ")" * k)
        out.append("m" * k + "y")
        out.append("ma" * k + "y")
        out.append("y" + "(" * k + "y" + ")" * k)          # multi-type top level does not count as a struct
        out.append("(" * k + "y" + ")" * k + "y")
        out.append("a" * k + "y" + "a" * k + "s")
        out.append("a" * k + "(" * 32 + "y" + ")" * 32)
        out.append("a" * 32 + "(" * k + "y" + ")" * k)
        out.append("(" * 32 + "a" * k + "y" + ")" * 32)
        out.append("a" * k + "{sv}")
        out.append("a" * (k - 1) + "a{sv}" if k > 0 else "y")
        out.append("(" * k + ")" * k)
        out.append("(" * k + "y" + ")" * (k - 1))
    keys = ["v", "ay", "(y)", "a{ss}", "my", "(yy)", "aay", "a(y)", "((y))", "mv"] + list(CODES)
    for k in keys:
        out.append("a{" + k + "s}")
        out.append("a{" + k + "v}")
        out.append("(a{" + k + "s})")
        out.append("aa{" + k + "ay}")
    out += ["", "()", "(())", "a", "a{", "a{}", "a{s}", "a{ss", "a{sss}", "{ss}", "a{ss}}", "(", ")", "(y", "y)", "(y))",
            "m", "my", "may", "amy", "a{smy}", "a{mys}", "(my)", "h", "ah", "a{hs}", "z", "yz", "zy", " ", "y y", "(ysa{sd})",
            "a(y)", "a{sa(ux)}", "xs", "a{sa{sv}}", "aaaa{sv}", "(a{sv}a{sv})", "\x00", "y\x00", "Y", "e", "r", "ya", "(a)", "a()"]
    return out


# ---------------------------------------------------------------- tagged trees for repr
LEAVES = CODES + "_"


def rand_shape(rng, depth, gv_ok=True):
    r = rng.random()
    if depth <= 0 or r < 0.35:
        return ("L", rng.choice(LEAVES if rng.random() < 0.9 else "_yv"))
    if r < 0.55:
        return ("A", rand_shape(rng, depth - 1, gv_ok))
    if r < 0.7:
        return ("E", rand_shape(rng, depth - 1, gv_ok), rand_shape(rng, depth - 1, gv_ok))
    if r < 0.92 or not gv_ok:
        return ("R", [rand_shape(rng, depth - 1, gv_ok) for _ in range(rng.choice([0, 1, 1, 2, 2, 3]))])
    return ("M", rand_shape(rng, depth - 1, gv_ok))


def rand_nest(rng, depth):
    """structs and arrays over the single leaf y: Ord has to walk into the fields to tell two of them apart"""
    r = rng.random()
    if depth <= 0 or r < 0.25:
        return ("L", "y")
    if r < 0.4:
        return ("A", rand_nest(rng, depth - 1))
    return ("R", [rand_nest(rng, depth - 1) for _ in range(rng.choice([0, 1, 2, 2, 3]))])


def tag_shape(rng, sh, mode=None):
    tg = (lambda: mode) if mode else (lambda: rng.choice("SD"))
    k = sh[0]
    if k == "L":
        return sh[1]
    if k in "AM":
        return k + tg() + tag_shape(rng, sh[1], mode)
    if k == "E":
        return "E" + tg() + tag_shape(rng, sh[1], mode) + tg() + tag_shape(rng, sh[2], mode)
    return "R" + tg() + "".join(tag_shape(rng, f, mode) for f in sh[1]) + "."


def mutate_shape(rng, sh):
    k = sh[0]
    r = rng.random()
    if k == "L" or r < 0.25:
        alt = rand_shape(rng, 1)
        return alt if alt != sh else ("L", "y" if sh != ("L", "y") else "b")
    if k in "AM":
        if r < 0.4:
            return ("M" if k == "A" else "A", sh[1])
        return (k, mutate_shape(rng, sh[1]))
    if k == "E":
        if r < 0.5:
            return ("E", mutate_shape(rng, sh[1]), sh[2])
        if r < 0.8:
            return ("E", sh[1], mutate_shape(rng, sh[2]))
        return ("R", [sh[1], sh[2]])
    fs = list(sh[1])
    if not fs or r < 0.4:
        return ("R", fs + [("L", rng.choice(CODES))])
    if r < 0.6:
        fs.pop(rng.randrange(len(fs)))
        return ("R", fs)
    if r < 0.7 and len(fs) >= 2:
        fs2 = fs[::-1]
        return ("R", fs2) if fs2 != fs else ("R", fs + [("L", "y")])
    i = rng.randrange(len(fs))
    fs[i] = mutate_shape(rng, fs[i])
    return ("R", fs)


def small_shapes():
    leaves = [("L", c) for c in "yb_v"]
    lvl1 = list(leaves)
    for x in leaves:
        lvl1.append(("A", x))
        lvl1.append(("M", x))
    for x in leaves[:3]:
        for y in leaves[:3]:
            lvl1.append(("E", x, y))
    lvl1.append(("R", []))
    for x in leaves[:3]:
        lvl1.append(("R", [x]))
        for y in leaves[:2]:
            lvl1.append(("R", [x, y]))
    return lvl1


def all_taggings(sh):
    k = sh[0]
    if k == "L":
        return [sh[1]]
    if k in "AM":
        return [k + t + c for t in "SD" for c in all_taggings(sh[1])]
    if k == "E":
        return ["E" + a + x + b + y for a in "SD" for x in all_taggings(sh[1]) for b in "SD" for y in all_taggings(sh[2])]
    inner = [""]
    for f in sh[1]:
        inner = [p + q for p in inner for q in all_taggings(f)]
    return ["R" + t + body + "." for t in "SD" for body in inner]


# ---------------------------------------------------------------- the generator
def gen(rng, tier):
    thorough = tier != "quick"
    # 1. exhaustive short strings
    for s in product_strings(ALPHA, 6 if thorough else 5):
        yield p_line(s)
    if thorough:
        for s in product_strings("ysa(){}m", 7, 7):
            yield p_line(s)
    else:
        for s in product_strings("ysa(){}", 6, 6):
            yield p_line(s)
    for s in product_strings(CODES + "(){}amz" + E_ACUTE, 3 if thorough else 2):
        yield p_line(s)
    for s in product_strings("ya(){}" + E_ACUTE, 4 if thorough else 3):
        if E_ACUTE in s:
            yield p_line(s)
    # 2. boundaries
    bs = boundary_strings()
    for s in bs:
        yield p_line(s)
    # 3. structured random + one-edit mutants
    n_rand = 60000 if thorough else 15000
    pool = []
    for _ in range(n_rand):
        s = rand_sig(rng)
        pool.append(s)
        yield p_line(s)
        m = mutate(rng, s)
        yield p_line(m)
        if rng.random() < 0.3:
            yield p_line(mutate(rng, m))
    # long random ones near the length limit
    for _ in range(2000 if thorough else 200):
        parts, n = [], 0
        target = rng.choice([250, 253, 254, 255, 256, 257, 260])
        while n < target:
            t = rand_type(rng, 3)
            parts.append(t)
            n += len(t)
        s = "".join(parts)
        if n > target and rng.random() < 0.7:
            s = s[:-1 - (n - target)] if accepts(s[:-1 - (n - target)], True) else s
        yield p_line(s)
    # 4. eq: every accepted short string against every short string
    small = [s for s in product_strings("ya(){}", 3) if accepts(s, False)]
    others = list(product_strings("ya(){}", 5 if thorough else 4))
    for s in small:
        for o in others:
            yield eq_line(s, o)
    ext = [s for s in product_strings("ysva(){}m", 4) if accepts(s, True)]
    for s in ext:
        for o in (s, "(" + s + ")", s[1:-1], s[1:], s[:-1], "a" + s, s + "y", "m" + s, "a" + s[1:-1] + "y", "y" + s[1:-1] + "y",
                  s.replace("(", "a", 1), s.replace(")", "y", 1), s.replace("y", E_ACUTE, 1), s.replace("(", E_ACUTE, 1),
                  s.replace("y", "b", 1), "", s + s, s.replace("}", ")", 1), s.replace("{", E_ACUTE, 1)):
            yield eq_line(s, o)
    for s in pool[: (20000 if thorough else 2500)] + bs[:40]:
        if not accepts(s, True) or len(s) > 300:
            continue
        cands = [s, "(" + s + ")", s[1:-1], mutate(rng, s), s.replace("(", "a", 1), s.replace(")", "y", 1),
                 s.replace("(", "[").replace(")", "]"), s.replace(s[rng.randrange(len(s))] if s else "y", E_ACUTE, 1) if s else E_ACUTE]
        for o in cands:
            yield eq_line(s, o)
    # 5. repr
    shapes = small_shapes()
    for sh in shapes:
        tg = all_taggings(sh)
        for a in tg:
            for b in tg[:4] + tg[-2:]:
                yield "repr %s %s" % (a, b)
    for i, sa in enumerate(shapes):
        for sb in shapes[i + 1:]:
            yield "repr %s %s" % (tag_shape(rng, sa), tag_shape(rng, sb))
            if rng.random() < 0.3:
                yield "repr %s %s" % (tag_shape(rng, sb), tag_shape(rng, sa))
    for _ in range(40000 if thorough else 5000):
        sh = rand_shape(rng, rng.randint(1, 4))
        a = tag_shape(rng, sh)
        yield "repr %s %s" % (a, tag_shape(rng, sh))
        yield "repr %s %s" % (tag_shape(rng, sh, "S"), tag_shape(rng, sh, "D"))
        other = mutate_shape(rng, sh)
        yield "repr %s %s" % (a, tag_shape(rng, other))
        yield "repr %s %s" % (tag_shape(rng, other), a)
    for _ in range(20000 if thorough else 4000):
        yield "repr %s %s" % (tag_shape(rng, rand_nest(rng, 3)), tag_shape(rng, rand_nest(rng, 3)))
    # 6. deep nesting (child process on the harness side when n > 1000)
    for n in (1, 31, 32, 33, 200, 1000, 4000):
        for op, mid, cl in (("(", "y", ")"), ("a", "y", "-"), ("a{s", "v", "}"), ("m", "y", "-"), ("(", "-", "-"), ("(a", "y", ")")):
            yield "deep %d %s %s %s" % (n, op, mid, cl)
    for n in ((30000, 50000) if thorough else (30000,)):
        for op, mid, cl in (("(", "y", ")"), ("a", "y", "-"), ("(", "-", "-"), ("a{s", "v", "}")):
            yield "deep %d %s %s %s" % (n, op, mid, cl)


def model_lines_for(config, cases):
    if "gvariant" in (config.get("features") or []):
        return ["gv " + c for c in cases]
    return cases


def agree(impl, model):
    if model.startswith("D") and "|" in model:
        depth, body = model[1:].split("|", 1)
        if impl == "ABORT":
            return depth.isdigit() and int(depth) > 5000      # = C06/Classes.v deep_threshold
        return impl == body
    return impl == model


def meets_spec(impl, spec):
    if "*" not in spec:
        return impl == spec
    a, b = impl.split(":"), spec.split(":")
    return len(a) == len(b) and all(y == "*" or x == y for x, y in zip(a, b))


def nontrivial(case, impl_out):
    w = case.split(" ")
    if w[0] in ("p", "px"):
        arg = w[1] if len(w) > 1 else ""
        if w[0] == "px" and arg != "-":
            try:
                arg = bytes.fromhex(arg).decode("utf8")
            except ValueError:
                arg = ""
        return len(arg) >= 2 and (impl_out.startswith("OK") and any(c in arg for c in "a(m") or
                                  impl_out.startswith("ERR") and arg[0] in CODES + "a(m")
    return True


def classify(case, impl_out):
    w = case.split(" ")
    head = impl_out.split(":")[0]
    if w[0] in ("p", "px"):
        n = len(w[1]) if len(w) > 1 else 0
        if w[0] == "px":
            n //= 2
        return "p:%s:len%s" % (head, n if n <= 7 else ("8-64" if n <= 64 else "65+"))
    if w[0] == "repr":
        return "repr:" + ":".join(impl_out.split(":")[:4])
    return "%s:%s" % (w[0].rstrip("x"), head)


def search(rng, bad_cases):
    # widen around a disagreement, only for the commands that disagreed.
    # (no 'm'/Maybe: the engine runs search cases without model_lines_for, so they must not depend on the feature config)
    kinds = {c.split(" ")[0].rstrip("x") for c in bad_cases} or {"p", "eq", "repr"}
    if "p" in kinds or "deep" in kinds:
        for s in product_strings("ysva(){}h", 6, 6):
            yield p_line(s)
    if kinds & {"p", "eq", "deep"}:
        for _ in range(30000):
            s = rand_sig(rng, gv=False)
            if "eq" not in kinds or "p" in kinds:
                yield p_line(s)
                yield p_line(mutate(rng, s).replace("m", "y"))
            yield eq_line(s, s)
            yield eq_line(s, "(" + s + ")")
            yield eq_line(s, s[1:-1])
    if "repr" in kinds:
        for a in LEAVES:
            for b in LEAVES:
                yield "repr %s %s" % (a, b)
        for _ in range(20000):
            sh = rand_shape(rng, rng.randint(1, 4), gv_ok=False)
            yield "repr %s %s" % (tag_shape(rng, sh), tag_shape(rng, sh))
            yield ("repr %s %s" % (tag_shape(rng, sh), tag_shape(rng, mutate_shape(rng, sh)))).replace("M", "A")
            yield "repr %s %s" % (tag_shape(rng, rand_nest(rng, 3)), tag_shape(rng, rand_nest(rng, 3)))


ENABLED = True
LEVEL = "proof"
LEVEL_TEXT = ("Theorems in coq/theories/Properties/C06.v over a Gallina mirror of the winnow grammar, the formatter, string_len and "
              "the hand-written Eq/Ord/Hash/PartialEq<&str> impls: parse-then-format and format-then-parse round trips, string_len = "
              "length of the formatted string, Eq/Hash/Ord independent of Static/Dynamic representation (== and cmp = Equal hold exactly for "
              "trees equal up to representation), check-only mode accepts the "
              "same strings, and acceptance = the inductive D-Bus grammar (decided by valid_sigb, proved equivalent) outside three named "
              "classes; all for strings and trees of any size. The model is tied to the code by exhaustive enumeration of short strings "
              "and generated boundary/deep cases on both feature configurations. Unbounded proof + differential correspondence is the "
              "right level for a pure parser/formatter.")
LEVEL_NOTE = ("Partial where stated: the acceptance equivalence is REFUTED at full strength (non-basic dict keys, more than 32 nested "
              "arrays/structs and more than 255 bytes are accepted) and proved outside these classes; `parsed == its own string` and the "
              "soundness of PartialEq<&str> are likewise proved only for basic-key resp. struct-free signatures, with refuting witnesses; "
              "the parser's recursion depth is proved unbounded (stack overflow on ~20000-fold nesting, confirmed in a child process). "
              "Trusted: Coq kernel; the hand-written model of zvariant_utils::signature and of the winnow combinators it uses; the "
              "harness hsig; inputs are valid UTF-8.")
