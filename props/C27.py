"""C27 — introspection data is well-formed and matches wire behaviour (proc-macro property: quantifies over programs)."""
import os
import sys

sys.path.insert(0, os.path.dirname(os.path.abspath(__file__)))
import ifacegen  # noqa: E402

ID = "C27"
CRATE = "hiface"
RUN_MODULE = "C27.Run"
RULE = ("interface DESCRIPTIONS (methods, signals, properties over an 11-type menu; doc attribute texts drawn from 14 samples incl. "
        "XML-special characters, blank and multi-line texts, `--`, `---`, `----`, `-->`, a trailing `-`): 8 corpus descriptions + 12 (thorough: 48) from the seed, Rust "
        "source GENERATED from each, compiled against /repo; per description 5..6 node-tree layouts (root, nested, siblings, other "
        "interfaces in between, empty). Per layout: Introspect at every registered, intermediate and one unknown path, read back by "
        "zbus_xml (canonical infoset), by Python's expat through minidom AND ElementTree (strict well-formedness + the same canonical "
        "infoset), and compared byte for byte with the model's text for every generated interface; then for every method a call with "
        "the declared types and one with other types, every signal emitted once, every property Get / Set right type / Set wrong type, "
        "GetAll — so that declared types are compared with the wire signature of what is accepted and sent. evaluations = ops; "
        "non-trivial = a case with an Introspect and at least one accepted and one rejected op")
TRUSTED = ["the description -> Rust source emitter (props/ifacegen.py) and the standard handler bodies",
           "harness/hiface; Python's expat as the strict XML parser; zbus_xml as the library's own reader",
           "quick-xml's tokenizer below the infoset boundary (C34's assumption)",
           "the macros are MODELLED; the tie is the byte-for-byte comparison of the generated interface's XML and of the wire types"]
ASSUMPTIONS = ["doc texts contain no non-ASCII white space (is_blank is modelled for ASCII)",
               "member and argument names are Rust identifiers (no XML-special characters can reach an attribute value)",
               "the node tree is built by ObjectServer::at only; interfaces and children come out in HashMap order (every comparison sorts)"]


def custom_run(pid, tier, seed, replay=None):
    import types
    return ifacegen.run_property(types.SimpleNamespace(**globals()), pid, tier, seed, replay)


ENABLED = True
LEVEL = "proof"
LEVEL_TEXT = ("Theorems in coq/theories/Properties/C27.v over ALL interface descriptions and node trees: the XML of a node lists exactly "
              "the standard and the registered interfaces and exactly the children; for every method the declared input types are "
              "exactly the accepted ones (up to two structure re-groupings) and the declared output types are the sent ones for tuples "
              "and non-structure types; signals and properties likewise (properties: every type but `v`); every comment written is "
              "well-formed whatever the doc texts (full strength since fix e95e1976: the `--` rewriting loop is proved to leave no `--` "
              "after at most two passes, for every byte string). Refuted with a witness: `v`-typed properties. The macros "
              "are modelled as a function from the description to the item tree and to the exact text; the tie to the real macros is "
              "the byte-for-byte comparison of the XML of generated programs, read back by zbus_xml and by a strict parser.")
LEVEL_NOTE = ("partial: declared vs. wire types are refuted for properties of Rust type OwnedValue and for the argument leniencies of C26 (no-input methods, (us) "
              "re-grouping); single-structure returns are exempted by the property text. Well-formedness (C27_wellformed), read-back "
              "(C27_reads_back, through C34's reader model; quick-xml's tokenizer is assumed) and lists-exactly are at full strength. "
              "Trusted: Coq kernel, the hand-written model, the emitter, harness hiface, expat.")
