"""C21 — match rules select exactly the messages the specification says."""

ID = "C21"
CRATE = "hmatch"
RUN_MODULE = "C21.Run"
RULE = ("rules built through zbus::match_rule::Builder (every key optional, args / arg paths at indices 0..63, add_arg, replacement of an "
        "index, a 5 % stream of refused operations); for each rule a message that satisfies it is derived and then 0-3 near-miss "
        "mutations are applied: sibling / string-prefix / parent / child paths, other or missing sender / destination / interface / "
        "member, well-known destination, other type, argument replaced by an object path, variant, array, signature, u32, struct, "
        "trailing-slash strings, missing arguments, a (su) struct as only argument, a u32 + bytes body that spells a bus name. "
        "Messages are built with Message::method_call / signal / method_return / error. "
        "non-trivial = the rule has at least two keys, or the message matches")
TRUSTED = ["the name / object-path validators are the model of C10 (C10/Model.v, tied to the code by C10's own correspondence)",
           "message abstraction: type, sender, interface, member, path, destination and a body made of the nine argument shapes "
           "the harness builds (s, o, u, y, g, v(s), v(o), as, (su)); the body signature is the concatenation of their signatures"]
ASSUMPTIONS = ["all strings are valid UTF-8 without NUL (the API takes &str; zvariant refuses NUL)",
               "name ownership on the bus is a parameter of the specification; pairs that need it (well-known sender in the rule, "
               "well-known destination on the message) are exempt as documented by zbus and get no oracle verdict"]

UNIQ = [":1.5", ":1.6", ":1.50", "org.freedesktop.DBus"]
WELL = ["a.b", "org.zbus.Srv", "a.bc"]
IFACES = ["a.b", "a.bc", "a.b.c", "org.zbus.I"]
MEMBERS = ["M", "Mm", "N"]
PATHS = ["/", "/a", "/ab", "/a/b", "/a/bc", "/a/b/c", "/b", "/a_b", "/a/b_c/d"]
STRS = ["", "x", "xy", "/a", "/a/", "/a/b", "/", "org.zbus", "org.zbus.N", "org.zbusx", "org", "a'b", "x,y", "é", "a.b", ":1.5"]
NSS = ["org", "org.zbus", ":1", "a", "a.b", "org.zbus.N"]
NAMES_IN_NS = ["org.zbus", "org.zbus.N", "org.zbus.N.k", "org.zbusx.N", "org.z", "org", "a.b", "a.b.c", "a.bc", "ab.c", ":1.5", ":1.50", ":15.1",
               "org.zbus.7", "org.zbus.N-", "org..zbus", ""]
SIGS = ["s", "su", "a{sv}", "as", "(su)"]
BAD_NAMES = ["", ".", "a", "a..b", "7a.b", ":1", "a.b.", "/a", "a b.c"]
BAD_PATHS = ["", "a", "/a/", "//", "/a//b", "/a.b", "/a b"]


def hx(s):
    return s.encode("utf8").hex()


def enc_tok(k, v):
    """readable (key, value) -> wire token"""
    if k in ("ty", "bu", "by"):
        return "%s=%s" % (k, v)
    if k in ("ar", "ap"):
        return "%s=%d:%s" % (k, v[0], hx(v[1]))
    return "%s=%s" % (k, hx(v))


def line(rule_ops, msg_fields):
    return "m " + " ".join(enc_tok(k, v) for k, v in rule_ops) + " / " + " ".join(enc_tok(k, v) for k, v in msg_fields)


def readable(case):
    """inverse of line()/enc_tok for logs and docs"""
    out = []
    for t in case.split(" "):
        if "=" not in t:
            out.append(t)
            continue
        k, v = t.split("=", 1)
        try:
            if k in ("ty", "bu", "by"):
                out.append(t)
            elif k in ("ar", "ap"):
                i, h = v.split(":", 1)
                out.append("%s=%s:%s" % (k, i, bytes.fromhex(h).decode("utf8")))
            else:
                out.append("%s=%s" % (k, bytes.fromhex(v).decode("utf8")))
        except Exception:
            out.append(t)
    return " ".join(out)


def path_near(rng, p):
    """paths around p: itself, string-prefix sibling, child, parent, unrelated"""
    c = rng.random()
    if c < 0.3:
        return p
    if c < 0.5:
        return (p if p != "/" else "/r") + rng.choice(["b", "_", "0", "bc"])
    if c < 0.7:
        return (p if p != "/" else "") + "/" + rng.choice(["b", "c", "b/c"])
    if c < 0.8:
        return p.rsplit("/", 1)[0] or "/"
    return rng.choice(PATHS)


def str_near(rng, s):
    c = rng.random()
    if c < 0.4:
        return s
    if c < 0.5:
        return s + "/"
    if c < 0.6:
        return s[:-1] if s else "x"
    if c < 0.7:
        return s + rng.choice(["x", ".a", "/b"])
    return rng.choice(STRS)


def gen_rule(rng):
    """-> list of (key, value) builder operations, mostly accepted ones"""
    ops = []
    if rng.random() < 0.45:
        ops.append(("ty", str(rng.choice([1, 2, 3, 4, 4, 4]))))
    if rng.random() < 0.4:
        ops.append(("sn", rng.choice(UNIQ) if rng.random() < 0.8 else rng.choice(WELL)))
    if rng.random() < 0.4:
        ops.append(("if", rng.choice(IFACES)))
    if rng.random() < 0.4:
        ops.append(("mb", rng.choice(MEMBERS)))
    c = rng.random()
    if c < 0.25:
        ops.append(("pa", rng.choice(PATHS)))
    elif c < 0.6:
        ops.append(("pn", rng.choice(PATHS)))
    elif c < 0.63:
        ops.append(("pa", rng.choice(PATHS)))
        ops.append(("pn", rng.choice(PATHS)))
    if rng.random() < 0.35:
        ops.append(("de", rng.choice(UNIQ)))
    if rng.random() < 0.3:
        ops.append(("ns", rng.choice(NSS)))
    na = rng.choice([0, 0, 0, 1, 1, 2, 3])
    for _ in range(na):
        c = rng.random()
        if c < 0.7:
            ops.append(("ar", (rng.choice([0, 0, 1, 1, 2, 3, 5, 63]), rng.choice(STRS))))
        else:
            ops.append(("aa", rng.choice(STRS)))
    npth = rng.choice([0, 0, 0, 1, 1, 2])
    for _ in range(npth):
        c = rng.random()
        if c < 0.75:
            ops.append(("ap", (rng.choice([0, 0, 1, 1, 2, 4, 63]), rng.choice(PATHS))))
        else:
            ops.append(("aq", rng.choice(PATHS)))
    if rng.random() < 0.3:
        rng.shuffle(ops)
    return ops


def rule_view(ops):
    """what the accepted operations add up to (mirror of the builder on accepted values only; used to aim the messages)"""
    v = {"args": {}, "paths": {}}
    for k, x in ops:
        if k in ("ty", "sn", "if", "mb", "de", "ns"):
            v[k] = x
        elif k == "pa":
            v["pa"] = x
            v.pop("pn", None)
        elif k == "pn":
            v["pn"] = x
            v.pop("pa", None)
        elif k == "ar":
            v["args"][x[0]] = x[1]
        elif k == "ap":
            v["paths"][x[0]] = x[1]
        elif k == "aa":
            v["args"][len(v["args"])] = x
        elif k == "aq":
            v["paths"][len(v["paths"])] = x
    return v


def body_for(rng, v, near):
    """body arguments aimed at the rule view v; near = probability of a near miss per argument"""
    idxs = [i for i in list(v["args"]) + list(v["paths"]) if i < 8]
    n = max(idxs) + 1 if idxs else 0
    if "ns" in v:
        n = max(n, 1)
    n += rng.choice([0, 0, 1])
    if rng.random() < 0.08:
        n = max(0, n - 1)
    body = []
    for i in range(n):
        if i in v["args"] and rng.random() < 0.85:
            s = v["args"][i]
            if i == 0 and "ns" in v and rng.random() < 0.6:
                s = rng.choice(NAMES_IN_NS)
            arg = ("bs", s)
        elif i in v["paths"] and rng.random() < 0.85:
            arg = ("bo", v["paths"][i])
        elif i == 0 and "ns" in v:
            s = rng.choice(NAMES_IN_NS)
            if rng.random() < 0.5:
                s = v["ns"] + rng.choice(["", ".a", ".a.b", "a", ".7", "x.y", "."])
            arg = ("bs", s)
        else:
            arg = ("bs", rng.choice(STRS)) if rng.random() < 0.6 else ("bo", rng.choice(PATHS))
        if rng.random() < near:
            k, s = arg
            c = rng.random()
            if c < 0.22:
                arg = ("bs", str_near(rng, s))
            elif c < 0.40:
                t = str_near(rng, s) if k == "bo" else path_near(rng, s if s.startswith("/") else "/a")
                t = t.rstrip("/") or "/"
                arg = ("bo", t if ok_path(t) else "/a")
            elif c < 0.50:
                arg = ("bo" if k == "bs" and ok_path(s) else "bs", s)
            elif c < 0.58:
                arg = ("bv", s)
            elif c < 0.64:
                arg = ("bp", s if ok_path(s) else "/a")
            elif c < 0.72:
                arg = ("bl", s)
            elif c < 0.78:
                arg = ("bg", rng.choice(SIGS))
            elif c < 0.88:
                arg = ("bu", str(rng.choice([0, 1, 3, 7, 255, 70000])))
            elif c < 0.94:
                arg = ("bt", s)
            else:
                arg = ("by", str(rng.choice([0, 47, 97])))
        body.append(arg)
    c = rng.random()
    if c < 0.05 and body:
        body = [("bt", body[0][1] if body[0][0] in ("bs", "bo") else "x")]        # a struct as the only argument
    elif c < 0.09 and "ns" in v:
        # a u32 followed by bytes: the encoding of a string, but not a string
        name = rng.choice(NAMES_IN_NS[:12])
        nbytes = len(name) if rng.random() < 0.75 else max(0, len(name) - rng.choice([1, 2]))
        declared = len(name) if rng.random() < 0.85 else len(name) + rng.choice([1, 9])
        body = [("bu", str(declared))] + [("by", str(b)) for b in name.encode()[:nbytes]]
        if nbytes == len(name):
            c2 = rng.random()
            if c2 < 0.7:
                body.append(("by", "0"))
                if rng.random() < 0.3:
                    body.append(("bs", "tail"))
            elif c2 < 0.8:
                body.append(("by", str(rng.choice([1, 46, 97]))))      # terminator position holds another byte
            elif c2 < 0.9:
                body.append(("bu", str(rng.choice([0, 5]))))           # padding or the low byte of the u32 is the terminator
            # else: nothing after the bytes
    return body


def ok_path(p):
    import re
    return p == "/" or re.fullmatch(r"(/[A-Za-z0-9_]+)+", p) is not None


def gen_msg(rng, v):
    """a message satisfying the rule view v, then near-miss mutations"""
    near = rng.choice([0.0, 0.0, 0.15, 0.4])
    t = int(v.get("ty", rng.choice([1, 2, 3, 4, 4, 4])))
    f = {}
    f["sn"] = v["sn"] if v.get("sn") in UNIQ else rng.choice(UNIQ + [None])
    f["if"] = v.get("if", rng.choice(IFACES + [None]))
    f["mb"] = v.get("mb", rng.choice(MEMBERS + [None]))
    if "pa" in v:
        f["pa"] = v["pa"]
    elif "pn" in v:
        f["pa"] = path_near(rng, v["pn"]) if rng.random() < 0.8 else v["pn"]
    else:
        f["pa"] = rng.choice(PATHS + [None])
    f["de"] = v.get("de", rng.choice(UNIQ + WELL + [None, None]))
    # header near misses
    for _ in range(rng.choice([0, 0, 1, 1, 2, 3])):
        c = rng.random()
        if c < 0.12:
            t = rng.choice([1, 2, 3, 4])
        elif c < 0.27:
            f["sn"] = rng.choice(UNIQ + [None])
        elif c < 0.40:
            f["if"] = rng.choice(IFACES + [None])
        elif c < 0.52:
            f["mb"] = rng.choice(MEMBERS + [None])
        elif c < 0.75:
            f["pa"] = path_near(rng, f["pa"] or "/a") if rng.random() < 0.85 else None
        else:
            f["de"] = rng.choice(UNIQ + UNIQ + WELL + [None, None])
    if f["pa"] is not None and not ok_path(f["pa"]):
        f["pa"] = "/a"
    # the constructors demand these fields
    if t in (1, 4):
        f["pa"] = f["pa"] or rng.choice(PATHS)
        f["mb"] = f["mb"] or rng.choice(MEMBERS)
    if t == 4:
        f["if"] = f["if"] or rng.choice(IFACES)
    fields = [("ty", str(t))] + [(k, f[k]) for k in ("sn", "if", "mb", "pa", "de") if f[k] is not None]
    return fields + body_for(rng, v, near)


def refused_rule(rng):
    ops = gen_rule(rng)
    c = rng.random()
    if c < 0.3:
        bad = (rng.choice(["sn", "if", "mb", "de"]), rng.choice(BAD_NAMES))
    elif c < 0.55:
        bad = (rng.choice(["pa", "pn", "aq"]), rng.choice(BAD_PATHS))
    elif c < 0.7:
        bad = ("ap", (rng.choice([0, 1, 63]), rng.choice(BAD_PATHS)))
    elif c < 0.85:
        bad = (rng.choice(["ar", "ap"]), (rng.choice([64, 65, 100, 255]), "/a"))
    else:
        bad = ("ns", rng.choice(["", ".", "org.", ".org", "1org", "org..x", "a b", ":", "::a", "a" * 256]))
    ops.insert(rng.randint(0, len(ops)), bad)
    return ops


def gen(rng, tier):
    n = 30000 if tier == "quick" else 400000
    for i in range(n):
        if rng.random() < 0.05:
            ops = refused_rule(rng)
        else:
            ops = gen_rule(rng)
        v = rule_view(ops)
        yield line(ops, gen_msg(rng, v))
    # 65 appended arguments: the 65th add_arg is refused
    yield line([("aa", "x")] * 64, [("ty", "2"), ("bs", "x")])
    yield line([("aa", "x")] * 65, [("ty", "2"), ("bs", "x")])
    yield line([("aq", "/a")] * 64 + [("ap", (63, "/b"))], [("ty", "2"), ("bo", "/a")])


def nontrivial(case, impl_out):
    return impl_out == "T" or case.split(" / ")[0].count("=") >= 2


def classify(case, impl_out):
    head = case.split(" / ")[0]
    keys = sorted({t.split("=")[0] for t in head.split(" ")[1:] if "=" in t})
    shape = "hdr" if not any(k in ("ar", "ap", "aa", "aq", "ns") for k in keys) else "args"
    return "%s:%s" % (shape, impl_out)


def search(rng, bad_cases):
    # more of the same stream, four times the quick budget, different seed state
    for i in range(120000):
        ops = gen_rule(rng)
        yield line(ops, gen_msg(rng, rule_view(ops)))


ENABLED = True
PARTIAL = ["C21_partial", "C21_full_refuted", "C21_arg_path_string_refuted",
           "C21_arg_path_slash_refuted", "C21_sole_struct_refuted", "C21_sole_struct_arg0ns_refuted"]
LEVEL = "proof"
LEVEL_TEXT = ("Theorems in coq/theories/Properties/C21.v over a model of MatchRule::matches in code order: for every rule, every message "
              "(of the modelled shape) and every name-ownership relation, outside two explicitly described deviation classes the code's "
              "verdict equals the D-Bus specification's match-rule semantics (C21_partial); in the documented exemption (well-known "
              "sender / destination) no message the specification delivers is dropped (C21_exempt_no_false_negative). The full statement "
              "is still refuted by four machine-checked counterexamples, each confirmed on the real code (known findings); three earlier "
              "classes (destination vs. a message without destination, path_namespace as string prefix: fix 8cf9b673; arg0namespace "
              "reading a non-string first argument: fix 3ae57b16) were repaired and are now inside the theorem. "
              "The model is tied to the code by differential runs on builder-built rules and near-miss messages; the specification "
              "oracle is evaluated on the implementation's verdicts. Partial: the theorem excludes the two known classes.")
LEVEL_NOTE = ("Partial. Trusted: Coq kernel; the hand-written model (C21/Model.v) incl. the message abstraction and the body encoding of nine "
              "argument shapes; C10's validator model; harness hmatch. Known findings: argNpath is equality on object paths only (no strings, "
              "no trailing-slash rule); a single struct argument is flattened into arg0, arg1, ... (seen by argN, argNpath and "
              "arg0namespace). Fixed (witnesses kept, must pass): destination vs. absent destination, path_namespace string prefix "
              "(8cf9b673); arg0namespace on a non-string first argument (3ae57b16).")
