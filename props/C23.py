"""C23 — D-Bus addresses round-trip through their string form; every value is percent-decoded on parsing."""

ID = "C23"
CRATE = "haddr"
RUN_MODULE = "C23.Run"
RULE = ("value cases `v`: address values built through the public constructors (unix path/abstract/dir/tmpdir, tcp and nonce-tcp "
        "with family/bind/nonce file, vsock, unixexec with argv0 and 0..12 args, optional GUID), formatted and parsed back; every field "
        "kind swept over all 256 byte values (128 for the String fields), then random values: mostly plain paths, some with "
        "% , ; = : space, non-ASCII UTF-8, arbitrary bytes, empty. string cases `p`: address strings of random values in random "
        "alternative escapings (upper/lower hex, escaped safe bytes), option-level constructions with known/unknown keys, duplicates, "
        "odd ports, GUIDs of wrong shape, and character-level mutations of valid strings. non-trivial = parsed OK, or an error "
        "on a string with a known transport name and at least one key=value pair")
TRUSTED = ["winnow 0.7 combinators take_until(1..)/take_while(1..)/alphanumeric1/separated(0..)/Parser::parse and the HashMap "
           "accumulation (last insert wins) as mirrored in C23/Model.v",
           "Rust core: <u16|u32 as FromStr> (optional '+', digits, range check), Display of integers, PathBuf/OsString From<&str>"]
ASSUMPTIONS = ["address strings are valid UTF-8 (&str API); host/bind are Strings (valid UTF-8); Linux build with features p2p+vsock "
               "(autolaunch/launchd transports are compiled out and parse as unsupported)",
               "the spec oracle constrains a string only if it is well formed per the specification (alphanumeric distinct keys, "
               "every value correctly escaped) and its keys can be interpreted; leniency on malformed strings is not judged"]

SAFE = set(b"-0123456789ABCDEFGHIJKLMNOPQRSTUVWXYZabcdefghijklmnopqrstuvwxyz_/.\\*")
UNIX_KINDS = ["path", "abstract", "dir", "tmpdir"]


def hx(b):
    return bytes(b).hex()


def fields_line(name, items):
    return "v %s/%s" % (name, ",".join("%s=%s" % (k, hx(v)) for k, v in items))


# ---------------------------------------------------------------- random raw values
PLAIN = [b"/tmp/dbus-foo", b"/run/user/1000/bus", b"/var/run/dbus/system_bus_socket", b"/tmp/a", b"x", b"/", b"dbus-1",
         b"/some/dir", b"C:\\tmp\\sock", b"/tmp/*"]
SPECIAL = [b"%", b",", b";", b"=", b":", b" ", b"%20", b"%2", b"%zz", b"+", b"~", b"\"", b"'", b"\n", b"\x00", b"\xff",
           "é".encode(), "日本".encode(), b"\xc3", b"a,b=c", b";tcp:host=x"]


def rand_bytes(rng, utf8=False):
    r = rng.random()
    if r < 0.45:
        v = rng.choice(PLAIN) + bytes(rng.choice(b"abcXYZ019_-./") for _ in range(rng.randint(0, 6)))
    elif r < 0.80:
        v = rng.choice(PLAIN)
        for _ in range(rng.randint(1, 3)):
            s = rng.choice(SPECIAL)
            pos = rng.randint(0, len(v))
            v = v[:pos] + s + v[pos:]
    elif r < 0.95:
        v = bytes(rng.randrange(256) for _ in range(rng.randint(1, 12)))
    elif r < 0.98:
        v = b""
    else:
        v = bytes(rng.randrange(256) for _ in range(rng.randint(50, 300)))
    if utf8:
        v = v.decode("utf8", "replace").encode("utf8")
    return v


HOSTS = [b"localhost", b"127.0.0.1", b"::1", b"example.org", b"fe80::1%eth0", "bücher.example".encode(), b"h", b"[::1]", b"a b"]


def rand_guid(rng):
    return bytes(rng.choice(b"0123456789abcdefABCDEF") for _ in range(32))


def rand_port(rng, bits):
    r = rng.random()
    top = (1 << bits) - 1
    if r < 0.3:
        return rng.choice([0, 1, 80, 4142, top, top - 1, 10, 100, 65535, 65536 if bits > 16 else 9])
    return rng.randint(0, top)


def rand_value(rng):
    """-> (name, items) in Display order with raw values"""
    k = rng.random()
    if k < 0.35:
        name, items = "unix", [(rng.choice(UNIX_KINDS), rand_bytes(rng))]
    elif k < 0.6:
        items = []
        name = "tcp"
        if rng.random() < 0.5:
            name = "nonce-tcp"
            items.append(("noncefile", rand_bytes(rng)))
        host = rng.choice(HOSTS) if rng.random() < 0.6 else rand_bytes(rng, utf8=True)
        items.append(("host", host))
        items.append(("port", str(rand_port(rng, 16)).encode()))
        if rng.random() < 0.08:
            items.append(("bind", rng.choice(HOSTS) if rng.random() < 0.7 else rand_bytes(rng, utf8=True)))
        if rng.random() < 0.5:
            items.append(("family", rng.choice([b"ipv4", b"ipv6"])))
    elif k < 0.7:
        name, items = "vsock", [("cid", str(rand_port(rng, 32)).encode()), ("port", str(rand_port(rng, 32)).encode())]
    else:
        name = "unixexec"
        items = [("path", rand_bytes(rng))]
        if rng.random() < 0.4:
            items.append(("argv0", rand_bytes(rng)))
        n = rng.choice([0, 0, 1, 1, 2, 3, 4, 9, 10, 11, 12]) if rng.random() < 0.9 else rng.randint(13, 25)
        for i in range(n):
            items.append(("argv%d" % (i + 1), rand_bytes(rng) if rng.random() < 0.5 else rng.choice([b"-c", b"--session", b"a=b", b"x y", b"1"])))
    if rng.random() < 0.3:
        items.append(("guid", rand_guid(rng)))
    return name, items


# ---------------------------------------------------------------- address strings
def esc(rng, v, style):
    """one of the specification's escaped forms of the raw value v.
    style: 'min' = escape only what must be, lower hex (what Display prints); 'alt' = random choices"""
    out = []
    for c in v:
        must = c not in SAFE
        if must or (style == "alt" and rng.random() < 0.25):
            h = "%%%02x" % c
            if style == "alt" and rng.random() < 0.5:
                h = h.upper()
            out.append(h)
        else:
            out.append(chr(c))
    return "".join(out)


def string_of(rng, name, items, style):
    parts = []
    for k, v in items:
        if k in ("port", "cid", "family", "guid") and not (style == "alt" and rng.random() < 0.05):
            parts.append("%s=%s" % (k, v.decode()))
        else:
            parts.append("%s=%s" % (k, esc(rng, v, style)))
    return "%s:%s" % (name, ",".join(parts))


NAMES = ["unix", "tcp", "nonce-tcp", "vsock", "unixexec", "autolaunch", "launchd", "foo", "", "UNIX", "unix "]
KEYS = ["path", "abstract", "dir", "tmpdir", "host", "port", "bind", "family", "noncefile", "cid", "guid", "argv0", "argv1", "argv2",
        "argv3", "argv01", "argv10", "scope", "env", "foo", "a1", "Path", "", "foo-bar", "k_"]
VALS = ["/tmp/a", "/tmp/a%20b", "a b", "%41", "%4", "%", "%zz", "%C3%A9", "é", "localhost", "::1", "80", "080", "+80", "+", "-1", "65535",
        "65536", "4294967295", "4294967296", "ipv4", "ipv6", "ipv7", "", "x=y", "x:y", "x;y", "0123456789abcdef0123456789abcdef",
        "0123456789ABCDEF0123456789abcdef", "0123456789abcdef0123456789abcde", "01234567-89ab-cdef-0123-456789abcdef", "%30123456789abcdef0123456789abcdef",
        "*", "\\", "~", "sh", "-c", "a,b"]
REQUIRED = {"unix": [["path"], ["abstract"], ["dir"], ["tmpdir"]], "tcp": [["host", "port"]], "nonce-tcp": [["host", "port", "noncefile"]],
            "vsock": [["cid", "port"]], "unixexec": [["path"]]}
GOODVAL = {"path": ["/tmp/a", "/tmp/a%20b", "sh", "%2Ftmp"], "abstract": ["/tmp/dbus-x", "a%00b"], "dir": ["/tmp"], "tmpdir": ["/tmp", "%2ftmp"],
           "host": ["localhost", "127.0.0.1", "%3a%3a1", "::1"], "port": ["0", "80", "65535", "4142", "007"], "noncefile": ["/a/file", "/a%20b", "%2F"],
           "cid": ["1", "98", "4294967295"], "family": ["ipv4", "ipv6"], "guid": ["0123456789abcdef0123456789abcdef"],
           "argv0": ["sh", "a%20b"], "argv1": ["-c", "%2dc"], "argv2": ["echo", "x%3dy"], "argv3": ["z"], "bind": ["localhost", "%2a"]}


def option_string(rng):
    name = rng.choice(NAMES[:5]) if rng.random() < 0.8 else rng.choice(NAMES)
    items = []
    if name in REQUIRED and rng.random() < 0.85:
        for k in rng.choice(REQUIRED[name]):
            items.append((k, rng.choice(GOODVAL[k])))
    for _ in range(rng.choice([0, 0, 1, 1, 2, 3])):
        k = rng.choice(KEYS)
        v = rng.choice(GOODVAL[k]) if k in GOODVAL and rng.random() < 0.6 else rng.choice(VALS)
        items.append((k, v))
    if rng.random() < 0.5:
        rng.shuffle(items)
    s = name + ":" + ",".join("%s=%s" % kv for kv in items)
    r = rng.random()
    if r < 0.04:
        s += ","
    elif r < 0.06:
        s = s.replace(":", "", 1)
    elif r < 0.08:
        s = s.replace("=", "", 1)
    elif r < 0.10:
        s = s + ";" + s
    return s


MUT = list(",=:;%/ aZ09-_.\\*+") + ["é", "%2", "%2c", ",,", "=="]


def mutate(rng, s):
    for _ in range(rng.choice([1, 1, 2, 3])):
        pos = rng.randint(0, len(s))
        r = rng.random()
        if r < 0.35 and s:
            pos = min(pos, len(s) - 1)
            s = s[:pos] + s[pos + 1:]
        elif r < 0.7:
            s = s[:pos] + rng.choice(MUT) + s[pos:]
        elif s:
            pos = min(pos, len(s) - 1)
            s = s[:pos] + rng.choice(MUT) + s[pos + 1:]
    return s


def pline(s):
    return "p " + s.encode("utf8").hex()


def sweeps():
    """every byte value in every kind of field"""
    for b in range(256):
        one = bytes([b])
        for kind in UNIX_KINDS:
            yield fields_line("unix", [(kind, one)])
        yield fields_line("unix", [("path", b"/tmp/" + one + b"x")])
        yield fields_line("nonce-tcp", [("noncefile", one), ("host", b"h"), ("port", b"1")])
        yield fields_line("unixexec", [("path", one)])
        yield fields_line("unixexec", [("path", b"sh"), ("argv0", one)])
        yield fields_line("unixexec", [("path", b"sh"), ("argv1", one), ("argv2", b"x" + one)])
        if b < 128:
            yield fields_line("tcp", [("host", one), ("port", b"80")])
            yield fields_line("tcp", [("host", b"h"), ("port", b"80"), ("bind", one)])
            # the same byte written literally / escaped in a string
            for key, pre in (("path", "unix:"), ("abstract", "unix:"), ("noncefile", "tcp:host=h,port=1,"), ("host", "tcp:port=1,"),
                             ("argv1", "unixexec:path=sh,")):
                yield pline("%s%s=a%sb" % (pre, key, chr(b)))
                yield pline("%s%s=%%%02x" % (pre, key, b))
        for key, pre in (("path", "unix:"), ("noncefile", "tcp:host=h,port=1,"), ("path", "unixexec:")):
            yield pline("%s%s=%%%02X%%%02x" % (pre, key, b, b))
            if b < 128:
                yield pline("%s%s=%%%s%sz" % (pre, key, chr(b), "0"))
                yield pline("%s%s=%%%s%sz" % (pre, key, "0", chr(b)))


def gen(rng, tier):
    yield from sweeps()
    nv = 30000 if tier == "quick" else 300000
    for _ in range(nv):
        name, items = rand_value(rng)
        yield fields_line(name, items)
    ns = 12000 if tier == "quick" else 120000
    for _ in range(ns):
        name, items = rand_value(rng)
        yield pline(string_of(rng, name, items, "alt" if rng.random() < 0.7 else "min"))
    for _ in range(ns * 2):
        yield pline(option_string(rng))
    for _ in range(ns):
        name, items = rand_value(rng)
        base = string_of(rng, name, items, "min") if rng.random() < 0.6 else option_string(rng)
        yield pline(mutate(rng, base))


def meets_spec(impl, spec):
    # the implementation prints <result>;<display or more>; the specification constrains <result>
    return impl.split(";")[0] == spec


def nontrivial(case, impl_out):
    if impl_out.startswith("OK"):
        return True
    if case.startswith("p "):
        try:
            s = bytes.fromhex(case[2:]).decode("utf8", "replace")
        except ValueError:
            return False
        return s.split(":")[0] in REQUIRED and "=" in s
    return True


def classify(case, impl_out):
    kind = case[0]
    res = impl_out.split(";")[0]
    if res.startswith("OK:"):
        body = res[3:]
        tr = body.split("/")[0]
        flag = ""
        if kind == "v":
            flag = ":eq" if body.endswith(":T") else ":neq"
        else:
            flag = ":rt-" + impl_out.split(";")[-1]
        return "%s:OK:%s%s" % (kind, tr, flag)
    return "%s:%s" % (kind, res)


def search(rng, bad_cases):
    yield from sweeps()
    for _ in range(40000):
        name, items = rand_value(rng)
        yield fields_line(name, items)
        yield pline(string_of(rng, name, items, "alt"))
        yield pline(option_string(rng))


ENABLED = True
LEVEL = "proof"
LEVEL_TEXT = ("Theorems in coq/theories/Properties/C23.v, all unbounded: decode_percents (encode_percents bs) = Ok bs for every byte "
              "list; the model's decoder accepts exactly the specification's escaped forms; Display prints a specification-conformant "
              "address string that denotes the value (for every address value); FromStr of ANY escaped form of an address value returns "
              "that value, outside three named deviation classes (a value other than the nonce file that needs or uses a %XX escape, "
              "an empty value, tcp `bind`), each of which is refuted by a witness in Coq and confirmed on the real code. The model is "
              "tied to zbus by differential runs over all byte values in every field kind plus random values and strings.")
LEVEL_NOTE = ("partial: the full statement (round trip for every value, percent-decoding of every value) is REFUTED on this tree "
              "(known findings undecoded_value, empty_value, tcp_bind); the proved theorem is the statement outside those classes plus "
              "the full-strength codec and Display theorems. Trusted: Coq kernel; the hand-written model of Address FromStr/Display and of "
              "the winnow combinators and integer parsing it uses; the haddr harness; Linux/p2p+vsock build only.")
PARTIAL = ["C23_roundtrip_partial", "C23_display_roundtrip_partial", "C23_undecoded_value_refuted", "C23_empty_value_refuted",
           "C23_tcp_bind_refuted", "C23_decoding_refuted"]
