"""C04 — decoding untrusted bytes never crashes (D-Bus format; all feature configurations, debug and release)."""
import codec_gen as G

ID = "C04"
CRATE = "hz"
RUN_MODULE = "DBus.Run"
CONFIGS = [
    {"name": "debug", "profile": "debug"},
    {"name": "debug-gvariant-oaa", "profile": "debug", "features": ["gvariant", "oaa"], "target_subdir": "target-go", "cfg": "go"},
    {"name": "release", "profile": "release", "thorough_only": False},
]
RULE = ("hostile inputs: valid encodings with 1-3 byte mutations, truncations at every position of short encodings, length fields "
        "set to huge values, random bytes, deep signatures (33/65 nested containers, variants nested in variants), signatures with "
        "`m` under the gvariant configuration; every successfully decoded value is re-encoded. Oracle: no PANIC/abort on decode or "
        "re-encode. Configurations: default features debug+release, gvariant+option-as-array debug. non-trivial = >= 8 input bytes")
TRUSTED = ["model DBus/De.v with every slice/index/unreachable!/assert on the decode path an explicit Panic outcome"]
ASSUMPTIONS = ["GVariant *format* decoding is not modelled (only the D-Bus format under the gvariant feature)",
               "allocation is bounded by the theorem C04_alloc on the model; the harness does not measure the allocator"]


def lines_for(config, cases):
    c = config.get("cfg", "--")
    return [x.replace(" -- ", " %s " % c, 1) for x in cases]


model_lines_for = lines_for


def meets_spec(impl, spec):
    return "PANIC" not in impl and "Rpanic" not in impl and "ABORT" not in impl and "HANG" not in impl


def gen(rng, tier):
    n = 2500 if tier == "quick" else 80000
    for _ in range(n):
        big = rng.random() < 0.5
        pos = G.rand_pos(rng) % 64
        s = G.rand_sig(rng, rng.choice([1, 2, 3]))
        if rng.random() < 0.5:
            v = ('v', G.rand_val(rng, s, 3))
            b, _ = G.marshal(v, big, pos, fdt=[0, 1, 2, 3])
            mk = lambda bb: G.case_de_v("--", big, pos, rng.choice([0, 4]), bb)
        else:
            v = ('r', [G.rand_val(rng, s, 3)])
            b, _ = G.marshal(v, big, pos, fdt=[0, 1, 2, 3])
            ss = G.sigstr(s)
            mk = lambda bb: G.case_de_s("--", big, pos, rng.choice([0, 4]), ss, bb)
        for _ in range(4):
            yield mk(G.mutate(rng, G.mutate(rng, b) if rng.random() < 0.3 else b))
        if len(b) <= 32:
            for i in range(len(b) + 1):
                yield mk(b[:i])
        # huge length fields
        if len(b) >= 8:
            i = rng.randrange(0, len(b) - 3)
            yield mk(b[:i] + rng.choice([b"\xff\xff\xff\xff", b"\xff\xff\xff\x7f", b"\x00\x00\x00\x80", b"\xfe\xff\xff\xff"]) + b[i + 4:])
    for _ in range(n // 2):
        s = G.rand_sig(rng, 3)
        yield G.case_de_s("--", rng.random() < 0.5, rng.randint(0, 9), 2, G.sigstr(s), bytes(rng.randrange(256) for _ in range(rng.randint(0, 40))))
        yield G.case_de_v("--", rng.random() < 0.5, rng.randint(0, 9), 2, bytes(rng.randrange(256) for _ in range(rng.randint(0, 40))))
    # deep signatures and nested variants
    for d in (31, 32, 33, 64, 65, 70):
        yield G.case_de_s("--", False, 0, 0, "a" * d + "y", b"\0" * 16)
        yield G.case_de_s("--", False, 0, 0, "(" * d + "y" + ")" * d, b"\0" * 16)
        yield G.case_de_v("--", False, 0, 0, b"\x01v\x00" * d + b"\x01y\x00\x07")
        yield G.case_de_v("--", False, 0, 0, b"\x01v\x00" * d)
    # maybe signatures (only parse under the gvariant configuration)
    for sg in ("my", "amy", "(my)", "a{smy}", "a{mys}", "mmy", "amay", "m(y)"):
        for b in (b"", b"\0" * 4, b"\0" * 16, b"\x04\0\0\0\x01\0\0\0", b"\x01\0\0\0\x07"):
            yield G.case_de_s("--", False, 0, 0, sg, b)
        yield G.case_de_v("--", False, 0, 0, bytes([len(sg)]) + sg.encode() + b"\0" + b"\0" * 12)


def nontrivial(case, impl_out):
    return len(case.split(" ")[-1]) >= 16


def classify(case, impl_out):
    return impl_out.split(":")[0]


def search(rng, bad):
    for c in gen(rng, "quick"):
        yield c


ENABLED = True
LEVEL = "proof"
LEVEL_TEXT = ("Theorem over DBus/De.v, in which every slice, index, subtraction, unwrap and unreachable! of the decode path is an explicit "
              "Panic outcome: for all bytes, signatures, offsets and configurations the decoder returns Ok or Err (never Panic) outside the "
              "one known class (a `m` type reaching the D-Bus alignment table under the gvariant feature), the recursion depth is bounded by "
              "the container limits, and re-encoding a decoded value does not panic. The real decoder is run in debug and release and with "
              "gvariant+option-as-array on mutated, truncated, random and deep inputs.")
LEVEL_NOTE = ("Partial. This check covers the D-Bus format; the GVariant deserializer (zvariant/src/gvariant/de.rs) is modelled and its "
              "no-panic theorems (C04_gv_panic_classes, C04_gv_step, C04_gv_nopanic_partial) and hostile-input runs live in the C05 "
              "check (Properties/C05.v); stack depth of the "
              "signature parser on caller-supplied signatures is bounded only by the signature length; allocation bound stated on the model.")
