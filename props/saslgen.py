"""Shared case generators for C16 (server side) and C17 (client side) of the SASL handshake.

Case syntax: see harness/hsasl/src/main.rs.
  S <mech> <uid> <fdcap> <wmax> <obs> <chunks>
  C <mech> <guid> <fdcap> <flatpak> <wmax> <obs> <chunks>
"""
import itertools
import struct

GUID = "0123456789abcdef0123456789abcdef"       # the server GUID used by the harness
GUID2 = "1123456789abcdef0123456789abcdef"
UID = "1000"


def hx(b):
    return b.hex()


def H(s):
    return s.encode().hex().encode()


# ---------------------------------------------------------------- chunking

def chunks_tok(chunks):
    """chunks: list of bytes or (bytes, nfds)"""
    out = []
    for c in chunks:
        if isinstance(c, tuple):
            out.append(hx(c[0]) + ("@%d" % c[1] if c[1] else ""))
        else:
            out.append(hx(c))
    return ",".join(out) if out else "-"


def split_at(data, cuts):
    cuts = sorted(set(c for c in cuts if 0 < c < len(data)))
    out, prev = [], 0
    for c in cuts + [len(data)]:
        out.append(data[prev:c])
        prev = c
    return [x for x in out if x] if data else []


def all_splits(data):
    n = len(data)
    for mask in range(1 << max(0, n - 1)):
        yield split_at(data, [i + 1 for i in range(n - 1) if mask >> i & 1])


def random_split(rng, data, p=None):
    if p is None:
        p = rng.choice([0.02, 0.1, 0.3, 0.7])
    return split_at(data, [i for i in range(1, len(data)) if rng.random() < p])


def line_splits(data):
    """cut after every LF; and between every CR and LF"""
    a = split_at(data, [i + 1 for i, b in enumerate(data) if b == 10])
    b = split_at(data, [i for i, b in enumerate(data) if b == 10])
    return [a, b]


def chunkings(rng, data, k):
    """a few chunkings of one stream: whole, per line, CR|LF, per byte (short), k random ones"""
    out = [[data] if data else []]
    out += line_splits(data)
    if len(data) <= 48:
        out.append([data[i:i + 1] for i in range(len(data))])
    for _ in range(k):
        out.append(random_split(rng, data))
    seen, res = set(), []
    for c in out:
        t = tuple(c)
        if t not in seen:
            seen.add(t)
            res.append(c)
    return res


def with_fds(rng, chunks, nfds):
    """attach nfds fds to random chunks"""
    if not chunks or nfds == 0:
        return chunks
    cnt = [0] * len(chunks)
    for _ in range(nfds):
        cnt[rng.randrange(len(chunks))] += 1
    return [(c, n) for c, n in zip(chunks, cnt)]


# ---------------------------------------------------------------- D-Bus messages for the tail

def _pad(b, n):
    return b + b"\0" * (-len(b) % n)


def dbus_signal(serial=1, nfds=0, member="M"):
    """a little-endian signal /p a.b.<member> with body `h`*nfds (indices 0..nfds-1) and UNIX_FDS = nfds"""
    fields = b""

    def add(code, sig, val):
        nonlocal fields
        fields = _pad(fields, 8)
        fields += bytes([code, len(sig)]) + sig.encode() + b"\0" + val

    def s(v):
        return struct.pack("<I", len(v)) + v.encode() + b"\0"

    add(1, "o", s("/p"))
    add(2, "s", s("a.b"))
    add(3, "s", s(member))
    body = b""
    if nfds:
        sig = "h" * nfds
        add(8, "g", bytes([len(sig)]) + sig.encode() + b"\0")
        add(9, "u", struct.pack("<I", nfds))
        body = b"".join(struct.pack("<I", i) for i in range(nfds))
    head = b"l" + bytes([4, 0, 1]) + struct.pack("<II", len(body), serial) + struct.pack("<I", len(fields)) + fields
    return _pad(head, 8) + body


# ---------------------------------------------------------------- server-side vocabulary (client lines)

OWN = H(UID)            # hex("1000")
OTHER = H("1001")

S_AUTH = [
    b"AUTH", b"AUTH EXTERNAL", b"AUTH ANONYMOUS", b"AUTH DBUS_COOKIE_SHA1", b"AUTH FOO",
    b"AUTH EXTERNAL " + OWN, b"AUTH EXTERNAL " + OTHER, b"AUTH EXTERNAL zz", b"AUTH EXTERNAL 313",
    b"AUTH ANONYMOUS " + OWN, b"AUTH ANONYMOUS 7a627573", b"AUTH ANONYMOUS zz",
    b"AUTH FOO " + OWN,
]
S_AUTH_MORE = [
    b"AUTH EXTERNAL " + H("ab"), b"AUTH EXTERNAL " + H("+1000"), b"AUTH EXTERNAL " + H("-1000"),
    b"AUTH EXTERNAL " + H("01000"), b"AUTH EXTERNAL " + H("4294967295"), b"AUTH EXTERNAL " + H("4294967296"),
    b"AUTH EXTERNAL " + H("1000 "), b"AUTH EXTERNAL ff", b"AUTH EXTERNAL c3a9", b"AUTH EXTERNAL " + H("+"),
    b"AUTH EXTERNAL " + OWN + b" extra", b"AUTH  EXTERNAL  " + OWN, b"AUTH\tEXTERNAL\t" + OWN, b" AUTH EXTERNAL " + OWN,
    b"auth EXTERNAL " + OWN, b"AUTH external " + OWN, b"AUTH EXTERNAL " + OWN.upper(), b"AUTHX", b"AUTH EXTERNAL\r",
    b"AUTH EXTERNAL " + H("99999999999999999999"), b"AUTH EXTERNAL 3130303", b"AUTH EXTERNAL 00",
    b"AUTH ANONYMOUS ff", b"AUTH ANONYMOUS extra words here",
]
S_DATA = [b"DATA", b"DATA " + OWN, b"DATA " + OTHER, b"DATA zz", b"DATA " + H("ab")]
S_DATA_MORE = [b"DATA ff", b"DATA  ", b"DATA " + H("+1000"), b"DATA " + OWN + b" x", b"data", b"DATA 0", b"DATA\t" + OWN]
S_OTHER = [b"BEGIN", b"CANCEL", b"ERROR", b"NEGOTIATE_UNIX_FD", b"FOO", b""]
S_OTHER_MORE = [b"ERROR some text", b"BEGIN extra", b"CANCEL x", b" ", b"OK " + GUID.encode(), b"REJECTED EXTERNAL",
                b"AGREE_UNIX_FD", b"\xff", b"AUTH\xc3\xa9", b"BEGIN\xff", b"NEGOTIATE_UNIX_FD 1", b"begin", b"\0BEGIN", b"BEGIN\0"]

CRLF = b"\r\n"


def s_stream(lines, first=b"\0", terms=None, tail=b""):
    out = first
    for i, l in enumerate(lines):
        out += l + (terms[i] if terms else CRLF)
    return out + tail


def s_case(mech, uid, fdcap, wmax, obs, chunks):
    return "S %s %s %d %d %s %s" % (mech, uid, fdcap, wmax, obs, chunks_tok(chunks))


# ---------------------------------------------------------------- client-side vocabulary (server lines)

C_FIRST = [b"OK " + GUID.encode(), b"OK " + GUID2.encode(), b"OK", b"OK 0123", b"OK " + GUID.upper().encode(),
           b"OK " + GUID.encode() + b" extra", b"REJECTED EXTERNAL ANONYMOUS", b"REJECTED", b"ERROR", b"ERROR nope", b"DATA",
           b"DATA 00", b"AGREE_UNIX_FD", b"FOO", b"", b"BEGIN"]
C_FIRST_MORE = [b"OK 01234567-89ab-cdef-0123-456789abcdef", b"OK " + GUID[:31].encode() + b"g", b"OK " + GUID.encode() + b"0",
                b"OK\t" + GUID.encode(), b" OK " + GUID.encode(), b"ok " + GUID.encode(), b"OK " + GUID.encode() + b"\r",
                b"\xff", b"OK \xc3\xa9", b"AUTH", b"AUTH EXTERNAL", b"CANCEL", b"NEGOTIATE_UNIX_FD", b"DATA zz", b"\0OK " + GUID.encode()]
C_SECOND = [b"AGREE_UNIX_FD", b"ERROR", b"ERROR not supported", b"OK " + GUID.encode(), b"OK " + GUID2.encode(), b"REJECTED EXTERNAL",
            b"DATA", b"FOO", b"", b"BEGIN", b"AGREE_UNIX_FD x", b"OK bad"]


def c_case(mech, guid, fdcap, flatpak, wmax, obs, chunks):
    return "C %s %s %d %d %d %s %s" % (mech, guid, fdcap, flatpak, wmax, obs, chunks_tok(chunks))


TERMS = [CRLF, CRLF, CRLF, CRLF, CRLF, CRLF, b"\n", b"\r\r\n", b"\r", b"\r\n\n", b"\n\r\n"]


def obs_hex(out, key):
    for t in out.split(" "):
        if t.startswith(key + "="):
            return t[len(key) + 1:]
    return None
