"""C15 — message serial numbers are never zero and never repeat."""
import resource

# observations of thread runs are long lines; the extracted model and coqc recurse over them
try:
    resource.setrlimit(resource.RLIMIT_STACK, (resource.RLIM_INFINITY, resource.getrlimit(resource.RLIMIT_STACK)[1]))
except (ValueError, OSError):
    pass

ID = "C15"
CRATE = "hconn"
RUN_MODULE = "C15.Run"
TWO_PHASE = True
SHARDS = 1            # one process, cases in order: the counter is process-wide and the wrap-around is approached on purpose
RULE = ("one harness process, cases in order. sequential builds (complete messages through message::Builder and bare "
        "PrimaryHeader::new) compared exactly with the model's next_serials from the counter value implied by a probe build; "
        "2-16 threads (spin-gate start) x 40-2000 builds (bare headers for contention, complete messages too) checked to be a final "
        "state of the model (every serial non-zero and inside the fetched range, all distinct, every thread in program order), and by "
        "the spec oracle (pairwise distinct, non-zero, right count); "
        "then the REAL counter is driven to the 32-bit boundary (about 2^32 cheap PrimaryHeader::new calls, ~30 s, no hook) and the wrap "
        "is crossed sequentially or by 16 racing threads (seed-dependent; thorough: three cycles); the first build of the process exercises the "
        "zero skip as the static starts at 0. non-trivial = a thread case, or a sequential case of >= 2 builds")
TRUSTED = ["threads of the harness really run concurrently (std::thread + Barrier on a multi-core machine); which interleavings occur is up to the OS",
           "burn count is checked against a closed form (number of non-zero values between two counter values), not by replaying 2^32 model steps"]
ASSUMPTIONS = ["AtomicU32::fetch_add is atomic and wraps modulo 2^32 (Rust/LLVM contract)",
               "Relaxed ordering suffices because only the single counter location is involved (per-location coherence)",
               "uniqueness is claimed for at most 2^32 fetches / 2^32-1 message builds, as the property text says (until the counter wraps)"]

M = 1 << 32


def gen(rng, tier):
    quick = tier == "quick"
    tag = [0]

    def thr(t, n, kind):
        tag[0] += 1
        return "S thr %d %d %s c%d" % (t, n, kind, tag[0])

    used = set()

    def seq(mode, n):
        while (mode, n) in used:
            n += 1
        used.add((mode, n))
        return "S %s %d" % (mode, n)

    # the first build of the process: the static starts at 0, so the zero skip is exercised right away
    yield seq("seq", 3)
    for _ in range(12 if quick else 60):
        yield seq(rng.choice(["seq", "hdr"]), rng.choice([1, 2, 5, 17, 40, 120]))
    for _ in range(24 if quick else 200):
        t = rng.choice([2, 3, 4, 8, 16, 16])
        kind = rng.choice(["hdr", "hdr", "msg"])
        n = rng.choice([100, 500, 2000]) if kind == "hdr" else rng.choice([40, 100, 400])
        yield thr(t, n, kind)
    # more builds in one case than a 16-bit counter could number
    for _ in range(0 if quick else 6):
        yield thr(16, 5000, "hdr")
    for cycle in range(1 if quick else 3):
        # approach the 32-bit boundary on the real counter
        yield "S burn %d" % (M - rng.randint(1200, 1500) - cycle)
        yield seq("hdr", rng.randint(50, 100))
        how = rng.choice(["hdr", "seq", "thr-hdr", "thr-msg"]) if cycle == 0 else ["seq", "thr-hdr", "thr-msg", "hdr"][cycle % 4]
        if how in ("hdr", "seq"):
            yield "S burn %d" % (M - rng.randint(2, 9) - cycle)
            yield seq(how, rng.randint(12, 30))           # ..., 2^32-1, 1, 2, ...  (0 is skipped)
        else:
            yield thr(16, 150, how[4:])                    # 2400 builds race across the boundary
        yield thr(8, 50, "hdr")
        yield seq("seq", 9)
    yield seq("hdr", 33)


def nontrivial(case, impl_out):
    w = case.split(" ")
    return w[1] == "thr" or (w[1] in ("seq", "hdr") and int(w[2]) >= 2)


def classify(case, impl_out):
    w = case.split(" ")
    wrapped = False
    if impl_out.startswith("start=") and ";" in impl_out and w[1] != "burn":
        head, rest = impl_out.split(";", 1)
        try:
            start = int(head[6:])
            vals = []
            for l in rest.split("|"):
                xs = [int(x) for x in l.split(",") if x]
                if w[1] == "thr":          # delta-encoded
                    acc = 0
                    for x in xs:
                        acc = (acc + x) % M
                        vals.append(acc)
                else:
                    vals += xs
            wrapped = any(v < start for v in vals)
        except ValueError:
            pass
    return "%s%s:%s" % (w[1], ":" + w[4] if w[1] == "thr" and len(w) > 4 else "", "wraps" if wrapped else ("PANIC" if impl_out == "PANIC" else "plain"))


def search(rng, bad_cases):
    n = [1000]
    for _ in range(60):
        n[0] += 1
        yield "S thr 16 250 hdr s%d" % n[0]
    for i in range(20):
        yield "S hdr %d" % (1000 + i)


ENABLED = True
LEVEL = "proof"
LEVEL_TEXT = ("Theorems in coq/theories/Properties/C15.v over a small-step model of PrimaryHeader::new (fetch_add; if 0, fetch_add again; "
              "NonZeroU32 unwrap) on a counter modulo 2^32 with an arbitrary scheduler and any number of concurrent builds: in every reachable "
              "state with at most 2^32 fetches (C15_unique_partial), equivalently fewer than 2^32 builds started (C15_messages_partial), from ANY "
              "counter value, the serials are pairwise distinct, non-zero, and the unwrap never panics; the bound is sharp (Example bound_is_sharp). "
              "PARTIAL: histories that clone a message::Builder are excluded (C15_clone_refuted: the clone carries the same serial). The model is "
              "tied to the code by exact sequential comparison, by thread runs checked to be interleavings of the model, and by crossing the real "
              "32-bit wrap-around without any hook.")
LEVEL_NOTE = ("Trusted: Coq kernel; the three-line model of PrimaryHeader::new; atomicity of AtomicU32::fetch_add (assumed contract: a non-atomic "
              "rewrite is a different program, caught only by the thread runs, i.e. probabilistically); harness/hconn. "
              "Known finding builder_clone: #[derive(Clone)] on message::Builder duplicates the serial.")
