"""C34 — introspection XML documents round-trip through zbus_xml's document model."""

ID = "C34"
CRATE = "hxml"
RUN_MODULE = "C34.Run"
RULE = ("documents are generated as XML infosets (token form), rendered to text by the harness, parsed with Node::try_from, written "
        "with Node::to_writer, re-read with try_from and from_reader and compared with ==; the written text is compared byte for byte "
        "with the model's printer and, parsed by an independent XML reader in the harness, with the model's to_tree; the parsed value "
        "(dumped through the getters) with the model's of_tree. Streams: valid documents with every optional present; valid documents "
        "with absent node names / arg names / directions; documents with ignorable junk (unknown and namespaced elements and "
        "attributes, text, children in shuffled order); invalid documents (bad names, signatures, directions, access values, missing "
        "and duplicate attributes). Strings contain XML specials, whitespace, control and non-ASCII characters; signatures of ~40 "
        "shapes. `u` cases: raw attribute text built from entity / character-reference fragments. non-trivial = accepted document "
        "with at least one interface or nested node, or a rejected one")
TRUSTED = ["quick-xml's tokenizer (text -> elements/attributes/text events) is NOT modelled: the model starts at the infoset; the "
           "end-to-end theorem takes `tokenize (print t) = Some t` on printable trees as a hypothesis",
           "serde derive output for the zbus_xml types and quick-xml's serde mapping as mirrored in C34/Model.v",
           "zvariant::Signature parse/Display (C06 model) and the zbus_names validators (C10 model) are imported, not re-proved; the "
           "round-trip theorem assumes `parse (show s) = Some s` for parsed signatures"]
ASSUMPTIONS = ["documents only arise by parsing (the types have no public constructors), so names are valid and signatures are parsed ones",
               "nesting depth is small enough for the recursive (de)serializers' stack"]

import random


def hx(s):
    return s.encode("utf8").hex()


# ---------------------------------------------------------------- token trees
def E(name, attrs=(), kids=()):
    return ("E", name, list(attrs), list(kids))


def T(s):
    return ("T", s)


def toks(t, out):
    if t[0] == "T":
        out.append('"' + hx(t[1]))
    else:
        out.append("[" + t[1])
        for k, v in t[2]:
            out.append("@%s=%s" % (k, hx(v)))
        for c in t[3]:
            toks(c, out)
        out.append("]")


def xline(t):
    out = []
    toks(t, out)
    return "x " + " ".join(out)


# ---------------------------------------------------------------- vocabulary
IFACES = ["org.freedesktop.DBus", "a.b", "A_1.b2", "org.freedesktop.DBus.Properties", "com.example.Foo1.Bar", "_a._b"]
BAD_IFACES = ["a", "a..b", ".a", "a.1b", "a b.c", "", "a.b.", "org.é"]
MEMBERS = ["Foo", "_x", "Get1", "GetAll", "PropertiesChanged", "a", "A" * 255]
BAD_MEMBERS = ["1x", "", "a.b", "a-b", "A" * 256, "x y", "é"]
PROPS = ["P", "Bar", "a.b-c d", "x", "<&>", "p" * 255, "é"]
BAD_PROPS = ["", "p" * 256]
SIGS = ["", "s", "i", "y", "b", "n", "q", "u", "x", "t", "d", "o", "g", "v", "h", "as", "a{sv}", "(ii)", "ii", "a(ii)", "a{s(ia{sv})}",
        "aa{sv}", "((i))", "a{vs}", "(sa{sv}as)", "sss", "a(ii)ii", "aay", "a{oa{sa{sv}}}", "(((((i)))))", "a{yv}", "(i(ss)ai)", "ay",
        "aaaaas", "a{s(ii)}", "(yyyyyyyy)", "ssssssssss", "a{ss}a{ss}", "x(t)d"]
BAD_SIGS = ["a", "{sv}", "a{s}", "(", "z", "mi", "i)", " i", "()", "a{}", "a{sv", "(i", "ii)", "a{svs}", "é", "I"]
STRS = ["", "x", "/", "/org/freedesktop/DBus", "a b", " lead", "trail ", "<", ">", "&", "\"", "'", "<&>\"'", "&amp;", "&lt;", "a&b;c",
        "é", "日本語", "\U0001F600", "tab\there", "nl\nhere", "cr\rhere", "crlf\r\nx", "  ", "]]>", "<!--", "-->", "a=b", "\u0085", " ",
        "true", "org.freedesktop.DBus.Deprecated", "org.freedesktop.DBus.Method.NoReply", "\x7f", "&#65;", "%41", "\\", "á"]


def rstr(rng):
    r = rng.random()
    if r < 0.55:
        return rng.choice(STRS)
    if r < 0.85:
        return "".join(rng.choice(STRS) for _ in range(rng.randint(2, 4)))
    n = rng.randint(1, 12)
    return "".join(chr(rng.choice([rng.randint(0x20, 0x7e), rng.randint(0xa0, 0x2ff), 0x9, 0xa, 0xd, rng.randint(0x4e00, 0x4e40)])) for _ in range(n))


# mode: 'full' every optional present; 'opt' optionals random; 'bad' may break something
def ann(rng, mode):
    a = [("name", rstr(rng) if rng.random() < 0.5 else rng.choice(["org.freedesktop.DBus.Deprecated", "a.b"])), ("value", rstr(rng))]
    if mode == "bad" and rng.random() < 0.3:
        a.pop(rng.randrange(2))
    if rng.random() < 0.3:
        a.reverse()
    return E("annotation", a)


def anns(rng, mode):
    return [ann(rng, mode) for _ in range(rng.choice([0, 0, 0, 1, 1, 2]))]


def arg(rng, mode):
    a = []
    if mode == "full" or rng.random() < 0.6:
        a.append(("name", rstr(rng) if rng.random() < 0.4 else rng.choice(["x", "value", "arg0", ""])))
    a.append(("type", rng.choice(BAD_SIGS) if mode == "bad" and rng.random() < 0.25 else rng.choice(SIGS)))
    if mode == "full" or rng.random() < 0.6:
        d = rng.choice(["in", "out"])
        if mode == "bad" and rng.random() < 0.25:
            d = rng.choice(["inout", "", "IN", " in"])
        a.append(("direction", d))
    if mode == "bad" and rng.random() < 0.1:
        a = [x for x in a if x[0] != "type"]
    if rng.random() < 0.3:
        rng.shuffle(a)
    return E("arg", a, anns(rng, mode) if rng.random() < 0.3 else [])


def member(rng, mode, tag):
    n = rng.choice(BAD_MEMBERS) if mode == "bad" and rng.random() < 0.2 else rng.choice(MEMBERS)
    kids = [arg(rng, mode) for _ in range(rng.choice([0, 1, 1, 2, 3]))] + anns(rng, mode)
    if rng.random() < 0.3:
        rng.shuffle(kids)
    a = [("name", n)]
    if mode == "bad" and rng.random() < 0.05:
        a = []
    return E(tag, a, kids)


def prop(rng, mode):
    n = rng.choice(BAD_PROPS) if mode == "bad" and rng.random() < 0.2 else rng.choice(PROPS)
    acc = rng.choice(["read", "write", "readwrite"])
    if mode == "bad" and rng.random() < 0.2:
        acc = rng.choice(["Read", "", "rw", "readwrite "])
    a = [("name", n), ("type", rng.choice(BAD_SIGS) if mode == "bad" and rng.random() < 0.2 else rng.choice(SIGS)), ("access", acc)]
    if mode == "bad" and rng.random() < 0.15:
        a.pop(rng.randrange(3))
    if rng.random() < 0.3:
        rng.shuffle(a)
    return E("property", a, anns(rng, mode))


def iface(rng, mode):
    n = rng.choice(BAD_IFACES) if mode == "bad" and rng.random() < 0.15 else rng.choice(IFACES)
    kids = []
    for _ in range(rng.choice([0, 1, 2, 3])):
        kids.append(member(rng, mode, "method"))
    for _ in range(rng.choice([0, 0, 1, 2])):
        kids.append(prop(rng, mode))
    for _ in range(rng.choice([0, 0, 1, 2])):
        kids.append(member(rng, mode, "signal"))
    kids += anns(rng, mode)
    if rng.random() < 0.4:
        rng.shuffle(kids)       # overlapped lists
    return E("interface", [("name", n)], kids)


def node(rng, mode, depth, root=False):
    a = []
    if mode == "full" or rng.random() < 0.7:
        a.append(("name", rstr(rng) if rng.random() < 0.4 else rng.choice(["/", "/org/a", "child", "", "a/b"])))
    kids = [iface(rng, mode) for _ in range(rng.choice([0, 1, 1, 2]))]
    if depth > 0:
        kids += [node(rng, mode, depth - 1) for _ in range(rng.choice([0, 0, 1, 2]))]
    if rng.random() < 0.3:
        rng.shuffle(kids)
    tag = "node"
    if root and rng.random() < 0.1:
        tag = rng.choice(["Node", "interface", "anything", "x:node"])
    return E(tag, a, kids)


JUNK_ATTRS = [("xmlns:doc", "http://www.freedesktop.org/dbus/1.0/doc.dtd"), ("xmlns", "u"), ("foo", "bar"), ("Name", "N"), ("xml:lang", "en"),
              ("doc:foo", "x"), ("annotation", "a"), ("value", "v")]


def junk(rng, t, p):
    """sprinkle ignorable things (and, rarely, things that collide) over a tree"""
    if t[0] == "T":
        return t
    _, name, attrs, kids = t
    attrs = list(attrs)
    kids = [junk(rng, k, p) for k in kids]
    if rng.random() < p:
        k, v = rng.choice(JUNK_ATTRS)
        if k == "value" and name == "annotation":
            k = "foo"
        attrs.insert(rng.randint(0, len(attrs)), (k, v))
    if rng.random() < p / 4:
        attrs.append(rng.choice([("x:name", "other"), ("name", "dup"), ("xml:name", "q"), ("xmlns:name", "q"), ("a:b:name", "deep")]))
    if rng.random() < p:
        j = rng.choice([T(" "), T("\n  "), T("text"), E("doc:doc", [], [T("some <doc>")]), E("unknown", [("a", "1"), ("a", "2")], []),
                        E("Interface", [("name", "x.y")]), E("name", [], [T("q")]), E("annotation2", []),
                        E("unknown", [], [E("interface", []), E("node", [("name", "hidden")])])])
        kids.insert(rng.randint(0, len(kids)), j)
    if rng.random() < p / 3 and name in ("method", "signal", "property", "arg", "annotation"):
        kids.append(rng.choice([E("method", [("name", "Nested")]), E("arg", [("type", "i")]), E("interface", [("name", "n.n")]),
                                E("node", [("name", "n")])]))
    if rng.random() < p / 3:
        name = rng.choice(["x:", "doc:", "a:b:"]) + name
    return ("E", name, attrs, kids)


# ---------------------------------------------------------------- raw attribute text for the unescape cases
FRAGS = ["&lt;", "&gt;", "&amp;", "&apos;", "&quot;", "&#65;", "&#x41;", "&#X41;", "&#0;", "&#x0;", "&#xD800;", "&#xDFFF;", "&#xE000;",
         "&#x10FFFF;", "&#x110000;", "&#4294967295;", "&#4294967296;", "&#+65;", "&#-65;", "&#;", "&#x;", "&;", "&", ";", "&amp", "&am;p;",
         "a", " ", "é", "&#xe9;", "&#233;", "&#x1F600;", "&#128512;", "&lt", "&LT;", "&&amp;;", "&#065;", "&#x00041;", "&#6 5;", "&#xg;",
         "&#127;", "&#128;", "&#2047;", "&#2048;", "&#65535;", "&#65536;", "&#x7ff;", "&#x800;", "&#xffff;", "&#x10000;", ">", "'", "x;y",
         "&nbsp;", "&#9;", "&#10;", "&#13;", "\t", "\n"]


GOOD_FRAGS = ["&lt;", "&gt;", "&amp;", "&apos;", "&quot;", "&#65;", "&#x41;", "&#xE000;", "&#x10FFFF;", "a", " ", "é", "&#xe9;", "&#233;",
              "&#x1F600;", "&#128512;", "&#065;", "&#x00041;", "&#127;", "&#128;", "&#2047;", "&#2048;", "&#65535;", "&#65536;", "&#x7ff;",
              "&#x800;", "&#xffff;", "&#x10000;", ">", "'", ";", "x;y", "&#9;", "&#10;", "&#13;", "\t", "\n", "&#xD7FF;", "&#xAbCd;"]


def uline(rng):
    pool = GOOD_FRAGS if rng.random() < 0.7 else FRAGS
    s = "".join(rng.choice(pool) for _ in range(rng.randint(1, 5)))
    return "u " + hx(s)


def fixed():
    """hand-picked documents that always run"""
    yield xline(E("node"))
    yield xline(E("node", [("name", "")]))
    yield xline(E("node", [("name", "/a")], [E("node", [("name", "b")])]))
    yield xline(E("node", [("name", "/a")], [E("node")]))
    for sig in SIGS + BAD_SIGS:
        yield xline(E("node", [("name", "/")], [E("interface", [("name", "a.b")], [
            E("method", [("name", "M")], [E("arg", [("name", "x"), ("type", sig), ("direction", "in")])]),
            E("property", [("name", "P"), ("type", sig), ("access", "read")])])]))
    for s in STRS:
        yield xline(E("node", [("name", s)], [E("interface", [("name", "a.b")], [E("annotation", [("name", s), ("value", s)]),
                    E("method", [("name", "M")], [E("arg", [("name", s), ("type", "s"), ("direction", "out")])])])]))
    for n in IFACES + BAD_IFACES:
        yield xline(E("node", [("name", "/")], [E("interface", [("name", n)])]))
    for n in MEMBERS + BAD_MEMBERS:
        yield xline(E("node", [("name", "/")], [E("interface", [("name", "a.b")], [E("method", [("name", n)]), E("signal", [("name", n)])])]))
    for n in PROPS + BAD_PROPS:
        for acc in ["read", "write", "readwrite", "Read", ""]:
            yield xline(E("node", [("name", "/")], [E("interface", [("name", "a.b")], [E("property", [("name", n), ("type", "i"), ("access", acc)])])]))
    for d in ["in", "out", "inout", "", None]:
        for nm in ["x", "", None]:
            a = ([("name", nm)] if nm is not None else []) + [("type", "i")] + ([("direction", d)] if d is not None else [])
            yield xline(E("node", [("name", "/")], [E("interface", [("name", "a.b")], [E("signal", [("name", "S")], [E("arg", a)])])]))
    for f in FRAGS:
        yield "u " + hx(f)
        yield "u " + hx("a" + f + "b")


def gen(rng, tier):
    yield from fixed()
    n = 4000 if tier == "quick" else 60000
    for _ in range(n):
        yield xline(node(rng, "full", rng.choice([0, 1, 2, 3]), root=True))
    for _ in range(n):
        yield xline(node(rng, "opt", rng.choice([0, 1, 2, 3]), root=True))
    for _ in range(n):
        yield xline(junk(rng, node(rng, rng.choice(["full", "opt"]), rng.choice([0, 1, 2]), root=True), rng.choice([0.1, 0.3])))
    for _ in range(n):
        t = node(rng, "bad", rng.choice([0, 1, 2]), root=True)
        yield xline(junk(rng, t, 0.1) if rng.random() < 0.3 else t)
    for _ in range(n):
        yield uline(rng)


def meets_spec(impl, spec):
    # a rejected document has nothing to round-trip; an accepted one must come back equal on both read paths
    return impl == "ERR" or impl.split(";")[0] == spec


def nontrivial(case, impl_out):
    if case.startswith("u "):
        return "26" in case
    return impl_out == "ERR" or "[interface" in case or case.count("[node") > 1


def classify(case, impl_out):
    if case.startswith("u "):
        return "u:" + impl_out.split(":")[0]
    head = impl_out.split(";")[0]
    size = case.count("[")
    return "x:%s:%s" % (head, "small" if size < 6 else "medium" if size < 25 else "large")


def search(rng, bad_cases):
    for _ in range(20000):
        yield xline(node(rng, rng.choice(["full", "opt"]), rng.choice([0, 1, 2, 3]), root=True))
        yield uline(rng)


ENABLED = True
LEVEL = "proof"
LEVEL_TEXT = ("Theorems in coq/theories/Properties/C34.v, all unbounded and at full strength: unescape (escape s) = Ok s for every byte "
              "string; the reader of_tree returns d on every infoset that represents d in the D-Bus introspection format; the writer's "
              "infoset represents d, for every document; hence of_tree (to_tree d) = Ok d for every document the types allow "
              "(C34_roundtrip = the full statement), and end to end from_str (to_writer d) = Ok d under the tokenizer contract; every "
              "document the reader returns is of that kind. The former finding none_option (absent optionals written as empty "
              "attributes) was fixed in /repo commit 34e4ce52 and the model follows the repaired code; its witness now passes. The model "
              "is tied to zbus_xml by differential runs comparing the parsed value, the written text byte for byte and its independently "
              "parsed infoset.")
LEVEL_NOTE = ("full statement proved for the model; no known-deviation class is left. Trusted / assumed: Coq kernel; the hand-written model "
              "of the serde/quick-xml mapping; quick-xml's tokenizer by contract (tokenize (print t) = Some t on printable trees) for the "
              "text-level theorem; zvariant::Signature parse/Display round trip (C06) as a hypothesis; C10's name validators; the hxml "
              "harness with its own XML renderer and reader; recursion depth of the (de)serializers not modelled.")
PARTIAL = []
