"""C07 — container nesting limits are enforced exactly (D-Bus format)."""
import itertools
import codec_gen as G

ID = "C07"
CRATE = "hz"
RUN_MODULE = "DBus.Run"
TRANSLATORS = ["gen_depth_consts.py"]
RULE = ("towers of containers built from words over {a (array), ( (struct), v (variant), { (dict)}: every mix of run lengths around the "
        "limits (31/32/33 arrays, 31/32/33 structs, totals 63/64/65 with variants), in several orders, encoded (ser), encoded then decoded "
        "(rt), and their valid encodings decoded directly; expected: success within 32/32/64, a depth error beyond. "
        "non-trivial = tower height >= 30")
TRUSTED = ["models DBus/Ser.v, DBus/De.v (ContainerDepths counters, restored on every exit path)"]
ASSUMPTIONS = ["GVariant format not covered"]


def words():
    return G.limit_words()


def gen(rng, tier):
    ws = words()
    if tier == "thorough":
        for k in range(1, 7):
            for w in itertools.product("a(v{", repeat=k):
                ws.append("".join(w) * rng.choice([1, 5, 8, 11, 16]))
    for wv in G.wide_values():
        yield G.case_ser("--", False, 0, "dyn", wv, cmd="rt")
    for w in ws:
        if not w:
            continue
        t = G.tower(w)
        big = rng.random() < 0.5
        pos = rng.choice([0, 1, 4, 7])
        yield G.case_ser("--", big, pos, "dyn", t)
        yield G.case_ser("--", big, pos, "dyn", t, cmd="rt")
        if w[0] == "(":
            yield G.case_ser("--", big, pos, "body", t)
            yield G.case_ser("--", big, pos, "body", t, cmd="rt")
        # decode a valid encoding directly (the encoder may refuse to produce it)
        if len(G.sigstr(G.vsig(t))) <= 255:       # a longer signature has no encoding as a variant / header signature
            b, _ = G.marshal(('v', t), big, pos)
            yield G.case_de_v("--", big, pos, 0, b)
            b, _ = G.marshal(('r', [t]), big, pos)
            yield G.case_de_s("--", big, pos, 0, G.sigstr(G.vsig(t)), b)


def meets_spec(impl, spec):
    if spec in ("OK", "ERR"):                 # de command
        return impl.startswith("OK") == (spec == "OK")
    if spec == "ERR:D":
        return impl in ("ERR:D", "DEERR:D")
    return impl == spec


def nontrivial(case, impl_out):
    return len(case) > 200


def classify(case, impl_out):
    return case.split(" ")[0] + ":" + impl_out.split(":")[0] + (":D" if impl_out.endswith(":D") else "")


def search(rng, bad):
    for c in gen(rng, "quick"):
        yield c


ENABLED = True
LEVEL = "proof"
LEVEL_TEXT = ("Theorems over the serializer and deserializer models: encoding (resp. decoding a valid encoding of) a well-formed value "
              "succeeds iff its nesting stays within 32 arrays / 32 structs / 64 containers, and fails with a depth error otherwise; the "
              "counters are restored on every exit path. Tied to /repo by towers of containers around every limit in mixed orders.")
LEVEL_NOTE = ("This check covers the D-Bus format; the GVariant serializer half (theorem C07_gv_ser, an iff) lives in the C05 check, the "
              "GVariant decoder half is covered there by correspondence only. Limits 32/32/64 are re-read from "
              "container_depths.rs on every run.")
