"""C35 — every supported feature combination builds (other / partial).

custom_run: translator (tools/gen_features.py) -> Coq theorems over the generated feature graph -> extracted model ->
  K1  resolver correspondence: the model's per-unit feature assignment == what cargo itself resolves (`cargo tree`) on
      hundreds of selections (cheap, no compilation);
  K2  build correspondence + oracle: `cargo check --offline` of downstream crates in a scratch copy of the workspace:
      model says incoherent/unsupported  => the build must fail (else the model is wrong);
      model says coherent and supported  => the build must succeed (else: a feature-combination defect => VIOLATION),
      unless the selection is in a known class (KNOWN-FINDING).
Everything is created under a fresh directory in /var/tmp and removed before returning."""
import json
import os
import random
import re
import shutil
import subprocess
import sys
import tempfile
import time
from concurrent.futures import ThreadPoolExecutor

import core
from core import log

ID = "C35"
RUN_MODULE = "C35.Run"
TRANSLATORS = ["gen_features.py"]
ENABLED = True
LEVEL = "other"
LEVEL_TEXT = ("Necessary-condition proof + build sampling. tools/gen_features.py regenerates the cargo feature graph of the workspace "
              "(crates, features, forwarding edges, dependency edges, proc-macro crates), the coherence rules (cfg(feature)-gated enum "
              "variants of one crate against the gated match arms / mentions in the other crates, unless the match has a "
              "cfg(not(feature)) catch-all arm; one curated macro-output rule) and the compile_error! feature guards from the current "
              "sources. Coq: an executable model of cargo's resolver-2 feature unification per package and build kind (host/target) is "
              "proved to compute the least fixed point of the feature graph and to terminate; for EVERY downstream selection (any list "
              "of workspace crates with any feature subsets) every unit satisfies every coherence rule except one named known class "
              "(blocking_split), which is refuted by a kernel-evaluated witness. rustc accepting the crates is not expressible as a "
              "model: it is sampled by `cargo check --offline` of downstream crates in a scratch copy (each prediction of the model "
              "compared with the build result), and the unification model is compared with cargo's own resolution (`cargo tree`).")
LEVEL_NOTE = ("PARTIAL: coherence is necessary, not sufficient, for building; the build side is a sample, never a proof — quick: 6 builds "
              "(all-features of zbus and of zvariant, the fixed gvariant witness, the known blocking witness, 2 seeded samples) and ~20 "
              "`cargo tree` comparisons within 60 s; thorough: powerset of the small crates, every single feature, ~105 samples of "
              "zbus/zvariant/mixed crates, ~2200 tree comparisons. Out of scope: dev-dependencies / test, bench and example targets, "
              "platform-only features and cfg(unix)/cfg(windows) items, non-linux targets, weak `dep?/feat` features (none in the tree; "
              "the theorems are stated for a graph without them). Known finding: zbus[no blocking-api] + zbus_macros[blocking-api] "
              "(blocking_split) does not build. Fixed (b1eb512d): zbus + zvariant[gvariant] (gvariant_split) builds again and is "
              "built on every run.")
TRUSTED = ["tools/gen_features.py (TOML reader + regexes over the sources; its graph part is cross-checked against `cargo tree` on every run, "
           "its rules by the build of the model's witnesses)",
           "cargo 1.95 feature resolver as the reference for K1; rustc as the judge for K2",
           "coherence rules found by regex: a gated enum variant mentioned under a cfg(feature) gate in another crate; macro-output rules "
           "are a curated list whose source anchors are re-validated on every run"]
ASSUMPTIONS = ["no dev-dependencies are activated (cargo check of library targets only)",
               "host platform = x86_64 linux; [target.'cfg(..)'] tables are evaluated for it",
               "the manifests contain no weak dependency features (checked: Proofs.no_weak)",
               "a selection is a downstream crate with an empty lib.rs: defects that need user code (e.g. a derive used on a type) are not exercised"]
RULE = ("case = `tree|build <crate:default-flag:features> ...` (a downstream [dependencies] table). quick: tree = corpus + witnesses + "
        "all-features + 10 PRNG mixes of 1-4 crates with random feature subsets (60 s budget); build = zbus all-features, the fixed "
        "witness zbus+zvariant[gvariant], the known witness zbus[tokio]+zbus_macros[blocking-api], a seeded zbus sample (usually mixed "
        "with a second crate), zvariant all-features, a seeded cheap sample; plus every selection of one or two single requests for "
        "which the model predicts a failure outside the known class. thorough: every single feature of every crate, no-default, "
        "all-features, powerset of the small crates, 105 PRNG samples, 2000 tree mixes. non-trivial = the selection names a feature "
        "or more than one crate")

KNOWN_CLASSES = {"blocking_split"}      # gvariant_split was fixed in /repo by b1eb512d
TARGET = "x86_64-unknown-linux-gnu"


# ------------------------------------------------------------------ selections

def sel_str(reqs):
    return " ".join("%s:%d:%s" % (c, 1 if df else 0, ",".join(fs)) for c, df, fs in reqs)


def parse_sel(s):
    out = []
    for w in s.split():
        c, d, fs = w.split(":")
        out.append((c, d == "1", [f for f in fs.split(",") if f]))
    return out


def ws_info():
    rc, out = core.sh([sys.executable, os.path.join(core.ROOT, "tools", "gen_features.py"), "--json"], cwd=core.ROOT, timeout=120)
    if rc != 0:
        raise RuntimeError("gen_features.py --json failed:\n" + out[-2000:])
    return json.loads(out)


def libs_of(ws):
    return {c["name"]: c for c in ws["crates"] if c["lib"]}


def random_sel(rng, libs, kmax=4, runtime_bias=True):
    names = sorted(libs)
    k = rng.randint(1, kmax)
    reqs = []
    for c in rng.sample(names, min(k, len(names))):
        feats = sorted(f for f in libs[c]["features"] if f != "default")
        p = rng.choice([0.0, 0.1, 0.3, 0.6])
        fs = [f for f in feats if rng.random() < p]
        df = rng.random() < 0.6
        if runtime_bias and c == "zbus" and not df and not ({"async-io", "tokio", "tokio-vsock"} & set(fs)) and rng.random() < 0.85:
            fs.append(rng.choice(["async-io", "tokio"]))
        reqs.append((c, df, sorted(fs)))
    return reqs


WITNESSES = [[("zbus", True, []), ("zvariant", True, ["gvariant"])],                  # fixed by b1eb512d: must build
             [("zbus", False, ["tokio"]), ("zbus_macros", True, ["blocking-api"])]]    # known: blocking_split


def tree_cases(rng, tier, ws):
    """quick: ~20 selections (corpus + witnesses + all-features + 10 PRNG mixes); thorough: every single feature, no-default,
    all-features, zbus x each zvariant feature, 2000 PRNG mixes"""
    libs = libs_of(ws)
    out = list(WITNESSES)
    out.append([("zbus", True, []), ("zvariant", True, ["gvariant"]), ("zbus_macros", True, ["gvariant"])])
    for c in ("zbus", "zvariant"):
        if c in libs:
            out.append([(c, True, sorted(f for f in libs[c]["features"] if f != "default"))])
    if tier == "quick":
        for _ in range(10):
            out.append(random_sel(rng, libs))
        return ["tree " + sel_str(s) for s in out]
    for c in sorted(libs):
        feats = sorted(libs[c]["features"])
        out.append([(c, True, [])])
        out.append([(c, False, [])])
        out.append([(c, True, [f for f in feats if f != "default"])])
        for f in feats:
            out.append([(c, False, [f])])
    if "zvariant" in libs and "zbus" in libs:
        for f in sorted(libs["zvariant"]["features"]):
            out.append([("zbus", True, []), ("zvariant", False, [f])])
    for _ in range(2000):
        out.append(random_sel(rng, libs))
    return ["tree " + sel_str(s) for s in out]


def build_cases(rng, tier, ws):
    libs = libs_of(ws)
    zb = sorted(f for f in libs.get("zbus", {"features": {}})["features"] if f != "default")
    zv = sorted(f for f in libs.get("zvariant", {"features": {}})["features"] if f != "default")
    small = [c for c in sorted(libs) if c not in ("zbus", "zvariant")]
    out = []

    def powerset(fs):
        for m in range(1 << len(fs)):
            yield [f for i, f in enumerate(fs) if m >> i & 1]

    def sample(fs, p):
        return sorted(f for f in fs if rng.random() < p)

    if tier == "quick":
        # 6 builds. heavy lane (everything naming zbus, in this order so that the externals are compiled once):
        out.append([("zbus", True, zb)])                                                  # 1 all features of zbus
        out += WITNESSES                                                                  # 2 fixed witness, 3 known witness
        mix = [("zbus", False, sorted(set(sample(zb, 0.25)) | {rng.choice(["tokio", "async-io"])}))]
        if rng.random() < 0.6:                                                            # 4 a seeded zbus sample, usually mixed
            c = rng.choice([c for c in sorted(libs) if c not in ("zbus", "zbus_xmlgen")])  #   with a second workspace crate
            mix.append((c, rng.random() < 0.5, sample(sorted(f for f in libs[c]["features"] if f != "default"), 0.4)))
        out.append(mix)
        # light lane:
        out.append([("zvariant", True, zv)])                                              # 5 all features of zvariant
        k = rng.random()                                                                  # 6 a seeded cheap sample
        if k < 0.5:
            out.append([("zvariant", rng.random() < 0.5, sample(zv, 0.4))])
        elif k < 0.8:
            c = rng.choice(small)
            out.append([(c, rng.random() < 0.5, sample(sorted(f for f in libs[c]["features"] if f != "default"), 0.5))])
        else:
            out.append([("zvariant", True, sample(zv, 0.2)), ("zvariant_utils", True, sample(["gvariant"], 0.5)),
                        ("zvariant_derive", True, sample(["gvariant"], 0.5))])
    else:
        for c in small:
            fs = sorted(f for f in libs[c]["features"] if f != "default")
            for sub in powerset(fs):
                out.append([(c, False, sub)])
            out.append([(c, True, [])])
        for f in zb:
            out.append([("zbus", False, sorted({"tokio", f}))])
        for f in zv:
            out.append([("zvariant", False, [f])])
        out += WITNESSES
        out += [[("zbus", True, []), ("zvariant", True, ["gvariant"]), ("zbus_macros", True, ["gvariant"])],
                [("zbus", True, [])], [("zbus", False, [])], [("zbus", False, ["async-io"])], [("zbus", False, ["tokio"])],
                [("zbus", True, zb)], [("zvariant", True, zv)], [("zvariant", False, [])],
                [("zvariant", True, []), ("zvariant_utils", True, ["gvariant"])],
                [("zvariant", True, []), ("zvariant_derive", True, ["gvariant"])],
                [("zbus", True, []), ("zbus_macros", True, ["gvariant"])]]
        for _ in range(40):
            out.append([("zvariant", rng.random() < 0.5, sample(zv, rng.choice([0.2, 0.5])))])
        for _ in range(40):
            out.append([("zbus", rng.random() < 0.5, sorted(set(sample(zb, rng.choice([0.15, 0.4]))) | {rng.choice(["tokio", "async-io"])}))])
        for _ in range(25):
            out.append(random_sel(rng, libs, kmax=4))
    return ["build " + sel_str(s) for s in out]


# ------------------------------------------------------------------ the implementation side: cargo in a scratch copy

class Scratch:
    def __init__(self):
        self.dir = tempfile.mkdtemp(prefix="c35-", dir="/var/tmp")
        self.ws = os.path.join(self.dir, "ws")
        shutil.copytree(core.REPO, self.ws, symlinks=True,
                        ignore=lambda d, names: [n for n in names if n in ("target", ".git") and os.path.abspath(d) == os.path.abspath(core.REPO)])
        self.n = 0

    def crate(self, name, reqs):
        d = os.path.join(self.dir, "d", name)
        os.makedirs(os.path.join(d, "src"), exist_ok=True)
        dirs = self.crate_dirs()
        lines = ["[package]", 'name = "c35-downstream"', 'version = "0.0.0"', 'edition = "2021"', "", "[dependencies]"]
        for i, (c, df, fs) in enumerate(reqs):
            key = c if all(c != r[0] for r in reqs[:i]) else "%s_%d" % (c, i)
            pk = "" if key == c else ', package = "%s"' % c
            lines.append('%s = { path = "%s"%s, default-features = %s, features = [%s] }' % (
                key, os.path.join(self.ws, dirs.get(c, c)), pk, "true" if df else "false", ", ".join('"%s"' % f for f in fs)))
        lines += ["", "[workspace]", ""]
        open(os.path.join(d, "Cargo.toml"), "w").write("\n".join(lines))
        open(os.path.join(d, "src", "lib.rs"), "w").write("")
        shutil.copy(os.path.join(self.ws, "Cargo.lock"), os.path.join(d, "Cargo.lock"))
        return d

    _dirs = None

    def crate_dirs(self):
        if self._dirs is None:
            import tomllib
            t = tomllib.load(open(os.path.join(self.ws, "Cargo.toml"), "rb"))
            self._dirs = {}
            for m in t["workspace"]["members"]:
                try:
                    self._dirs[tomllib.load(open(os.path.join(self.ws, m, "Cargo.toml"), "rb"))["package"]["name"]] = m
                except Exception:
                    pass
        return self._dirs

    def close(self):
        shutil.rmtree(self.dir, ignore_errors=True)


LINE = re.compile(r"^(\d+)(\S+) v\S+( \(proc-macro\))?(?: \([^)]*\))?\|(.*)$")


def canon_units(units):
    return ";".join("%s@%s[%s|%s]" % (c, k, ",".join(sorted(fs)), ",".join(sorted(ds))) for (c, k), (fs, ds) in sorted(units.items()))


def canon_model(s):
    """re-sort the model's unit listing"""
    units = {}
    for u in s.split(";"):
        m = re.match(r"^([^@]+)@([TH])\[([^|]*)\|([^\]]*)\]$", u)
        if not m:
            return s
        units[(m.group(1), m.group(2))] = ([f for f in m.group(3).split(",") if f], [d for d in m.group(4).split(",") if d])
    return canon_units(units)


def cargo_tree(scr, slot, reqs, ws):
    d = scr.crate("tree%d" % slot, reqs)
    rc, out = core.sh(["cargo", "tree", "--offline", "--target", TARGET, "-e", "normal,build", "--prefix", "depth",
                       "--no-dedupe", "-f", "{p}|{f}"], cwd=d, timeout=300)
    if rc == 124:
        return None   # cargo did not answer in time (machine overloaded / package-cache lock): skipped, not compared
    if rc != 0:
        err = [l for l in out.splitlines() if l.startswith("error")]
        return "ERR:" + (err[0] if err else out.strip().splitlines()[-1] if out.strip() else "cargo tree failed")[:200]
    byname = {c["name"]: c for c in ws["crates"]}
    optional = {c["name"]: {dd["pkg"]: dd["name"] for dd in c["deps"] if dd["optional"] and dd["kind"] != "dev"} for c in ws["crates"]}
    units = {}
    stack = {0: (None, False)}
    for ln in out.splitlines():
        m = LINE.match(ln)
        if not m:
            continue
        depth, name, pm, feats = int(m.group(1)), m.group(2), bool(m.group(3)), m.group(4).strip()
        if depth == 0:
            continue
        parent, phost = stack.get(depth - 1, (None, False))
        host = phost or pm
        stack[depth] = ((name, "H" if host else "T") if name in byname else None, host)
        if parent is not None and name in optional.get(parent[0], {}):
            units[parent][1].add(optional[parent[0]][name])
        if name in byname:
            key = (name, "H" if host else "T")
            fs = set(f for f in feats.split(",") if f)
            if key in units and units[key][0] != fs:
                return "ERR:inconsistent features for %s@%s" % key
            units.setdefault(key, (fs, set()))
    return canon_units({k: (sorted(v[0]), sorted(v[1])) for k, v in units.items()})


def cargo_check(scr, name, reqs, target_dir, jobs):
    d = scr.crate(name, reqs)
    t = time.time()
    rc, out = core.sh(["cargo", "check", "--offline", "-j", str(jobs), "--message-format", "short"], cwd=d, timeout=5400,
                      env={"CARGO_TARGET_DIR": target_dir, "RUSTFLAGS": "", "CARGO_INCREMENTAL": "0", "CARGO_PROFILE_DEV_DEBUG": "0"})
    errs = [l for l in out.splitlines() if re.search(r"\berror(\[E\d+\])?:", l)]
    if rc == 0:
        return "ok", [], time.time() - t
    if rc == 124 or not errs:
        return "TOOL:" + (out.strip().splitlines()[-1] if out.strip() else "rc=%d" % rc)[:200], out.splitlines()[-15:], time.time() - t
    return "fail", errs[:8], time.time() - t


def run_builds(scr, cases, lanes):
    """cases: list of `build ...` lines -> dict case -> (verdict, errors, seconds).
    One target dir per lane (external crates are compiled once per lane); selections naming zbus (tokio, async-*, ...) go to
    the first lanes, the cheap ones to the last lane, so that the expensive externals are compiled as few times as possible."""
    res = {}
    lanes = max(1, min(lanes, len(cases)))
    jobs = core.NCPU if lanes <= 2 else max(2, core.NCPU // lanes * 2)
    heavy = [c for c in cases if re.search(r"\bzbus(_xmlgen)?:", c)]
    light = [c for c in cases if c not in heavy]
    chunks = [[] for _ in range(lanes)]
    if lanes >= 2 and light and heavy:
        for i, c in enumerate(heavy):
            chunks[i % (lanes - 1)].append(c)
        chunks[lanes - 1] = light
    else:
        for i, c in enumerate(cases):
            chunks[i % lanes].append(c)

    def lane(i):
        tdir = os.path.join(scr.dir, "t%d" % i)
        for j, c in enumerate(chunks[i]):
            res[c] = cargo_check(scr, "b%d_%d" % (i, j), parse_sel(c[len("build "):]), tdir, jobs)
            log("[C35] %-5s %6.1fs  %s" % (res[c][0][:5], res[c][2], c))

    with ThreadPoolExecutor(lanes) as ex:
        list(ex.map(lane, range(lanes)))
    return res


def run_trees(scr, cases, ws, budget_s, workers=8):
    """cargo's own resolution of each selection; cases that do not fit in the time budget are skipped (returned as None)"""
    deadline = time.time() + budget_s

    def one(args):
        slot, chunk = args
        out = []
        for c in chunk:
            out.append(cargo_tree(scr, slot, parse_sel(c[len("tree "):]), ws) if time.time() < deadline else None)
        return out
    chunks = [(i, cases[i::workers]) for i in range(workers)]
    with ThreadPoolExecutor(workers) as ex:
        outs = list(ex.map(one, chunks))
    res = {}
    for (i, chunk), o in zip(chunks, outs):
        for c, r in zip(chunk, o):
            res[c] = r
    return res


# ------------------------------------------------------------------ model-driven search for a failing input

def search_cases(zmodel, ws, limit=4):
    """selections of one or two single requests that the (current) model predicts to be supported but incoherent outside the
    known classes — candidates for a real build failure"""
    libs = libs_of(ws)
    singles = []
    for c in sorted(libs):
        singles.append((c, False, []))
        for f in sorted(libs[c]["features"]):
            singles.append((c, False, [f]))
    cands = [[s] for s in singles]
    for i, a in enumerate(singles):
        for b in singles[i + 1:]:
            if a[0] != b[0]:
                cands.append([a, b])
    # zbus needs a runtime to be a supported selection: add the tokio variant of each candidate naming zbus without one
    extra = []
    for s in cands:
        if any(c == "zbus" for c, _, _ in s):
            extra.append([(c, df, sorted(set(fs) | {"tokio"})) if c == "zbus" else (c, df, fs) for c, df, fs in s])
    lines = ["build " + sel_str(s) for s in cands + extra]
    outs = core.run_lines(zmodel, lines)
    hits = [l for l, o in zip(lines, outs) if o.split("\t")[:3] == ["fail", "ok", "-"]]
    hits.sort(key=lambda l: (len(l.split()), len(l)))
    return hits[:limit], len(lines)


# ------------------------------------------------------------------ the run

def custom_run(pid, tier, seed, replay=None):
    t0 = time.time()
    cpu0 = sum(os.times()[2:4])
    n_skipped, lanes_used = 0, 0
    rng = random.Random(seed)
    prop = type("P", (), {"TRANSLATORS": TRANSLATORS})
    problems, tool_errors = [], []
    tr = core.run_translators(prop)
    for t, rc, out in tr:
        log("[C35]", out.strip()[-200:])
        if rc != 0:
            problems.append({"kind": "correspondence", "theorem": "translator %s cannot read the workspace" % t, "log": out[-1500:]})
    try:
        ws = ws_info()
    except Exception as ex:  # a manifest the translator cannot read: the graph is not what the theorems were proved about
        ws = None
        problems.append({"kind": "correspondence", "theorem": "translator cannot read the workspace", "log": str(ex)[-1500:]})
    coq = core.coq_check(pid, thorough=(tier == "thorough"))
    if not coq["ok"]:
        problems.append({"kind": "proof", "theorem": coq.get("failed_at"), "log": coq["log"][-1500:], "audit": coq["audit"]})
    zmodel, merr = core.model_build(pid, RUN_MODULE)
    if zmodel is None and "TIMEOUT" in merr:      # an overloaded machine, not a broken model: try once more
        zmodel, merr = core.model_build(pid, RUN_MODULE)
    if zmodel is None:
        problems.append({"kind": "proof", "theorem": "model does not build/extract", "log": merr[-1500:]})
    kf = core.known_findings(pid)
    known_classes = {e["class"] for e in kf if e.get("status") == "known"}

    tcases, bcases = [], []
    if replay:
        rp = json.load(open(replay))
        cs = [x["case"] if isinstance(x, dict) else x for x in rp.get("cases", [])] or ([rp["case"]] if "case" in rp else [])
        tcases = [c for c in cs if c.startswith("tree ")]
        bcases = [c for c in cs if c.startswith("build ")]
    elif ws is not None:
        corpus = []
        cdir = os.path.join(core.ROOT, "corpus", pid)
        if os.path.isdir(cdir):
            for f in sorted(os.listdir(cdir)):
                if f.endswith(".txt"):
                    corpus += [l.strip() for l in open(os.path.join(cdir, f)) if l.strip() and not l.startswith("#")]
        wit = [e["case"] for e in kf if "case" in e]
        tcases = [c for c in corpus if c.startswith("tree ")] + tree_cases(rng, tier, ws)
        # generated order first (it is chosen so that each lane compiles the external crates once); witnesses of
        # known_findings (known and fixed) and corpus builds are part of it or appended
        bcases = build_cases(rng, tier, ws) + [c for c in wit + corpus if c.startswith("build ")]
    dd = lambda xs: list(dict.fromkeys(xs))
    tcases, bcases = dd(tcases), dd(bcases)

    disagreements, violations, known_hits = [], [], {}
    samples, dist = [], {}
    nontrivial = set()
    build_log = {}
    searched = 0
    scr = None
    try:
        if zmodel is not None and ws is not None and (tcases or bcases):
            mt = dict(zip(tcases + bcases, core.run_lines(zmodel, tcases + bcases)))
            bad = [c for c, o in mt.items() if o.startswith("BADCASE")]
            if bad:
                # a selection naming a crate/feature that no longer exists: drop it from this run (the graph changed)
                log("[C35] dropped %d cases the current graph does not define, e.g. %r" % (len(bad), bad[0]))
                tcases = [c for c in tcases if c not in bad]
                bcases = [c for c in bcases if c not in bad]
            sample_idx = sorted(rng.sample(range(len(tcases)), min(3 if tier == "quick" else 25, len(tcases))))
            xs = [tcases[i] for i in sample_idx] + bcases[:2]
            okx, outx = core.vm_crosscheck(pid, RUN_MODULE, xs, [mt[c] for c in xs])
            if not okx:
                tool_errors.append("extracted model and vm_compute disagree on the sample: " + outx[-400:])
            scr = Scratch()
            # ---- K1: cargo's own resolution
            ti = run_trees(scr, tcases, ws, 60 if tier == "quick" else 1200)
            skipped = [c for c in tcases if ti[c] is None]
            n_skipped = len(skipped)
            if skipped:
                log("[C35] %d of %d tree cases skipped (time budget)" % (len(skipped), len(tcases)))
            tcases = [c for c in tcases if ti[c] is not None]
            for c in tcases:
                m = canon_model(mt[c].split("\t")[0])
                if ti[c] != m:
                    disagreements.append({"case": c, "impl": ti[c], "model": m, "spec": "-", "class": "-"})
                key = "tree:" + ("same" if ti[c] == m else "DIFF")
                dist[key] = dist.get(key, 0) + 1
                if ":" in c and (len(c.split()) > 2 or re.search(r":[01]:[^ ]", c)):
                    nontrivial.add(c)
            if tcases:
                samples.append({"case": tcases[len(tcases) // 2], "cargo_tree": ti[tcases[len(tcases) // 2]][:600]})
            # ---- K2: builds
            extra_from_model = []
            if not replay:
                extra_from_model, searched = search_cases(zmodel, ws)
                if extra_from_model:
                    log("[C35] the model predicts a failure outside the known classes for: %r" % extra_from_model)
                    more = dict(zip(extra_from_model, core.run_lines(zmodel, extra_from_model)))
                    mt.update(more)
                    bcases = dd(extra_from_model + bcases)
            lanes = 1 if tier == "quick" else 4   # quick: one target dir, so every external crate is compiled once
            limit = os.environ.get("C35_BUILD_LIMIT")   # self-test knob: keep only the first n build cases (search hits,
            if limit and not replay:                    # witnesses, repaired witness, all-features come first)
                bcases = bcases[:max(1, int(limit))]
            lanes_used = lanes
            bi = run_builds(scr, bcases, lanes)
            for c in bcases:
                m, s, k = (mt[c].split("\t") + ["-", "-"])[:3]
                io, errs, secs = bi[c]
                build_log[c] = {"impl": io, "model": m, "spec": s, "class": k, "seconds": round(secs, 1), "errors": errs[:4]}
                nontrivial.add(c)
                dist["build:%s/%s" % (io, m)] = dist.get("build:%s/%s" % (io, m), 0) + 1
                if io.startswith("TOOL:"):
                    tool_errors.append("cargo check did not produce a verdict for %r: %s" % (c, io))
                    continue
                if io != m:
                    disagreements.append({"case": c, "impl": io, "model": m, "spec": s, "class": k, "errors": errs[:4]})
                if s != "-" and io != s:
                    if k != "-" and k in known_classes:
                        known_hits.setdefault(k, []).append(c)
                    else:
                        violations.append({"case": c, "impl": io, "model": m, "spec": s, "class": k, "errors": errs[:8]})
            for c in bcases[:3] + bcases[-2:]:
                samples.append(dict(case=c, **build_log[c]))
    finally:
        if scr is not None:
            scr.close()

    p_ok = coq["ok"] and zmodel is not None and not [p for p in problems if p["kind"] == "proof"]
    c_ok = not disagreements and not [p for p in problems if p["kind"] == "correspondence"]
    status, replay_path = 0, None
    if violations:
        status = 1
        v0 = min(violations, key=lambda v: (len(v["case"].split()), len(v["case"])))
        replay_path = core.write_replay(pid, seed, {"property": pid, "tier": tier, "seed": seed, "kind": "spec-violation",
                                                    "case": v0["case"], "impl": v0["impl"], "model": v0["model"], "spec": v0["spec"],
                                                    "cargo_errors": v0.get("errors"),
                                                    "how": "downstream crate with [dependencies] = the requests of the case "
                                                           "(crate:default-features:features), empty lib.rs, `cargo check --offline`",
                                                    "cases": [x["case"] for x in violations[:20]]})
    elif not p_ok or not c_ok:
        status = 1
        replay_path = core.write_replay(pid, seed, {"property": pid, "tier": tier, "seed": seed,
                                                    "kind": "proof" if not p_ok else "correspondence",
                                                    "theorem": [p.get("theorem") for p in problems],
                                                    "problems": problems[:5], "cases": disagreements[:20],
                                                    "note": "no failing build found (%d model-driven candidates examined); the theorem / "
                                                            "correspondence named here no longer checks" % searched})

    theorems = coq["theorems"]
    n_eval = len(tcases) + len(bcases)
    ev = {
        "property_id": pid, "tier": tier, "seed": seed, "level": LEVEL, "wall_s": round(time.time() - t0, 2),
        "violations": len(violations) + (1 if status and not violations else 0),
        "coverage": {
            "explanation": ("Proof part: %d Coq theorems over the feature graph regenerated from the current Cargo.toml files and sources "
                            "(resolver-2 unification model = least fixed point, total; every selection coherent outside 2 named classes; "
                            "2 refutation witnesses). NECESSARY condition only. Sampling part this run: %d selections resolved by cargo "
                            "itself (`cargo tree`) and compared with the model unit by unit; %d downstream crates built with "
                            "`cargo check --offline` in a scratch copy and compared with the model's builds/does-not-build prediction; "
                            "%d single/pair selections scanned by the model for a predicted failure outside the known classes."
                            % (len(theorems), len(tcases), len(bcases), searched)),
            "obligations": len(theorems) + 1, "discharged": (len(theorems) + 1) if coq["ok"] else 0,
            "theorems": theorems,
            "partial_or_refuted": [t for t in theorems if "_partial" in t or t.endswith("_refuted")],
            "axioms_reported": coq["axioms"], "closed_under_global_context": coq.get("closed", 0), "audit_hits": coq["audit"],
            "checker_cmd": coq["checker_cmd"],
            "trusted_base": ["Coq 8.16.1 kernel (vm_compute in the finite table lemmas; no native_compute)",
                             "extraction (ExtrOcamlBasic only) + model/driver.ml"] + TRUSTED,
            "evaluations": n_eval, "generated": n_eval, "distinct_nontrivial": len(nontrivial), "rule": RULE,
            "samples": samples or [{"note": "no case could be run"}],
            "distribution": dist, "builds": build_log,
            "tree_cases": len(tcases), "build_cases": len(bcases),
            "tree_cases_skipped_time_budget": n_skipped, "build_lanes": lanes_used,
            "cpu_s_children": round(sum(os.times()[2:4]) - cpu0, 1),
            "disagreements_checked": len(disagreements), "known_class_hits": {k: len(v) for k, v in known_hits.items()},
            "search_extra_cases": searched, "tool_errors": tool_errors,
            "graph": ({"crates": len(ws["crates"]), "features": sum(len(c["features"]) for c in ws["crates"]),
                       "rules": ws["rules"], "requires_any": ws["requires_any"], "gated_variants": ws["gated_variants"]} if ws else {}),
        },
        "assumptions": ASSUMPTIONS,
    }
    core.write_evidence(pid, ev)

    for e in kf:
        if e.get("status") == "known" and known_hits.get(e["class"]):
            hits = known_hits[e["class"]]
            print("KNOWN-FINDING: property=%s %s [class %s, e.g. case %r, %d case(s) this run]" %
                  (pid, e["what_fails"], e["class"], e.get("case", hits[0]), len(hits)))
    log("[%s] tier=%s seed=%s tree=%d build=%d P_ok=%s C_ok=%s O_ok=%s theorems=%d axioms=%s wall=%.1fs cpu(children)=%.0fs" %
        (pid, tier, seed, len(tcases), len(bcases), p_ok, c_ok, not violations, len(theorems), coq["axioms"], time.time() - t0,
         sum(os.times()[2:4]) - cpu0))
    for te in tool_errors:
        log("TOOL-ERROR:", te)
    if status:
        for p in problems[:3]:
            log("PROBLEM:", p.get("kind"), p.get("theorem"), "\n", (p.get("log") or "")[-800:])
        for d in disagreements[:5]:
            log("DISAGREE:", d)
        for v in violations[:5]:
            log("VIOLATES:", v)
        print("VIOLATION property=%s replay=%s%s" % (pid, replay_path, "" if violations else " no-failing-input-found"))
        return 1
    if tool_errors:
        return 2
    return 0
