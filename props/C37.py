"""C37 — bus match registrations mirror the live signal subscriptions."""
import itertools

ID = "C37"
CRATE = "hbus"
RUN_MODULE = "C37.Run"
TWO_PHASE = True
SHARDS = 16
RUN_TIMEOUT = 1500
RULE = ("histories on a real bus connection over an in-memory scripted fake bus that records every AddMatch/RemoveMatch with its "
        "rule string: MessageStream::for_match_rule over a pool of 13 rules (equal rules spelt differently, refining and "
        "overlapping signal rules, an untyped rule, method_call/method_return/error rules, rules equal to the ones proxies use), "
        "MessageStream::clone, Proxy (unique and well-known destinations, two proxies on one destination) with receive_signal / "
        "receive_all_signals / receive_signal_with_args, two receive_signal futures polled alternately on one proxy, drop and "
        "AsyncDrop::async_drop of streams, signal streams and proxies, request_name/release_name, partial executor ticks and "
        "run-until-idle, in any order; a per-case seed decides how many executor ticks (0-2) are interposed before each poll of "
        "the foreground future, so queued removals run before, between and after the foreground actions. ALL histories of "
        "length <= 3 (quick) / <= 4 (thorough) over 14 operation templates; random histories of length 8-60, 70% steered away "
        "from the known class (request_name) so that the oracle stays in force over the whole history. non-trivial = at least 3 ops, an "
        "AddMatch and a RemoveMatch were seen")
TRUSTED = ["harness hbus: custom Socket + fake bus (records AddMatch/RemoveMatch, answers GetNameOwner with an owner or "
           "NameHasNoOwner), single-threaded driver ticking Connection::executor()",
           "C37/Run.v produces the rule strings of proxy signal streams the way MatchRule's Display prints them (any mismatch shows "
           "as a model rejection)",
           "C37/Check.v (schedule search) is executable only; each of its moves is a Sched.apply_choice, proved to be a step"]
ASSUMPTIONS = ["the bus answers AddMatch / RemoveMatch / GetNameOwner (no error reply to Add/RemoveMatch, no transport failure, socket "
               "reader alive); the connection outlives the streams",
               "add_match / remove_match are atomic (async mutex `subscriptions` held across the bus call): contract of "
               "async_lock::Mutex (mutual exclusion)",
               "async-executor runs every spawned task eventually (run-until-idle processes every queued removal)",
               "live subscribers are counted at the API: stream = its rule; signal stream = its rule (+ NameOwnerChanged rule for "
               "a well-known destination); proxy with a well-known destination = NameOwnerChanged rule from its first signal "
               "stream until dropped"]
PARTIAL = ["C37_mirror_partial", "C37_refcount_partial", "C37_in_use_registered_partial", "C37_registered_accounted_partial",
           "C37_no_premature_remove_partial", "C37_oracle_sound_partial", "C37_full_statement_refuted",
           "C37_name_rules_leak_refuted"]


def hx(s):
    return s.encode().hex()


NOC = ("type='signal',sender='org.freedesktop.DBus',interface='org.freedesktop.DBus',member='NameOwnerChanged',"
       "path='/org/freedesktop/DBus',arg0='%s'")
# (input string, canonical string)
POOL = [
    ("type='signal',interface='a.b',member='X'",) * 2,
    ("member='X',interface='a.b',type='signal'", "type='signal',interface='a.b',member='X'"),
    ("type='signal',interface='a.b'",) * 2,
    ("type='signal',sender=':1.5',interface='a.b',member='X',path='/x'",) * 2,
    ("type='signal',interface='a.b',member='X',arg0='foo'",) * 2,
    ("interface='a.b',member='X'",) * 2,
    ("type='method_call',interface='a.b'",) * 2,
    ("type='method_return',sender=':1.5'",) * 2,    # NOT the bare type='method_return': see docs/C37.md (it replaces the
                                                      # connection's own method-return channel and every later call hangs)
    ("type='error',sender=':1.5'",) * 2,
    ("type='signal',path_namespace='/x'",) * 2,
    ("type='signal',sender=':1.5',interface='a.b',member='Sig',path='/x'",) * 2,      # = proxy(:1.5).receive_signal("Sig")
    (NOC % "org.x.Y",) * 2,                                                             # = the owner-change rule of org.x.Y
    ("type='signal',sender='org.x.Y',interface='a.b',path='/x'",) * 2,                 # = proxy(org.x.Y).receive_all_signals
]
DESTS = [":1.5", "org.x.Y", "org.x.Y", "org.x.Z"]
MEMBERS = ["Sig", "S1", "*"]


def rule_tok(i, rng=None):
    inp, canon = POOL[i]
    t = hx(inp)
    if rng is not None and rng.random() < 0.15:
        t += ":%d" % rng.choice([1, 8, 100])
    if inp != canon:
        t += "~" + hx(canon)
    return t


class Hist:
    """Python-side bookkeeping used ONLY to emit well-formed op sequences (live handles, kinds)."""

    def __init__(self, rng, known_ok):
        self.rng = rng
        self.known_ok = known_ok
        self.next = 1
        self.kind = {}
        self.ops = []

    def fresh(self):
        h = self.next
        self.next += 1
        return h

    def alive(self, kinds):
        return [h for h, k in self.kind.items() if k in kinds]

    def stream(self, i=None):
        h = self.fresh()
        i = self.rng.randrange(len(POOL)) if i is None else i
        self.kind[h] = "s"
        self.ops.append("s%d=%s" % (h, rule_tok(i, self.rng)))

    def clone(self):
        c = self.alive("s")
        if not c:
            return self.stream()
        h = self.fresh()
        self.kind[h] = "s"
        self.ops.append("c%d=%d" % (h, self.rng.choice(c)))

    def drop(self, asyn=False, which=None):
        c = self.alive("sg" if asyn else "sgp")
        if not c:
            return self.stream()
        h = self.rng.choice(c) if which is None else c[which]
        del self.kind[h]
        self.ops.append("%s%d" % ("x" if asyn else "d", h))

    def proxy(self, d=None):
        h = self.fresh()
        self.kind[h] = "p"
        d = self.rng.choice(DESTS) if d is None else d
        self.ops.append("p%d=%s,/x,a.b" % (h, d))
        return h

    def signal(self, two=False):
        ps = self.alive("p")
        p = self.rng.choice(ps) if ps and self.rng.random() < 0.8 else self.proxy()
        if two:
            h1, h2 = self.fresh(), self.fresh()
            self.kind[h1] = self.kind[h2] = "g"
            m1, m2 = self.rng.choice(["Sig", "S1"]), self.rng.choice(["Sig", "S1", "S2"])
            self.ops.append("j%d,%d=%d,%s,%s" % (h1, h2, p, m1, m2))
        else:
            h = self.fresh()
            self.kind[h] = "g"
            m = self.rng.choice(MEMBERS)
            a = ",foo" if m != "*" and self.rng.random() < 0.15 else ""
            self.ops.append("g%d=%d,%s%s" % (h, p, m, a))

    def step(self):
        r = self.rng.random()
        if r < 0.24:
            self.stream()
        elif r < 0.30:
            self.clone()
        elif r < 0.48:
            self.drop()
        elif r < 0.60:
            self.drop(asyn=True)
        elif r < 0.64:
            self.proxy()
        elif r < 0.78:
            self.signal()
        elif r < 0.81:
            self.signal(two=True)
        elif r < 0.84:
            if self.known_ok:
                self.ops.append(self.rng.choice(["n0", "n1", "N0", "N1"]))
            else:
                self.ops.append("t1")
        elif r < 0.91:
            self.ops.append("t%d" % self.rng.randint(1, 4))
        else:
            self.ops.append("i")


def line(rng, ops):
    return "M %d %s %s" % (rng.randrange(1000), rng.choice("oe"), " ".join(ops))


TEMPLATES = ["S0", "S1", "S6", "S10", "C", "Df", "Dl", "Xf", "Xl", "I", "T", "Gu", "Gw", "Dp"]


def from_templates(rng, seq):
    """Resolve templates against the live handles; proxies 90 (unique) and 91 (well-known) are created up front."""
    ops = ["p90=:1.5,/x,a.b", "p91=org.x.Y,/x,a.b"]
    live, nxt, pl = [], 1, {91}
    for t in seq:
        if t[0] == "S":
            ops.append("s%d=%s" % (nxt, rule_tok(int(t[1:]))))
            live.append((nxt, "s"))
            nxt += 1
        elif t == "C":
            ss = [h for h, k in live if k == "s"]
            if not ss:
                return None
            ops.append("c%d=%d" % (nxt, ss[-1]))
            live.append((nxt, "s"))
            nxt += 1
        elif t in ("Df", "Dl", "Xf", "Xl"):
            if not live:
                return None
            h, _ = live.pop(0 if t[1] == "f" else -1)
            ops.append("%s%d" % ("d" if t[0] == "D" else "x", h))
        elif t == "I":
            ops.append("i")
        elif t == "T":
            ops.append("t1")
        elif t in ("Gu", "Gw"):
            p = 90 if t == "Gu" else 91
            if p == 91 and 91 not in pl:
                return None
            ops.append("g%d=%d,Sig" % (nxt, p))
            live.append((nxt, "g"))
            nxt += 1
        elif t == "Dp":
            if 91 not in pl:
                return None
            pl.discard(91)
            ops.append("d91")
    return line(rng, ops + ["i"])


def gen(rng, tier):
    quick = tier == "quick"
    # 1. exhaustive over templates
    for n in range(1, (3 if quick else 4) + 1):
        for seq in itertools.product(TEMPLATES, repeat=n):
            c = from_templates(rng, seq)
            if c:
                yield c
    for _ in range(1500 if quick else 30000):
        c = from_templates(rng, [rng.choice(TEMPLATES) for _ in range(rng.randint(4, 7))])
        if c:
            yield c
    # 2. random histories
    for _ in range(1500 if quick else 25000):
        h = Hist(rng, known_ok=rng.random() < 0.3)
        for _ in range(rng.randint(8, 60 if rng.random() < 0.3 else 25)):
            h.step()
        if rng.random() < 0.7:
            # wind down: drop everything, then idle (the mirror clause at the end of the history)
            for hd in list(h.kind):
                del h.kind[hd]
                h.ops.append("d%d" % hd)
            h.ops.append("i")
        yield line(rng, h.ops)


def _events(impl_out):
    return [e for t in impl_out.split(" ") if "[" in t for e in t[t.index("[") + 1:-1].split(",") if e]


def nontrivial(case, impl_out):
    ev = _events(impl_out)
    return len(case.split(" ")) >= 6 and any(e[0] == "A" for e in ev) and any(e[0] == "R" for e in ev)


def classify(case, impl_out):
    w = case.split(" ")[3:]
    n = len(w)
    kinds = "".join(sorted(set(o[0] for o in w)))
    ev = len(_events(impl_out))
    return "%s:%s:%s" % ("len<=6" if n <= 6 else "len<=25" if n <= 25 else "long",
                         "proxy" if ("g" in kinds or "j" in kinds) else "streams",
                         "ev0" if ev == 0 else "ev<=4" if ev <= 4 else "ev>4")


def search(rng, bad_cases):
    # prefixes of the disagreeing histories under other schedules, then more random ones
    for c in bad_cases[:10]:
        w = c.split(" ")
        for n in range(4, min(len(w), 40) + 1):
            for s in range(3):
                yield "M %d %s %s i" % (rng.randrange(1000), w[2], " ".join(w[3:n]))
    for _ in range(2000):
        h = Hist(rng, known_ok=False)
        for _ in range(rng.randint(5, 20)):
            h.step()
        for hd in list(h.kind):
            h.ops.append("d%d" % hd)
        h.ops.append("i")
        yield line(rng, h.ops)


ENABLED = True
LEVEL = "proof"
LEVEL_TEXT = ("Theorems in coq/theories/Properties/C37.v about a transition system mirroring add_match / remove_match / "
              "queue_remove_match, MessageStream creation, clone, drop and async_drop, the proxy's owner-change subscription "
              "(OnceLock check, add, set-or-undo as three separate actions) and SignalStream creation: for EVERY interleaving of any "
              "number of concurrent API calls and queued removal tasks (invariants of step*), what the bus has registered is "
              "exactly the rules with a refcount entry that are signal rules, no AddMatch arrives for a registered rule and no "
              "RemoveMatch for an unregistered one, every live subscription is shared by a live object (full strength, all "
              "operations); outside one explicitly defined class of operations (request_name) the refcount equals live holders + queued removals (+ futures mid-way through the owner-change "
              "subscription), hence when nothing is in flight the registered rules are exactly the signal rules with a live "
              "subscriber, a rule in use is always registered, and the action that sends RemoveMatch(r) leaves no live holder of "
              "r; and the executable oracle that judges the implementation's output accepts every sequential run of the model "
              "(so it asks for nothing the invariants do not give). Clones of a MessageStream share one subscription that the last of "
              "them gives back (the former class clone_uncounted, repaired by 3c4a83a4, is now covered at full strength). PARTIAL: "
              "the full statement is refuted by the faithful model (the NameAcquired/NameLost rules added by request_name are never "
              "removed); confirmed on the real code and listed as a known finding.")
LEVEL_NOTE = ("Trusted: Coq kernel; the hand-written model, tied to the code by running the real bus-connection code over a scripted "
              "fake bus on ~7k (quick) histories under seeded schedules and checking that the AddMatch/RemoveMatch calls seen during "
              "every API call are a run of the model under some schedule (executable search, every move a proved step) and satisfy "
              "the property's oracle; the listed contracts of async_lock::Mutex and the executor; the bus answers every call.")
