"""C31 — a proxy's property cache reflects the received history."""
import itertools

import proxygen as g

ID = "C31"
CRATE = "hproxy"
RUN_MODULE = "C31.Run"
SHARDS = 16
RULE = ("scripted bus histories for a Proxy with a properties cache over a real bus connection (fake bus in-process), "
        "CacheProperties::Yes (build() waits) and Lazily (property streams start the cache), uncached_properties {} / {P3} / "
        "{P1,P3}: the replies of the cache's start-up (AddMatch [, GetNameOwner, AddMatch], GetAll snapshot / error) interleaved "
        "in every order with every sequence of <= 3 (quick) / <= 4 (thorough) PropertiesChanged signals over {set, invalidate, "
        "set+invalidate incl. an uncached name, other interface, other sender, same name changed and invalidated}, three batchings "
        "(one message at a time; all at once; reply together with what follows); for a well-known destination also owner changes "
        "and forged notifications; random histories of up to 12 events over 25 kinds (other object path, other member, bodies of "
        "the wrong type, duplicate keys, no sender), random batchings and poll points. non-trivial = some property is cached at the end "
        "or a stream yielded")
TRUSTED = ["harness hproxy (see C32)", "props/C31.py meets_spec: ready flag and cached values compared for equality; every PropertyStream "
           "item must show the latest value per the specification, and a poll may stay silent only if the latest value is the one it "
           "reported last"]
ASSUMPTIONS = ["the contracts listed for C32 (one in-order socket reader, broadcast channels, a sequential bus that stamps senders)",
               "std HashMap: one value per key; RwLock: update_cache and readers are atomic with respect to each other",
               "event-listener: a listener created before notify() is woken by it; notify(1) wakes the stream's own listener "
               "(one PropertyStream per property)",
               "property values are plain data (no file descriptors: OwnedValue::try_from cannot fail)"]
PARTIAL = []

SNAP = "Rs0=1;1=2;3=3"
U1 = g.props(1, 0, [(0, 7)], [])
U2 = g.props(1, 0, [], [0])
U3 = g.props(1, 0, [(1, 8), (3, 4)], [0])
U4 = g.props(1, 1, [(0, 9)], [])
U5 = g.props(2, 0, [(0, 6)], [])
U6 = g.props(1, 0, [(0, 5)], [0])
POOL = [U1, U2, U3, U4, U5, U6]
NOCS = [g.noc(0, 2, 1), g.noc(0, None, 1), g.noc(0, 1, None), g.noc(3, 3, None)]
MORE = POOL + [
    g.props(1, 0, [(2, 11)], [1]), g.props(1, 0, [(0, 3), (0, 4)], []), g.props(1, 0, [], [3]), g.props(1, 0, [(3, 8)], []),
    g.props(1, 0, [], [0, 1, 2]), g.props(1, 0, [(0, 1), (1, 1), (2, 1), (3, 1)], []), g.props(1, 0, [], []),
    g.props(1, 0, [(0, 12)], [], path=1), g.props(1, 0, [(0, 13)], [], member=1), g.props(1, 0, [(0, 14)], [], iface=0),
    g.props("-", 0, [(0, 15)], []), g.props(3, 0, [(1, 16)], [0]), g.props(1, 3, [(0, 17)], []),
    g.sig(1, 0, 2, 2, "b"), g.sig(1, 0, 2, 2, "e"), g.sig(1, 0, 2, 2, "n012"), g.sig(1), g.props(2, 0, [], [0, 1]),
    g.props(1, 0, [(4, 1)], [4]),
]
SETUP_U = ["R", SNAP]
SETUP_W = ["R", "R?", "R", SNAP]


def case(dest, pi, mode, unc, script):
    return "P %s %d %s %s %s" % (dest, pi, mode, unc, script)


def gen(rng, tier):
    quick = tier == "quick"
    maxlen = 3 if quick else 4
    k = 0
    # 1. exhaustive, unique-name destination (for length 3 in the quick tier: one batching each)
    for n in range(0, maxlen + 1):
        for evs in itertools.product(POOL, repeat=n):
            for hist in g.interleavings(SETUP_U, list(evs)):
                k += 1
                mode = "YL"[k % 2]
                unc = ["3", "-", "13"][k % 3]
                yield case("u1", 0, mode, unc, g.batch_singletons(hist, lambda i: (i + k) % 3 == 0))
                if n and (n < 3 or not quick or k % 3 == 0):
                    yield case("u1", 0, "YL"[(k + 1) % 2], unc, g.batch_maximal(hist))
                    if k % 2:
                        yield case("u1", 0, mode, unc, g.batch_reply_first(hist))
    # 2. exhaustive, well-known destination: updates and ownership events
    wpool = [U1, U5, U6] + NOCS
    for n in range(0, (2 if quick else 3) + 1):
        for evs in itertools.product(wpool, repeat=n):
            for hist in g.interleavings(SETUP_W, list(evs)):
                for post in ([], [U1], [U5], [U1, U5], [U5, U2]):
                    k += 1
                    h = g.fix_lookup(hist + post, 1)
                    b = [g.batch_singletons(h), g.batch_maximal(h), g.batch_reply_first(h)][k % 3]
                    yield case("w", 0, "YL"[k % 2], "3", b)
    # 3. random
    count = 6000 if quick else 120000
    for i in range(count):
        dest = "w" if rng.random() < 0.35 else "u1"
        mode = rng.choice("YL")
        unc = rng.choice(["-", "3", "13", "0", "3"])
        pool = MORE + (NOCS if dest == "w" else [])
        n = rng.randint(1, 12 if rng.random() < 0.6 else 5)
        evs = [rng.choice(pool if rng.random() < 0.6 else POOL) for _ in range(n)]
        snap = "Rs" + ";".join("%d=%d" % (p, rng.randint(1, 9)) for p in range(4) if rng.random() < 0.6)
        setup = (["R", "R?", "R"] if dest == "w" else ["R"]) + [snap]
        pending = list(setup)
        hist = []
        for e in evs:
            while pending and rng.random() < 0.4:
                hist.append(pending.pop(0))
            hist.append(e)
        while pending and rng.random() < 0.92:
            hist.append(pending.pop(0))
        if rng.random() < 0.5:
            hist += [rng.choice(pool if rng.random() < 0.4 else POOL) for _ in range(rng.randint(1, 4))]
        h = g.fix_lookup(hist, rng.choice([1, 1, 1, None, 2]))
        rr = rng.random()
        if rr < 0.04:
            h = [("Re" if e.startswith("Rs") else e) for e in h]
        elif rr < 0.07:
            h = [(rng.choice(["Re", "Ro2", "R", "Rs0=4"]) if e.startswith("R") else e) for e in h]
        yield case(dest, 0 if rng.random() < 0.95 else 1, mode, unc, g.batch_random(rng, h))


def _split(line):
    return line.split(" calls=")[0]


def meets_spec(impl, spec):
    it, st = _split(impl).split(";"), spec.split(";")
    if len(it) != len(st):
        return False
    last = ["n", "n", "n"]
    for a, b in zip(it, st):
        pa, pb = a.split(":"), b.split(":")
        if len(pa) != 3 or len(pb) != 3:
            return a == b
        if pa[0] != pb[0] or pa[1] != pb[1]:
            return False
        if pb[2] == "_" or pa[2] == "_":
            if pa[2] != pb[2]:
                return False
            continue
        ia, ib = pa[2].split("|"), pb[2].split("|")
        if len(ia) != 3 or len(ib) != 3:
            return False
        for j in range(3):
            if ia[j] == "-":
                if last[j] != ib[j]:
                    return False            # the value changed and the stream did not say so
            else:
                if any(x != ib[j] for x in ia[j].split(".")):
                    return False            # an item that does not show the latest value
                last[j] = ib[j]
    return True


def nontrivial(case, impl_out):
    head = _split(impl_out)
    toks = head.split(";")
    if ":" not in toks[-1]:
        return False
    parts = toks[-1].split(":")
    return any(v != "-" for v in parts[1].split(".")) or any(
        t.split(":")[2] not in ("_", "-|-|-") for t in toks if t.count(":") == 2)


def classify(case, impl_out):
    w = case.split(" ")
    head = _split(impl_out)
    last = head.split(";")[-1]
    if ":" not in last:
        return "%s %s %s" % (w[1][0], w[3], last)
    st, cache, _ = last.split(":")
    n = sum(1 for v in cache.split(".") if v != "-")
    return "%s %s unc=%s %s cached=%d" % (w[1][0], w[3], w[4], st, n)


def search(rng, bad_cases):
    for c in bad_cases[:30]:
        w = c.split(" ")
        if len(w) != 6:
            continue
        evs = [e for b in w[5].split("/") for e in b.lstrip("!").split(",") if e != "-"]
        for _ in range(40):
            yield case(w[1], int(w[2]), rng.choice("YL"), w[4], g.batch_random(rng, evs))
            yield case(w[1], int(w[2]), w[3], w[4], g.batch_singletons(evs, lambda i: rng.random() < 0.5))


ENABLED = True
LEVEL = "proof"
LEVEL_TEXT = ("Theorems in coq/theories/Properties/C31.v about a Gallina mirror of PropertiesCache::{new,init,keep_updated,"
              "update_cache}, Proxy::cached_property_raw / receive_property_changed and PropertyStream::poll_next, on top of the C32 "
              "model (the update stream is a SignalStream, as repaired by 902c9069; ordered_stream::Join transcribed line by line). "
              "For every bus history, every position of the GetAll reply among the change signals and EVERY interleaving of socket "
              "reader, caching task and consumer, at FULL strength (no known class left): nothing is cached before the snapshot; "
              "whenever the task has caught up each cached value equals the fold of the received history (snapshot, then later "
              "changes / invalidations of the proxy's interface from the destination's owner, uncached names excluded); uncached "
              "names never hold a value; other interfaces leave the cache untouched; a silent property stream has reported the "
              "cached value; the witness of the repaired finding now runs as specified.")
LEVEL_NOTE = ("Trusted: Coq kernel; the hand-written model, tied to the code by running the real Proxy with CacheProperties::Yes / "
              "Lazily over a real bus connection against an in-process scripted bus on ~12k (quick) histories x batchings and comparing "
              "readiness, cached_property_raw of four properties after every batch and PropertyStream items; the substrate contracts "
              "in ASSUMPTIONS. Schedules exercised on the code are 'read a batch, run every task to quiescence, observe'; finer "
              "interleavings are covered by the theorem only. PropertyChanged::get (a Get call for an invalidated value) and "
              "get_property's fallback call are not modelled.")
