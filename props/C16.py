"""C16 — the server-side SASL handshake authenticates exactly the right peers."""
import itertools

import saslgen as g

ID = "C16"
CRATE = "hsasl"
RUN_MODULE = "C16.Run"
TWO_PHASE = True
CONFIGS = [{"name": "debug", "profile": "debug"},
           {"name": "release", "profile": "release", "thorough_only": True}]
RULE = ("client byte streams = NUL + command lines; exhaustive sequences of length <= 3 (quick) / <= 4 (thorough) over 24 line "
        "shapes {AUTH (none|EXTERNAL|ANONYMOUS|DBUS_COOKIE_SHA1|FOO) x (no id|own uid|other uid|non-hex|odd hex), DATA (bare|own|other|"
        "non-hex|non-numeric), BEGIN, CANCEL, ERROR, NEGOTIATE_UNIX_FD, FOO, empty line} x {EXTERNAL, ANONYMOUS} x {uid known, "
        "unknown}; random longer sequences over 70 shapes (whitespace variants, '+1000', overflow, non-UTF-8, server-only commands) "
        "with stray line endings (LF, CR CR LF, CR, LF LF), missing/wrong first byte, trailing bytes and fds; every chunking of short "
        "streams, per-line / CR|LF / per-byte / random chunkings of the others (the model is given the same chunking), partial "
        "writes; mechanism from the Builder or from the socket; a slice with default receive_message and valid trailing messages. "
        "non-trivial = at least one reply was written")
TRUSTED = ["harness hsasl: scripted Socket (recvmsg/sendmsg/peer_credentials/can_pass_unix_fd/auth_mechanism), receive_message "
           "override that records the leftover handed to the socket reader, Connection::send as the probe of cap_unix_fd"]
ASSUMPTIONS = ["transport read contract: recvmsg returns 1..=buf.len() bytes of the stream with their fds, or 0 at EOF; never an error "
               "(an I/O error aborts the handshake with that error, not modelled)",
               "transport write contract: sendmsg accepts 1..=len bytes; all bytes are eventually written in order, never an error",
               "Linux (cfg(unix), not freebsd/dragonfly: the NUL byte is part of the first write)"]
PARTIAL = ["C16_conforms_partial", "C16_auth_partial", "C16_replies_partial"]

BASE = g.S_AUTH + g.S_DATA + g.S_OTHER
ALL = BASE + g.S_AUTH_MORE + g.S_DATA_MORE + g.S_OTHER_MORE
CONF = [("E", g.UID), ("E", "-"), ("A", g.UID), ("A", "-")]


def gen(rng, tier):
    quick = tier == "quick"
    # 1. exhaustive short sequences, one chunk, all four (mechanism, credentials) situations
    maxlen = 3 if quick else 4
    k = 0
    for n in range(0, maxlen + 1):
        for seq in itertools.product(BASE, repeat=n):
            data = g.s_stream(seq)
            if n <= 2 or not quick:
                confs = CONF if n <= 3 else [CONF[k % 4]]
            else:
                confs = CONF
            for mech, uid in confs:
                yield g.s_case(mech, uid, k % 2, 0, "A", [data] if data else [])
            k += 1
    # 2. every chunking of short streams
    shorts = [b"\0BEGIN\r\n", b"\0AUTH\r\n", b"\n", b"\0\n", b"\0\r\n", b"\r\n", b"\0AUTH\n", b"\0FOO\r\nx", b"\0A\r\n\nB\r\n"]
    if not quick:
        shorts += [b"\0DATA\r\n\r\n", b"\0ERROR\r\nAUTH\r\n", b"\0CANCEL\r\n\n"]
    for d in shorts:
        for cs in g.all_splits(d):
            yield g.s_case("E", g.UID, 0, 0, "A", cs)
    full = g.s_stream([b"AUTH ANONYMOUS", b"DATA", b"BEGIN"], tail=b"xy")
    for cuts in itertools.combinations(range(1, len(full)), 2):
        if quick and (cuts[0] + cuts[1]) % 3:
            continue
        yield g.s_case("A", "-", 0, 0, "A", g.split_at(full, list(cuts)))
    # 3. structured random transcripts: mostly sensible conversations with perturbations
    count = 12000 if quick else 80000
    for i in range(count):
        mech, uid = rng.choice(CONF)
        if rng.random() < 0.3:
            mech = mech.lower()
        uid = uid if rng.random() < 0.9 or uid == "-" else rng.choice(["0", "1001", "4294967295"])
        name = b"EXTERNAL" if mech in "Ee" else b"ANONYMOUS"
        lines = []
        for _ in range(rng.randint(0, 3)):                          # failed attempts / noise first
            lines.append(rng.choice(ALL))
        r = rng.random()
        if r < 0.35:
            lines.append(b"AUTH " + name + b" " + (g.H(uid) if uid != "-" and rng.random() < 0.8 else rng.choice([g.OWN, g.OTHER])))
        elif r < 0.6:
            lines.append(b"AUTH " + name)
            if rng.random() < 0.2:
                lines.append(rng.choice(ALL))
            lines.append(rng.choice([b"DATA", b"DATA", b"DATA " + g.OWN, b"DATA " + g.OTHER, rng.choice(g.S_DATA + g.S_DATA_MORE)]))
        else:
            lines.append(rng.choice(g.S_AUTH + g.S_AUTH_MORE))
        for _ in range(rng.randint(0, 2)):
            lines.append(rng.choice([b"NEGOTIATE_UNIX_FD", b"NEGOTIATE_UNIX_FD", rng.choice(ALL)]))
        if rng.random() < 0.85:
            lines.append(b"BEGIN")
        for _ in range(rng.randint(0, 1)):
            lines.append(rng.choice(ALL))
        rt = rng.random()
        if 0.25 <= rt < 0.4:
            # default receive_message: the handshake may only end at the final BEGIN so that the tail is whole messages
            lines = [l for l in lines if b"BEGIN" not in l.upper()] + [b"BEGIN"]
        clean = rng.random() < 0.6
        terms = [g.CRLF if clean else rng.choice(g.TERMS) for _ in lines]
        first = b"\0" if rng.random() < 0.93 else rng.choice([b"", b"\x01", b"\0\0", b"\n", b"\r\n"])
        obs = "A"
        tail = b""
        nfds = 0
        if rt < 0.25:
            tail = bytes(rng.choice(b"lB\n\r\0xyz") for _ in range(rng.randint(1, 12)))
        elif rt < 0.4:
            obs = "B"
            nfds = rng.choice([0, 0, 1, 2])
            tail = g.dbus_signal(1, nfds) + (g.dbus_signal(2, 0, "N") if rng.random() < 0.5 else b"")
        elif rt < 0.45:
            tail = b"z" * rng.choice([1000, 1100, 2500])
        if obs == "B":
            terms[-1] = g.CRLF
        data = g.s_stream(lines, first, terms, tail)
        for cs in g.chunkings(rng, data, 2)[: (3 if quick else 6)]:
            if obs == "B":
                cs2 = [(c, nfds if j == 0 else 0) for j, c in enumerate(cs)]
            else:
                cs2 = g.with_fds(rng, cs, rng.choice([0, 0, 0, 1, 3]))
            if obs == "A" and rng.random() < 0.03 and len(cs2) > 1:
                cs2.insert(rng.randrange(len(cs2)), b"")               # a zero-length read in the middle = EOF
            yield g.s_case(mech, uid, rng.randint(0, 1), rng.choice([0, 0, 1, 7]), obs, cs2)


def nontrivial(case, impl_out):
    w = g.obs_hex(impl_out, "w")
    return bool(w)


def classify(case, impl_out):
    w = case.split(" ")
    head = impl_out.split(" ")[0]
    return "%s:%s:%s" % (w[1].upper(), "cred" if w[2] != "-" else "nocred", head)


def search(rng, bad_cases):
    # around each disagreeing case: all its chunkings' neighbours + the thorough enumeration of 4-line transcripts
    for c in bad_cases[:20]:
        w = c.split(" ")
        if len(w) != 7 or w[6] == "-":
            continue
        data = b"".join(bytes.fromhex(x.split("@")[0]) for x in w[6].split(","))
        for mech, uid in CONF:
            for cs in g.chunkings(rng, data, 4):
                yield g.s_case(mech, uid, int(w[3]), 0, "A", cs)
    for seq in itertools.product(BASE, repeat=4):
        if rng.random() < 0.05:
            mech, uid = rng.choice(CONF)
            yield g.s_case(mech, uid, 0, 0, "A", [g.s_stream(seq)])


ENABLED = True
LEVEL = "proof"
LEVEL_TEXT = ("Theorems in coq/theories/Properties/C16.v about a Gallina mirror of Common::read_commands, Command::from_str and the "
              "Server state machine reading an arbitrary list of chunks: the outcome is the same for EVERY way the stream is cut "
              "(induction over the chunk oracle); NO stream makes the server panic (C16_nopanic) and completion is never granted wrongly "
              "(C16_auth_sound: done => the inductive relation `accepts`) — both at full strength; outside one explicitly defined class of "
              "streams (a line that is not a well-formed known command) the observable outcome conforms to an independent ideal SASL server "
              "(completion exactly on `accepts`, exactly the prescribed REJECTED/ERROR/DATA/OK/AGREE_UNIX_FD lines, leftover bytes and "
              "fds handed on); no bound on the length of the conversation. PARTIAL for that one class: the faithful model still refutes "
              "the full statement there (malformed lines drop the connection without ERROR; confirmed on the real code, known finding). "
              "Three earlier findings were repaired in /repo (49785cde, 862dae6a, 0c137ee7) and are now inside the theorems.")
LEVEL_NOTE = ("Trusted: Coq kernel; the hand-written model, tied to the code by running the real Builder::server(..).p2p().build() over a "
              "scripted socket on ~94k (quick) transcripts/chunkings and comparing written bytes, completion, fd capability and leftover; "
              "the transport contracts (no I/O errors, reads of 1..=1024 bytes). Where the property text does not prescribe the "
              "conversation (LF without CR, non-ASCII lines, non-numeric EXTERNAL identities) only 'no panic' is demanded.")
