"""C13 — valid messages with unknown header fields, flags or types are tolerated."""
import random
import C11 as lib
from C11 import msg, pline, sline

ID = "C13"
CRATE = "hmsg"
RUN_MODULE = "C13.Run"
RULE = ("exhaustive: every header field code 0 and 10..255 x 8 variant values (u, s, y, t, o, g, as, (su)), plus 1200 unknown fields "
        "with values of random nested types (arrays, structures, dict entries, variants, invalid leaves); every non-empty set of "
        "the 5 unknown flag bits combined with known ones; every message type 0 and 5..255; each both through "
        "Message::from_bytes and (quick: every code once, every other type, 30 flag sets; thorough: all) on a live p2p connection as "
        "the middle message of the stream normal, odd, normal (then EOF), observed on a MessageStream; plus control messages with "
        "only known codes/flags/types. "
        "non-trivial = every case (all inputs are complete, otherwise valid messages).")
TRUSTED = ["the reference reader spec_parse/spec_stream of C11/Spec.v defines 'valid except for unknown parts'",
           "socket contract: bytes arrive in order, 0 at end of stream (framing under arbitrary splits is C14)",
           "a reader-task panic is observed as HANG through a 3 s timeout, confirmed by a second run with 9 s (normal cases take milliseconds)"]
ASSUMPTIONS = ["unix socketpair + Builder::authenticated_socket(..).p2p() stands for any transport"]

BASE = [(1, b"o", b"/a/b"), (2, b"s", b"org.a.B"), (3, b"s", b"Ping")]


def variants(e):
    u = lib.u32
    return [
        (b"u", b"\0" * 0 + u(e, 7), 4), (b"s", u(e, 2) + b"zz\0", 4), (b"y", b"\x07", 1), (b"t", b"\x01" * 8, 8),
        (b"o", u(e, 2) + b"/z\0", 4), (b"g", b"\x02ai\0", 1), (b"as", u(e, 7) + u(e, 2) + b"ab\0", 4),
        (b"(su)", u(e, 1) + b"q\0" + b"\0" * 2 + u(e, 9), 8),
    ]


def odd_field(e, code, vs, val, align):
    """a (yv) element with an arbitrary single-type variant: code, signature, padding to the value's alignment, value"""
    raw = bytes([code, len(vs)]) + vs + b"\0"
    return raw + b"\0" * ((-len(raw)) % align) + val


def with_field(e, serial, code, vs, val, align, body=b""):
    # known fields first, then the odd one at an 8-aligned offset
    arr = b""
    for (c, sg, v) in BASE:
        arr = lib.pad(arr, 8) + lib.field(e, c, sg, v)
    arr = lib.pad(arr, 8) + odd_field(e, code, vs, val, align)
    h = bytes([ord(e), 1, 0, 1]) + lib.u32(e, len(body)) + lib.u32(e, serial) + lib.u32(e, len(arr)) + arr
    return lib.pad(h, 8) + body


def gen(rng, tier):
    for e in "lB":
        n1, n3 = msg(e, 1, 0, serial=1, fields=BASE), msg(e, 4, 0, serial=3, fields=BASE)
        # controls: known everything
        yield sline([n1, msg(e, 2, 0, serial=2, fields=[(5, b"u", 1)]), n3])
        yield pline(n1)
        yield sline([n1, n3])
        for ty in (1, 2, 3, 4):
            for fl in range(8):
                m = msg(e, ty, fl, serial=2, fields=BASE + [(5, b"u", 9), (4, b"s", b"a.E")])
                yield pline(m)
                if fl in (0, 7):
                    yield sline([n1, m, n3])
        # unknown field codes
        for code in [0] + list(range(10, 256)):
            for k, (vs, val, al) in enumerate(variants(e)):
                m = with_field(e, 2, code, vs, val, al)
                yield pline(m)
                on_conn = (k == code % 8) if (tier != "quick" or e == "l") else (k == 0 and code % 8 == 2)
                if on_conn or (tier != "quick" and k == 0):
                    yield sline([n1, m, n3])
        # unknown flag bits
        for fl in range(8, 256):
            m = msg(e, 1, fl, serial=2, fields=BASE)
            yield pline(m)
            if fl in (8, 16, 32, 64, 128, 255, 9, 0x88) or fl % 16 == 5:
                yield sline([n1, m, n3])
        # unknown message types
        for ty in [0] + list(range(5, 256)):
            m = msg(e, ty, 0, serial=2, fields=BASE, body=b"")
            yield pline(m)
            if tier != "quick" or (e == "l" and ty % 2 == 1) or ty % 16 == 5:
                yield sline([n1, m, n3])
        # unknown fields with values of random types (nested containers, variants, dict entries, invalid leaves)
        TB = [(1, ("o",), b"/a/b"), (2, ("s",), b"org.a.B"), (3, ("s",), b"Ping")]
        for i in range(600 if tier == "quick" else 20000):
            t = lib.rand_type(rng)
            v = lib.rand_value(rng, t)
            code = rng.choice([10, 11, 42, 127, 128, 200, 255, rng.randint(10, 255)])
            fields = list(TB)
            fields.insert(rng.randint(0, 3), (code, t, v))
            if rng.random() < 0.3:
                t2 = lib.rand_type(rng)
                fields.append((rng.randint(10, 255), t2, lib.rand_value(rng, t2)))
            m = lib.msg_any(e, rng.choice([1, 4]), rng.choice([0, 0, 8, 0x31]), 2, fields)
            yield pline(m)
            if i % 10 == 0:
                yield sline([n1, m, n3])
        # an unknown type with a body, an unknown field next to a body
        yield sline([n1, msg(e, 9, 0, serial=2, fields=BASE + [(8, b"g", b"u")], body=lib.u32(e, 5)), n3])
        yield sline([n1, with_field(e, 2, 200, b"u", lib.u32(e, 7), 4, body=b""), n3, n1])


def meets_spec(impl, spec):
    return impl == spec or impl.startswith(spec + ":")


def nontrivial(case, impl_out):
    return True


def classify(case, impl_out):
    k = case.split(" ")[0]
    if impl_out.startswith("OK:"):
        return k + ":OK"
    return k + ":" + impl_out


SHARDS = 8
ENABLED = True
LEVEL = "proof"
LEVEL_TEXT = ("Unknown header field codes and unknown flag bits (repaired by fix: 9e1c6e56 and 0d33c3d1): PROVED - C13_message_tolerant "
              "(every message the reference reader of the specification accepts with a known type, with any number of unknown-code "
              "fields carrying any valid value of any variant-free type and any flag bits, is accepted with the same header and body), "
              "C13_unknown_field_ok / C13_unknown_flag_ok, and C13_stream_tolerant (every stream of such messages is framed and "
              "delivered message by message to its end). Unknown message TYPES are still not skipped: C13_unknown_type_refuted and "
              "C13_full_refuted stay, with C13_known_stream_partial / C13_known_message_partial for what the library builds. All "
              "(247 codes x 8 values + 1200 random typed values + 248 flag sets + 252 types) cases run on the real parser and on a live connection.")
LEVEL_NOTE = ("partial: messages of unknown type are rejected while framing and the reader stops (known finding unknown_type; needs a "
              "representation change of message::Type). The tolerance theorems cover ignored values without nested variants and "
              "without file descriptors (the reference reader makes no claim there; the model and the correspondence runs do "
              "cover them). Socket modelled by its contract (ordered bytes, EOF).")
