"""C01 — D-Bus encoding is byte-exact with the specification."""
import codec_gen as G

ID = "C01"
CRATE = "hz"
RUN_MODULE = "DBus.Run"
RULE = ("random well-typed dynamic values (signatures to depth 3-4 over all basic types, arrays, dicts, structs, variants, fds; "
        "boundary scalars, NaNs, empty and multi-byte strings) serialized as a variant, as a message body (Structure) and through "
        "typed Rust values (26 fixed Rust types), both byte orders, start offsets 0..16 and 2^32+k; plus all towers of containers of "
        "height <= 3. Observation: bytes, size-pass size, number of fds attached, size-pass fd count. "
        "non-trivial = the value contains a container or needs padding")
TRUSTED = ["hand-written model DBus/Ser.v of zvariant::dbus::Serializer as a function of the serde event tree; serde derive/impl "
           "output for std types and for Value/Array/Dict/Structure modelled by sval_of",
           "std::io::Cursor<Vec<u8>> modelled as a byte list with back-patching"]
ASSUMPTIONS = ["dup(2) returns a descriptor different from every open one (only the count and indices of fds are compared)",
               "values are below the 2^32 length limits (larger ones assert in usize_to_u32; modelled as Panic, not generated)"]


def gen(rng, tier):
    n = 6000 if tier == "quick" else 150000
    for _ in range(n):
        big = rng.random() < 0.5
        pos = G.rand_pos(rng)
        r = rng.random()
        if r < 0.55:
            s = G.rand_sig(rng, rng.choice([1, 2, 3, 3, 4]))
            yield G.case_ser("--", big, pos, "dyn", G.rand_val(rng, s, 4))
        elif r < 0.75:
            s = ('r', [G.rand_sig(rng, rng.choice([0, 1, 2, 3])) for _ in range(rng.randint(1, 4))])
            yield G.case_ser("--", big, pos, "body", G.rand_val(rng, s, 4))
        else:
            name = rng.choice(sorted(G.TYPED))
            yield G.case_ser("--", big, pos, "typed:" + name, G.rand_val(rng, G.TYPED[name], 3))
    for w in G.wide_values():
        yield G.case_ser("--", rng.random() < 0.5, rng.choice([0, 3]), "dyn", w)
    # towers of containers, every word up to length 3 (4 in thorough) at a few offsets
    import itertools
    for k in range(1, 4 if tier == "quick" else 5):
        for w in itertools.product("a(v{", repeat=k):
            for pos in (0, 1, 5):
                yield G.case_ser("--", False, pos, "dyn", G.tower("".join(w)))
    # the same descriptor twice
    for pos in (0, 4):
        yield G.case_ser("--", False, pos, "dyn", ('r', [('h', 1), ('h', 1)]))
        yield G.case_ser("--", True, pos, "dyn", ('r', [('h', 1), ('h', 2), ('h', 1)]))
        yield G.case_ser("--", False, pos, "body", ('r', [('a', 'h', [('h', 0), ('h', 3), ('h', 0)])]))


def nontrivial(case, impl_out):
    return any(t in case.split(" ") for t in ("a", "e", "r", "v")) or " 0 " not in case


def classify(case, impl_out):
    w = case.split(" ")
    return "%s:%s" % (w[4].split(":")[0], impl_out.split(":")[0])


def search(rng, bad):
    for c in gen(rng, "quick"):
        yield c


ENABLED = True
LEVEL = "proof"
LEVEL_TEXT = ("Theorems over DBus/Ser.v (a mirror of zvariant's D-Bus serializer as a function of the serde event tree) against DBus/Spec.v "
              "(`marshal`, written from the D-Bus specification, sharing no code with the model): for every well-formed value within the "
              "nesting limits, both byte orders and every start offset, the model produces exactly `marshal` and the size pass returns its "
              "length; the model is tied to /repo by differential runs of the real serializer (dynamic, Structure and 26 typed Rust types) on "
              "generated values, whose bytes are also compared with `marshal` directly.")
LEVEL_NOTE = ("Trusted: Coq kernel; hand-written serializer model and serde-call model (sval_of); the harness hz; extraction. "
              "No known finding: a descriptor that occurs twice is attached twice (the serializer never de-duplicates) and the size pass counts two.")
