"""C03 — the D-Bus decoder accepts exactly the valid encodings."""
import codec_gen as G

ID = "C03"
CRATE = "hz"
RUN_MODULE = "DBus.Run"
RULE = ("valid encodings produced by an independent Python marshaller for random values (as a variant and as a body for a signature), "
        "each followed by structural mutations (single byte set to 0/1/2/0xff/+-1/random, truncation at a random point, extension, "
        "deletion, insertion, 2-3 random bytes), plus random byte strings for random signatures; both byte orders, offsets 0..16. "
        "Oracle: the decision procedure valid_encb of the specification (accept iff the bytes start with a well-formed marshalled value). "
        "non-trivial = at least 8 bytes of input")
TRUSTED = ["model DBus/De.v; the decision procedure of the specification is `de` + `wf` + `marshal` comparison, proved correct w.r.t. "
           "`exists v n, valid_enc` using the completeness theorem of C02"]
ASSUMPTIONS = ["arrays above 64 MiB (a limit of the specification zvariant does not enforce) are not generated",
               "decoded dicts are compared as maps (wire order and duplicate keys are not part of the denoted value)"]


def agree(impl, model):
    return impl == model


def meets_spec(impl, spec):
    return impl.startswith("OK") == (spec == "OK")


def gen(rng, tier):
    n = 2500 if tier == "quick" else 60000
    for _ in range(n):
        big = rng.random() < 0.5
        pos = G.rand_pos(rng) % 64
        nf = 4
        if rng.random() < 0.5:
            s = G.rand_sig(rng, rng.choice([1, 2, 3, 3]))
            v = ('v', G.rand_val(rng, s, 3))
            b, _ = G.marshal(v, big, pos, fdt=[0, 1, 2, 3])
            mk = lambda bb: G.case_de_v("--", big, pos, nf, bb)
        else:
            s = ('r', [G.rand_sig(rng, rng.choice([0, 1, 2])) for _ in range(rng.randint(1, 3))])
            v = G.rand_val(rng, s, 3)
            b, _ = G.marshal(v, big, pos, fdt=[0, 1, 2, 3])
            ss = G.sigstr(s)
            mk = lambda bb: G.case_de_s("--", big, pos, nf, ss, bb)
        yield mk(b)
        yield mk(b + bytes(rng.randrange(256) for _ in range(rng.randint(1, 5))))     # trailing bytes are not consumed
        for _ in range(6):
            yield mk(G.mutate(rng, b))
        if len(b) <= 24:                          # all single-byte changes to three values for short encodings
            for i in range(len(b)):
                for x in (0, 1, 0xff):
                    if b[i] != x:
                        yield mk(b[:i] + bytes([x]) + b[i + 1:])
    for _ in range(n // 2):
        s = G.rand_sig(rng, 2)
        yield G.case_de_s("--", rng.random() < 0.5, rng.randint(0, 9), 2, G.sigstr(s), bytes(rng.randrange(256) for _ in range(rng.randint(0, 24))))
    # valid-looking encodings around the nesting limits (limits counted across variant boundaries too)
    for w in G.limit_words():
        if not w:
            continue
        t = G.tower(w)
        big = rng.random() < 0.5
        b, _ = G.marshal(('v', t), big, 0)
        yield G.case_de_v("--", big, 0, 0, b)
    for w in G.wide_values():
        big = rng.random() < 0.5
        b, _ = G.marshal(('v', w), big, 0)
        yield G.case_de_v("--", big, 0, 0, b)
    # unsorted and duplicate dict keys are valid encodings
    for big in (False, True):
        v = ('e', 's', 'u', [(('s', b"b"), ('u', 1)), (('s', b"a"), ('u', 2)), (('s', b"b"), ('u', 3))])
        b, _ = G.marshal(('r', [v]), big, 0)
        yield G.case_de_s("--", big, 0, 0, "a{su}", b)
    # SIGNATURE values at the 255-byte limit of the WIRE text, with and without outer parentheses
    for n in (253, 254, 255):
        for big in (False, True):
            yield G.case_de_s("--", big, 0, 0, "g", bytes([n]) + b"y" * n + b"\0")
            yield G.case_de_s("--", big, 0, 0, "g", bytes([n]) + b"(" + b"y" * (n - 2) + b")\0")
    if LENIENT_SIG_CASES:
        for c in lenient_sig_cases(rng):
            yield c


# ---- known finding sig_grammar_lenient (Coq: C03_sigs_refuted, class predicate DBus.DeSoundDefs.sig_lenient) ----
# zvariant's signature parser accepts signatures outside the D-Bus grammar (non-basic dict keys, more than 32
# nested arrays / structs), so the decoder accepts containers of such types.  The cases below stay OFF until the
# third output column of DBus/Run.v names the class (`de_class`, see docs/C03.md): without it they print VIOLATION.
LENIENT_SIG_CASES = True


def _pad(buf, pos, al):
    while (pos + len(buf)) % al:
        buf += b"\0"
    return buf


def _empty_container_variant(sig, elem_align, pos):
    """variant header for `sig` (an array or dict type) followed by the empty container"""
    b = bytes([len(sig)]) + sig.encode() + b"\0"
    b = _pad(b, pos, 4) + b"\0\0\0\0"
    return _pad(b, pos, elem_align)


def lenient_sig_cases(rng):
    keys = ["v", "ay", "(i)", "a{ss}", "as", "(sv)", "aay", "av"]
    vals = ["s", "v", "u", "ay", "(ii)"]
    for k in keys:                                     # non-basic dict keys, inside a variant
        for big in (False, True):
            pos = rng.randint(0, 9)
            yield G.case_de_v("--", big, pos, 0, _empty_container_variant("a{%s%s}" % (k, rng.choice(vals)), 8, pos))
    for k in keys[:4]:                                 # ... and as the caller's body signature
        sig = "a{%ss}" % k
        b = _pad(b"\0\0\0\0", 0, 8)
        yield G.case_de_s("--", rng.random() < 0.5, 0, 0, sig, b)
    for n in range(33, 41):                            # 33..40 nested arrays / structs in a variant's signature
        for big in (False, True):
            pos = rng.randint(0, 9)
            yield G.case_de_v("--", big, pos, 0, _empty_container_variant("a" * n + "y", 4, pos))
            yield G.case_de_v("--", big, pos, 0, _empty_container_variant("a" + "(" * n + "y" + ")" * n, 8, pos))
    for n in (32,):                                    # the limit itself is fine (not in the class)
        yield G.case_de_v("--", False, 0, 0, _empty_container_variant("a" * n + "y", 4, 0))
        yield G.case_de_v("--", False, 0, 0, _empty_container_variant("a" + "(" * n + "y" + ")" * n, 8, 0))


def nontrivial(case, impl_out):
    return len(case.split(" ")[-1]) >= 16


def classify(case, impl_out):
    return impl_out.split(":")[0]


def search(rng, bad):
    for c in gen(rng, "quick"):
        yield c


ENABLED = True
LEVEL = "proof"
LEVEL_TEXT = ("Theorems over DBus/De.v (mirror of zvariant's D-Bus deserializer and dynamic-value visitors): soundness — whatever the model "
              "decoder accepts is a well-formed value of the signature whose marshalling is exactly the consumed prefix — and completeness "
              "(C02) — every valid encoding is accepted with the value it denotes; together `accept <-> valid encoding`. The real decoder is "
              "run on valid encodings, their mutations and random bytes and must agree with the model and with the specification's decision "
              "procedure.")
LEVEL_NOTE = ("Three defects of the pinned tree were repaired by fix: commits (string terminator not checked; object paths inside dynamic "
              "values not validated; a variant's signature not required to be one complete type); the model follows the repaired code. "
              "Known finding: the signature parser is more lenient than the D-Bus grammar (class sig_grammar_lenient). Dynamic-Value target only; typed targets share the same "
              "deserializer methods but their visitors (serde derive) are not modelled.")
