"""C39 — dropping or shutting down a connection releases it correctly."""
import resource

try:
    resource.setrlimit(resource.RLIMIT_STACK, (resource.RLIM_INFINITY, resource.getrlimit(resource.RLIMIT_STACK)[1]))
except (ValueError, OSError):
    pass

ID = "C39"
CRATE = "hfail"
RUN_MODULE = "C39.Run"
TWO_PHASE = True
SHARDS = 16
RULE = ("case = scheduler seed + a random history over ONE real p2p Connection on a scripted Socket (internal_executor(false), the "
        "harness keeps only an Executor clone): Connection clones, MessageStreams (unfiltered and two match rules), Proxies with "
        "CacheProperties::No / Lazily / Yes (eager: build() starts the cache, the peer answers GetAll), lazy proxies whose cache is "
        "started later by get_property or receive_property_changed (GetAll answered later, or never), blocking Proxies, SignalStreams "
        "(receive_all_signals / receive_signal), derived from any live handle; drops in random order, AsyncDrop::async_drop of streams; method calls from the peer to an object-server method "
        "that stays in flight until the history releases it (and a method that returns at once); graceful_shutdown() and close() "
        "on Connection handles; ~8% of the ops name handles that do not exist. After every op the executor and the pending "
        "graceful_shutdown futures are polled in a seeded order until nothing moves; the harness prints, per op, whether the "
        "write half / read half of the socket have been dropped (what the peer sees as the transport closing) and which "
        "graceful_shutdown calls have returned, and the ordered record of replies written, close(), halves dropped, shutdowns "
        "returned. The model must show the same after every op; the spec oracle is an independent count (live handles + handlers "
        "in flight — what a proxy's cache started must go with the proxy). non-trivial = the last handle went while a handler was in "
        "flight, a graceful_shutdown had to wait, or a property cache had started before everything was dropped")
TRUSTED = ["harness/hfail: scripted Socket whose halves record their drop (src/sock.rs), gate-controlled handler, seeded poll loop (src/droprel.rs)"]
ASSUMPTIONS = ["Arc/Weak (DESIGN Appendix B): the value is dropped exactly when the last strong reference is dropped; upgrade fails afterwards",
               "event_listener::Event: a listener created before notify completes (graceful_shutdown listens before it drops its handle)",
               "executor: dropping/cancelling a Task drops its future when the executor next runs; detached tasks run to completion when ticked",
               "the peer observes the transport closing when both halves of the socket have been dropped (Socket implementations "
               "shipped with zbus share one descriptor between the halves)",
               "method handlers return (a handler that never returns keeps the connection alive for ever, by design)"]


def gen_case(rng, tier):
    live = {0: "k"}           # id -> kind letter: k connection, s stream, p proxy, g signal stream, b blocking proxy
    cache = {}                # proxy id -> "n" no cache | "idle" | "init" | "run"
    nxt = 1
    ops = []
    calls, released = [], set()
    kid = 1
    n = rng.randint(4, 14 if tier == "quick" else 30)

    def some(kinds):
        c = [i for i, k in live.items() if k in kinds]
        return rng.choice(c) if c else None

    for _ in range(n):
        r = rng.random()
        if r < 0.07:
            ops.append(rng.choice(["d%d", "G%d", "k%d:77", "s%d:78:A", "C%d", "g%d:0", "r%d", "c%d", "a%d", "D%d", "p%d:79:e"]) % rng.randint(40, 60))
            continue
        if r < 0.40:
            kind = rng.choice(["k", "k", "s", "s", "p", "p", "p", "g", "b"])
            src = some("p") if kind == "g" else some("ksp")
            if src is None:
                continue
            if kind == "s":
                ops.append("s%d:%d:%s" % (nxt, src, rng.choice(["A", "B", "*", "A"])))
            elif kind == "g":
                ops.append("g%d:%d%s" % (nxt, src, rng.choice(["", ":s"])))
            elif kind == "p":
                mode = rng.choice(["e", "e", "l", "l", "n", ""])
                ops.append("p%d:%d%s" % (nxt, src, (":" + mode) if mode else ""))
                cache[nxt] = {"e": "run", "n": "n"}.get(mode, "idle")
            else:
                ops.append("%s%d:%d" % (kind, nxt, src))
            live[nxt] = kind
            nxt += 1
        elif r < 0.52:
            # the property cache of a lazy proxy: start it, later let the peer answer GetAll (or never)
            ps = [i for i, k in live.items() if k == "p"]
            if ps:
                h = rng.choice(ps)
                if cache.get(h) == "init" and rng.random() < 0.7:
                    ops.append("a%d" % h)
                    cache[h] = "run"
                else:
                    ops.append(rng.choice(["c%d", "v%d"]) % h)
                    if cache.get(h) == "idle":
                        cache[h] = "init"
        elif r < 0.68:
            if live and (len(live) > 1 or rng.random() < 0.3):
                h = rng.choice(list(live))
                if live[h] in "sg" and rng.random() < 0.3:
                    ops.append("D%d" % h)
                else:
                    ops.append("d%d" % h)
                del live[h]
        elif r < 0.82:
            if rng.random() < 0.25:
                ops.append("f%d" % kid)
            else:
                ops.append("m%d" % kid)
                calls.append(kid)
            kid += 1
        elif r < 0.92:
            pend = [k for k in calls if k not in released]
            if pend:
                k = rng.choice(pend)
                released.add(k)
                ops.append("r%d" % k)
        else:
            h = some("k")
            if h is not None:
                ops.append(("G%d" if rng.random() < 0.75 else "C%d") % h)
                del live[h]
    # wind down: drop what is left and release the handlers, in a random order (sometimes leave something alive)
    tail = ["d%d" % h for h in live] + ["r%d" % k for k in calls if k not in released]
    rng.shuffle(tail)
    if rng.random() < 0.2 and tail:
        tail = tail[:rng.randint(0, len(tail) - 1)]
    if rng.random() < 0.3:
        hs = [h for h, k in live.items() if k == "k"]
        if hs:
            g = rng.choice(hs)
            tail = [("G%d" % g) if t == "d%d" % g else t for t in tail]
    ops += tail
    return "D %d %s" % (rng.randint(0, 10 ** 6), ",".join(ops) if ops else "d0")


def gen(rng, tier):
    for _ in range(2500 if tier == "quick" else 40000):
        yield gen_case(rng, tier)


def _snaps(impl_out):
    for f in impl_out.split(";"):
        if f.startswith("snap="):
            return f[5:].split(".")
    return []


def _ga(impl_out):
    for f in impl_out.split(";"):
        if f.startswith("ga="):
            try:
                return int(f[3:])
            except ValueError:
                return 0
    return 0


def nontrivial(case, impl_out):
    ev = impl_out.split("events=")[-1].split(";")[0]
    return ("y" in ev and "dw" in ev) or "gs" in ev or (_ga(impl_out) > 0 and "dw" in ev)


def classify(case, impl_out):
    ev = impl_out.split("events=")[-1].split(";")[0].split(".")
    sn = _snaps(impl_out)
    closed = bool(sn) and sn[-1].startswith("W")
    waited = False
    if "dw" in ev:
        i = ev.index("dw")
        waited = any(e.startswith("y") for e in ev[:i])
    return "%s:%s:%s:%s" % ("closed" if closed else "still-open", "graceful" if any(e.startswith("gs") for e in ev) else
                            ("graceful-pending" if "G" in case.split(" ")[-1] and closed is False else "no-graceful"),
                            "handler-replied-before-close" if waited else "-",
                            ("close()" if "cl" in ev else "-") + (":cache-started" if _ga(impl_out) > 0 else ""))


def search(rng, bad_cases):
    for _ in range(3000):
        yield gen_case(rng, "thorough")


ENABLED = True
LEVEL = "proof"
LEVEL_TEXT = ("Theorems in coq/theories/Properties/C39.v over a reference-count model of ConnectionInner: strong references are held by "
              "Connection values, MessageStreams, Proxies (plus what their property-cache task holds, owned by the proxy: C39_proxy_owns_cache), "
              "blocking Proxies, SignalStreams, cancelled cache tasks not yet dropped, queued remove-match tasks and method handlers in flight; the "
              "object server and its dispatch task hold weak references. For every history of operations and every interleaving of the "
              "internal steps: the transport is closed exactly when no strong reference is left — never before (C39_close, "
              "C39_not_before); replies are written only before the transport goes and graceful_shutdown returns only after it "
              "(C39_order), it returns as soon as the last reference is gone (C39_graceful); once all handles are dropped and the handlers "
              "have returned nothing is left behind (C39_released), within a bounded number of internal steps (C39_terminates). The model "
              "is tied to the code by comparing, after every op of ~2500 random histories on real Connections, which socket halves were "
              "dropped and which graceful_shutdown calls returned, and the order of replies / close / shutdown events.")
LEVEL_NOTE = ("partial: protocol-level proof; Arc/Weak, event-listener and task cancellation by the executor are assumed contracts "
              "(ASSUMPTIONS). Trusted: Coq kernel; the hand-written model; harness/hfail.")
