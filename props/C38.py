"""C38 — transport failures end pending work with errors, never hangs."""
import os
import subprocess
import resource

try:
    resource.setrlimit(resource.RLIMIT_STACK, (resource.RLIM_INFINITY, resource.getrlimit(resource.RLIMIT_STACK)[1]))
except (ValueError, OSError):
    pass

ID = "C38"
CRATE = "hfail"
RUN_MODULE = "C38.Run"
TWO_PHASE = True
SHARDS = 16
RULE = ("case = one scripted session over a real Connection (Builder::authenticated_socket on a scripted Socket, p2p or bus, "
        "internal_executor(false)) + ONE fault: end-of-file or ECONNRESET at byte position p of the inbound stream, for EVERY p of the "
        "session (quick: every byte of the main session, every 2nd-3rd byte of the other two plus their last positions), or ECONNABORTED at sendmsg call j, for "
        "EVERY j (after which reads fail too). Main session: 2 streams with different rules, 3 pending calls (one never answered), "
        "6 inbound messages (~800 bytes: signals, a reply, an error reply), 5 outbound messages, then a later call, later "
        "subscriptions (existing rule, new rule) and a later unfiltered stream. Second session: a paused consumer with max_queued=1 "
        "blocks the reader mid-broadcast (back-pressure) around the fault. Third session: bus connection (add_match makes an AddMatch "
        "round trip). The harness polls the executor and every user future in a seeded random order until two sweeps make no "
        "progress (hang = nothing runnable and nothing left in the script, never a clock), prints every result and the poll order; "
        "the model replays the poll order through Model.step (C38_replay_sound) and must end in exactly the same results, bytes "
        "read and sendmsg calls; the spec oracle judges the observation alone (no hang, errors or complete replies for calls, "
        "streams = complete matching messages then end, later operations fail, no panic). non-trivial = the fault hit while a "
        "call was pending and a stream had already yielded a message")
TRUSTED = ["harness/hfail: scripted Socket (src/sock.rs), seeded poll loop and quiescence test (src/fault.rs); the poll order it records",
           "message lengths and sendmsg counts are read off the real messages by the harness and handed to the model"]
ASSUMPTIONS = ["async_broadcast (DESIGN Appendix B): every active receiver sees every item broadcast after its activation, in order; "
               "broadcast_direct waits while an active receiver has `capacity` unread items and fails at once without active receivers "
               "(await_active(false)); dropping the last Sender closes the channel, receivers drain then end",
               "async_lock::Mutex: mutual exclusion (msg_senders: held by the reader during a whole broadcast round; subscriptions: "
               "held by add_match across the AddMatch round trip)",
               "sends are mutually exclusive and all-or-error per message (C18); one send = `cost` sendmsg calls",
               "executor: a woken task is eventually polled (the theorems say: some action is enabled until everything completed, and "
               "every schedule is finite; that the runtime takes enabled actions is its contract)",
               "transport: recvmsg returns 1..|buf| bytes, 0 at end-of-file, or an error; after a failed sendmsg reads fail too",
               "inbound messages are well formed (malformed input is C12/C14) and at least one byte long"]

S_MAIN = "t1:A,t2:B/c1,c2,c3/isAF:120,ir1/e40/isBG:150,ie2,isAG:200/e8/isBF:60/c4,t3:A,t4:C,t5:*"
S_BACK = "t1:A:q1:h,t2:*/c1,c2/isAF:10,isAG:30,ir1,isAF:20/u1/e5/c3,t3:A"
S_BUS = "t1:A,t2:*/ia1/c1/isAF:8,ir1/t3:A,t4:B,c2"
S_ALT = "t1:C,t2:*,t3:A/c1,e100,c2/ie1,isAG:90,isAG:1/c3/ir2,isBF:300,ir3,isAF:0/t4:*,c4,t5:B"   # thorough: a second shape
# fallbacks when the harness binary cannot be asked (sizes of the sessions on the pinned tree)
FALLBACK = {S_MAIN: (900, 24), S_BACK: (400, 12), S_BUS: (200, 8), S_ALT: (1100, 24)}
WCHUNK = {S_MAIN: 32, S_BACK: 48, S_BUS: 64, S_ALT: 40}


def _probe(mode, session, wchunk):
    """(inbound bytes, sendmsg calls) of the fault-free session, asked of the harness itself."""
    try:
        import core
        b = os.path.join(core.TARGET, "debug", CRATE)
        if not os.path.exists(b):
            raise OSError
        out = subprocess.run([b], input="L 1 %s n 1000 %d %s\n" % (mode, wchunk, session), capture_output=True, text=True, timeout=60).stdout
        lens = out.split("lens=")[1].split(";")[0]
        total = sum(int(x) for x in lens.split(".")) if lens != "-" else 0
        costs = out.split("costs=")[1].split(";")[0].strip()
        calls = sum(max(1, int(x)) for x in costs.split(".")) if costs not in ("-", "") else 0
        return total, calls
    except Exception:
        return FALLBACK[session]


def _cases(rng, mode, session, step, seeds):
    wchunk = WCHUNK[session]
    total, calls = _probe(mode, session, wchunk)
    out = []

    def one(fault):
        for _ in range(seeds):
            out.append("X %d %s %s %d %d %s" % (rng.randint(0, 10 ** 6), mode, fault, rng.choice([1, 7, 16, 1000, 1000]), wchunk, session))

    one("n")
    for p in range(0, total + 2, step):
        for k in "ER":
            one("r%d%s" % (p, k))
    if step > 1:
        # message boundaries matter most: always include the last positions as well
        for p in range(max(0, total - 3), total + 2):
            one("r%dE" % p)
    for j in range(0, calls + 2):
        for k in "ER":
            one("w%d%s" % (j, k))
    return out


def _write_faults(rng, mode, session):
    """every sendmsg call of the session, both kinds — cheap, and the only faults that hit a task blocked on a mutex"""
    wchunk = WCHUNK[session]
    _, calls = _probe(mode, session, wchunk)
    return ["X %d %s w%d%s %d %d %s" % (rng.randint(0, 10 ** 6), mode, j, k, rng.choice([1, 7, 16, 1000]), wchunk, session)
            for j in range(0, calls + 2) for k in "ER"]


def gen(rng, tier):
    quick = tier == "quick"
    cases = []
    cases += _cases(rng, "p", S_MAIN, 1, 1 if quick else 3)
    cases += _cases(rng, "p", S_BACK, 3 if quick else 1, 1 if quick else 3)
    cases += _cases(rng, "b", S_BUS, 2 if quick else 1, 1 if quick else 3)
    # the main session on a bus connection: the first stream holds the subscriptions mutex across its (unanswered) AddMatch call,
    # the second one waits for it and sends its own AddMatch only after the failure
    cases += _write_faults(rng, "b", S_MAIN)
    if not quick:
        cases += _cases(rng, "p", S_ALT, 1, 3)
        cases += _cases(rng, "b", S_MAIN, 2, 1)
    return cases


def _field(out, name):
    for f in out.split(";"):
        if f.startswith(name + "="):
            return f[len(name) + 1:]
    return ""


def nontrivial(case, impl_out):
    t = _field(impl_out, "tasks")
    return ("io:" in t) and (".m" in t or "=m" in t) and ("ok" in t or "me" in t)


def classify(case, impl_out):
    w = case.split(" ")
    f = w[3]
    sess = {S_MAIN: "main", S_BACK: "backpressure", S_BUS: "bus", S_ALT: "alt"}.get(w[6], "other") + ("-bus" if w[2] == "b" and w[6] != S_BUS else "")
    if f == "n":
        return sess + ":no-fault"
    if f[0] == "w":
        return sess + ":write-fault:" + f[-1]
    lens = _field(impl_out, "lens")
    try:
        ls = [int(x) for x in lens.split(".")] if lens not in ("", "-") else []
        p = int(f[1:-1])
        acc, where = 0, "after-the-end"
        for l in ls:
            if p == acc:
                where = "at-a-boundary"
                break
            if p < acc + l:
                where = "in-the-fixed-header" if p - acc < 16 else "inside-a-message"
                break
            acc += l
        else:
            if p == acc:
                where = "at-the-end"
    except ValueError:
        where = "?"
    return "%s:read-fault:%s:%s" % (sess, f[-1], where)


def search(rng, bad_cases):
    out = []
    for c in bad_cases[:20]:
        w = c.split(" ")
        for _ in range(20):
            w2 = list(w)
            w2[1] = str(rng.randint(0, 10 ** 6))
            w2[4] = str(rng.choice([1, 3, 7, 16, 1000]))
            out.append(" ".join(w2))
    out += _cases(rng, "p", S_ALT, 3, 1)
    return out


ENABLED = True
LEVEL = "proof"
LEVEL_TEXT = ("Theorems in coq/theories/Properties/C38.v over a small-step model of the socket reader (byte-wise reads, fault at an "
              "arbitrary position, error broadcast to every entry of msg_senders in any order with back-pressure, senders.clear()), of "
              "call_method_raw/PendingMethodCall, add_match (check, subscriptions mutex, AddMatch round trip on a bus, re-test and insert), "
              "message streams and sends, for any number of tasks, every schedule, every chunking. At full strength (C38_no_hang = "
              "C38_full_statement): a state in which nothing can move is one in which every call has a result (a completely received "
              "reply or an error) and every stream has ended or was refused; such a state is reached within mu steps on every schedule "
              "(C38_no_hang_terminates); msg_senders stays empty after the reader's exit (C38_senders_stay_cleared; refuted before fix "
              "3703ee13, finding addmatch_race, now fixed); streams hold exactly the complete matching messages in order then at most one "
              "error (C38_prefix, C38_prefix_ended, C38_prefix_complete); later calls and subscriptions fail (C38_later_fail_*); no panic "
              "(C38_nopanic). The model is tied to the code by replaying the poll order of ~2300 faulted runs of real Connections (every "
              "byte position, every sendmsg call) through the model's step function.")
LEVEL_NOTE = ("partial only in this sense: protocol-level proof; async-broadcast, async-lock, the executor and the transport are assumed "
              "contracts (ASSUMPTIONS). No known deviation class is left. Trusted: Coq kernel; the hand-written model; harness/hfail.")
