"""C18 — concurrent sends never interleave on the wire."""
import resource

try:
    resource.setrlimit(resource.RLIMIT_STACK, (resource.RLIM_INFINITY, resource.getrlimit(resource.RLIMIT_STACK)[1]))
except (ValueError, OSError):
    pass

ID = "C18"
CRATE = "hconn"
RUN_MODULE = "C18.Run"
TWO_PHASE = True
RULE = ("case = scheduler seed + sendmsg answer script + programs. 2-8 sender tasks, each sending 1-8 (quick) / 1-20 (thorough) "
        "signals with distinct bodies of 0-300 bytes, ~15% carrying 1-3 descriptors (zvariant::Fd in the body), over ONE real "
        "Connection (Builder::authenticated_socket, p2p) whose write half accepts a scripted number of bytes per sendmsg (1, 2, 3, "
        "5, 8, 16, 17, 50, 100, all) and suspends (Pending + wake) 0-3 times before answering, in 60% of the cases once or twice for 12 ms (so that waiting senders "
        "pass the 0.5 ms starvation threshold of async_lock and must be served next); the task futures are polled in a "
        "seeded random order, so other senders run exactly while a write is suspended. The harness prints the programs and every "
        "sendmsg call (task being polled, bytes offered, bytes accepted, descriptors, the bytes); the model replays it through "
        "Model.step, the spec oracle cuts the received wire into messages. non-trivial = at least two tasks, a partial write, and "
        "a switch of sender between consecutive messages")
TRUSTED = ["the scripted write half and the seeded poll loop of harness/hconn (a call is attributed to the task being polled)",
           "descriptor identity by (st_dev, st_ino)"]
ASSUMPTIONS = ["async_lock::Mutex gives mutual exclusion (DESIGN Appendix B); fairness is not needed for this property",
               "transport write contract: sendmsg(buf, fds) accepts 1..|buf| bytes (and the descriptors iff given) or fails; transport "
               "errors are out of scope here (C38/C39)",
               "messages are non-empty (a D-Bus message has at least 16 bytes)"]


def gen_case(rng, tier):
    quick = tier == "quick"
    nt = rng.choice([2, 2, 3, 4, 5, 8])
    tasks = []
    fds_left = 24
    total_msgs = 0
    for _ in range(nt):
        k = rng.randint(1, 8 if quick else 20)
        if rng.random() < 0.08:
            k = 0
        ms = []
        for _ in range(k):
            n = rng.choice([0, 1, 7, 16, 60, 300]) if rng.random() < 0.5 else rng.randint(0, 120)
            f = 0
            if fds_left > 0 and rng.random() < 0.15:
                f = min(fds_left, rng.randint(1, 3))
                fds_left -= f
            ms.append("%d" % n if f == 0 else "%df%d" % (n, f))
        total_msgs += k
        tasks.append(",".join(ms) if ms else "-")
    style = rng.random()
    script = []
    for _ in range(rng.randint(0, 6 * total_msgs + 2)):
        if style < 0.15:
            n = 1000000          # full writes, only suspensions
        elif style < 0.45:
            n = rng.choice([1, 2, 3, 5, 8])
        else:
            n = rng.choice([1, 2, 3, 5, 8, 16, 17, 50, 100, 1000000])
        p = rng.choice([0, 0, 1, 1, 2, 3]) if style >= 0.05 else 0
        script.append("p" * p + str(n))
    # one or two answers of a transport that stays busy for 12 ms (waiters become "starved" in async_lock's sense)
    if script and rng.random() < 0.6:
        for _ in range(rng.choice([1, 1, 2])):
            i = rng.randrange(min(len(script), 12))
            if not script[i].startswith("s"):
                script[i] = "s" + script[i]
    return "W %d %s %s" % (rng.randint(0, 10 ** 9), ",".join(script) if script else "-", " ".join(tasks))


def gen(rng, tier):
    for _ in range(300 if tier == "quick" else 30000):
        yield gen_case(rng, tier)


def _calls(impl_out):
    parts = impl_out.split("#")
    if len(parts) != 3 or parts[1] == "-":
        return []
    out = []
    for c in parts[1].split(","):
        f = c.split(":")
        if len(f) == 5:
            out.append(f)
    return out


def nontrivial(case, impl_out):
    cs = _calls(impl_out)
    partial = any(c[1] != c[2] for c in cs)
    starts = [c[0] for c in cs if True]
    switches = sum(1 for a, b in zip(starts, starts[1:]) if a != b)
    return partial and switches >= 1 and len(case.split(" ")) >= 5


def classify(case, impl_out):
    cs = _calls(impl_out)
    nt = len(case.split(" ")) - 3
    partial = any(c[1] != c[2] for c in cs)
    fds = any(c[3] != "-" for c in cs)
    tasks = [c[0] for c in cs]
    switches = sum(1 for a, b in zip(tasks, tasks[1:]) if a != b)
    return "tasks%d:%s:%s:switches%s" % (nt, "partial" if partial else "full", "fds" if fds else "nofds",
                                         "0" if switches == 0 else ("1-5" if switches <= 5 else "6+"))


def search(rng, bad_cases):
    for _ in range(3000):
        yield gen_case(rng, "thorough")


ENABLED = True
LEVEL = "proof"
LEVEL_TEXT = ("Theorems in coq/theories/Properties/C18.v over a small-step model of Connection::send + WriteHalf::send_message (lock; "
              "while pos < len: pos += sendmsg(rest, fds iff pos = 0); unlock) with any number of tasks: in EVERY reachable state, for every "
              "scheduler and every way the transport splits writes, the wire is a concatenation of whole messages in an order consistent with "
              "each task's program order followed by a prefix of the mutex holder's message, and descriptors are attached exactly at first "
              "bytes (C18_wire, C18_wire_final); the oracle applied to the implementation's wire is proved sound (C18_oracle_sound). "
              "Protocol-level: mutual exclusion of async_lock::Mutex is an assumed contract. The model is tied to the code by replaying every "
              "recorded sendmsg call of real concurrent sends (scripted partial writes and suspensions, seeded interleavings) through the model.")
LEVEL_NOTE = ("Trusted: Coq kernel; the model of the send loop; async_lock::Mutex mutual exclusion (assumed, exercised but not proved); "
              "harness/hconn scripted write half and poll loop. Transport errors are out of scope (a failed sendmsg abandons a half-written "
              "message; C38/C39).")
