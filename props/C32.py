"""C32 — a proxy's signal stream yields signals only from the name's current owner."""
import itertools

import proxygen as g

ID = "C32"
CRATE = "hproxy"
RUN_MODULE = "C32.Run"
SHARDS = 16
RULE = ("scripted bus histories for Proxy::receive_signal/receive_all_signals over a real bus connection (fake bus in-process): "
        "the replies of the stream's creation (AddMatch NameOwnerChanged, GetNameOwner ok/error, AddMatch signal rule) interleaved in "
        "every order with every sequence of <= 2 events over {owner signal, driver NameOwnerChanged change / release / acquire, forged "
        "NameOwnerChanged}, followed by every sequence of <= 2 (<= 1 after two creation-time events; thorough: 3 / 2) events over {signal from owner / former "
        "owner / stranger, other member, driver change / release / acquire, forged notification}, under three batchings (one "
        "message at a time; as much as possible at once; reply together with what follows it); random histories of "
        "up to 12 events over 30 kinds (no sender, wrong path / interface / name / body, forged notifications on the driver's and on "
        "the proxy's path, Properties signals), random batchings and poll points; unique-name destinations; proxies on interface "
        "org.freedesktop.DBus (peers' claims on the proxy's path); inconsistent lookup answers, unstamped signals and driver signals off the "
        "driver's path (model only). non-trivial = at least one signal yielded")
TRUSTED = ["harness hproxy: in-process fake bus behind a custom Socket (recvmsg returns Pending when the script has nothing "
           "to read), Builder::authenticated_socket without p2p (a bus connection), the harness ticks the connection's executor to "
           "quiescence after every batch"]
ASSUMPTIONS = ["one socket-reader task hands each message to every matching channel before reading the next (zbus SocketReader)",
               "async-broadcast: a receiver sees, in order, exactly the messages broadcast after it was created/activated; "
               "capacities only delay the reader (not modelled: a stream that is never polled blocks the connection)",
               "the bus stamps every message with its sender, answers GetNameOwner consistently with the NameOwnerChanged signals "
               "it sent before, never names org.freedesktop.DBus as the owner of a well-known name, and its driver emits "
               "NameOwnerChanged from /org/freedesktop/DBus only, never from the proxied object (spec side; the model covers the "
               "other histories too); the proxied object's path is not /org/freedesktop/DBus",
               "no I/O errors, the connection stays open"]
PARTIAL = []

A = g.sig(1)
Bf = g.sig(2)
Cn = g.noc(0, 2, 1)
Dn = g.noc(0, None, 1)
En = g.noc(0, 1, None)
Fg = g.noc(3, 3, None)
Gs = g.sig(3)
Hm = g.sig(1, member=1)
POOL = [A, Bf, Cn, Dn, En, Fg, Gs, Hm]

MORE = POOL + [
    g.sig("-"), g.sig(1, path=1), g.sig(1, iface=1), g.sig(2, member=1), g.sig(0),
    g.noc(0, 3, 2), g.noc(0, 2, None), g.noc(0, None, 2), g.noc(0, 1, 2),
    g.noc(0, 2, 1, name=1), g.noc(0, 2, 1, path=0), g.noc(0, 2, 1, path=1),
    g.noc(1, 1, None), g.noc(2, 2, 1), g.noc("-", 3, None), g.noc(3, None, 1),
    g.noc(3, 3, None, path=0, iface=0, member=0),           # NameOwnerChanged-shaped body on the proxy's own signal
    g.sig(0, 2, 3, 3, "b"), g.sig(0, 2, 3, 3, "e"),        # driver signals whose body is not (sss)
    g.props(1, 0, [(0, 5)], []), g.sig(1, 0, 2, 2, "b"),
    g.sig(2, 0, 3, 3, "n0-2"), g.sig(1, 0, 3, 0),           # only interesting for proxies on org.freedesktop.DBus
]
SETUP_W = ["R", "R?", "R"]


def case(dest, pi, pm, script):
    return "S %s %d %s %s" % (dest, pi, "-" if pm is None else str(pm), script)


def gen(rng, tier):
    quick = tier == "quick"
    maxlen = 3 if quick else 4
    # 1. exhaustive: every interleaving of the creation replies with every sequence of <= 2 ownership events / owner
    #    signals, followed by every sequence of <= 2 (quick) / <= 3 events once the stream exists; three batchings
    pre_pool = [A, Cn, Dn, En, Fg]
    post_max = 2 if quick else 3
    posts = [list(p) for n in range(0, post_max + 1) for p in itertools.product(POOL, repeat=n)]
    posts1 = [p for p in posts if len(p) <= post_max - 1]
    k = 0
    for n in range(0, 3):
        for evs in itertools.product(pre_pool, repeat=n):
            for hist in g.interleavings(SETUP_W, list(evs)):
                for post in (posts if n <= 1 else posts1):
                    h = g.fix_lookup(hist + post, 1)
                    k += 1
                    yield case("w", 0, 0, g.batch_singletons(h))
                    if len(h) > 3:
                        yield case("w", 0, 0, g.batch_maximal(h) if k % 2 else g.batch_reply_first(h))
    #    ... and every sequence of <= 3 (quick) / <= 4 events after a plain creation, all read at once / one by one
    for n in range(0, (3 if quick else 4) + 1):
        for evs in itertools.product(POOL, repeat=n):
            h = g.fix_lookup(SETUP_W + list(evs), 1)
            yield case("w", 0, 0, g.batch_singletons(h))
            yield case("w", 0, 0, g.batch_maximal(h))
    # 2. random longer histories
    count = 8000 if quick else 150000
    for i in range(count):
        r = rng.random()
        dest, pi, pm = "w", 0, 0
        pool = MORE
        if r < 0.10:
            dest = "u%d" % rng.choice([1, 2])
        elif r < 0.22:
            pi = 3
            pm = rng.choice([None, 3, 0])
        elif r < 0.35:
            pm = None
        n = rng.randint(1, 12 if rng.random() < 0.7 else 6)
        evs = [rng.choice(pool if rng.random() < 0.6 else POOL) for _ in range(n)]
        if pi == 3:
            evs = [e if rng.random() < 0.5 else rng.choice([g.sig(2, 0, 3, 3, "n0-2"), g.sig(1, 0, 3, 0), g.sig(2, 0, 3, 0),
                                                            g.sig(1, 0, 3, 3, "n0-1"), g.sig(3, 0, 3, 3, "n1-3")]) for e in evs]
        setup = ["R"] if dest != "w" else list(SETUP_W)
        # most events after the creation, some in between
        hist = []
        pending = list(setup)
        for e in evs:
            while pending and rng.random() < 0.45:
                hist.append(pending.pop(0))
            hist.append(e)
        while pending and rng.random() < 0.9:
            hist.append(pending.pop(0))
        if rng.random() < 0.5:            # a few more events after the stream exists
            hist += [rng.choice(pool if rng.random() < 0.5 else POOL) for _ in range(rng.randint(1, 4))]
        initial = rng.choice([1, 1, 1, None, 2])
        h = g.fix_lookup(hist, initial)
        rr = rng.random()
        if rr < 0.04:          # the lookup answers something else / nothing sensible
            h = [("Ro%d" % rng.choice([1, 2, 3]) if e.startswith("Ro") or e == "Re" else e) for e in h]
        elif rr < 0.06:
            h = [(rng.choice(["Re", "Rs0=1", "R"]) if e.startswith("R") else e) for e in h]
        yield case(dest, pi, pm, g.batch_random(rng, h))


def meets_spec(impl, spec):
    return impl.split(" calls=")[0] == spec


def nontrivial(case, impl_out):
    head = impl_out.split(" calls=")[0]
    return any(t.split(":")[1] not in ("_", "-") for t in head.split(";") if ":" in t)


def classify(case, impl_out):
    w = case.split(" ")
    head = impl_out.split(" calls=")[0]
    ny = 0
    for t in head.split(";"):
        if ":" in t and t.split(":")[1] not in ("_", "-"):
            ny += len(t.split(":")[1].split("."))
    st = head.split(";")[-1].split(":")[0] if ":" in head else head
    return "%s pi=%s pm=%s %s yields=%s" % (w[1][0], w[2], w[3], st, "0" if ny == 0 else "1" if ny == 1 else "2-3" if ny <= 3 else "4+")


def search(rng, bad_cases):
    for c in bad_cases[:30]:
        w = c.split(" ")
        if len(w) != 5:
            continue
        evs = [e for b in w[4].split("/") for e in b.lstrip("!").split(",") if e != "-"]
        for _ in range(40):
            yield case(w[1], int(w[2]), None if w[3] == "-" else int(w[3]), g.batch_random(rng, evs))
            yield case(w[1], int(w[2]), None if w[3] == "-" else int(w[3]), g.batch_singletons(evs, lambda i: rng.random() < 0.5))


ENABLED = True
LEVEL = "proof"
LEVEL_TEXT = ("Theorems in coq/theories/Properties/C32.v about a Gallina mirror of Proxy::receive_signal(s) as repaired by the fix: commits "
              "902c9069 and 0bffda5d: subscribe_dest_owner_change, SignalStream::new (ordered join of the NameOwnerChanged stream with the "
              "GetNameOwner reply, buffered notification incl. a release), SignalStream::filter (only the driver's NameOwnerChanged "
              "changes the owner) / poll_next_before, MatchRule::matches, the socket reader's in-order fan-out, MessageStream's "
              "NoneBefore rule, PendingMethodCall, and a line-by-line transcription of ordered_stream::Join. For every bus history and "
              "EVERY interleaving of socket reader, stream creation and consumer (induction over the schedule), at FULL strength (no "
              "known class left): what is yielded is a prefix of the list the specification demands (wanted signals whose sender is the "
              "owner established by the lookup and the driver's later notifications), all of it once everything is read and polled; "
              "nothing is withheld at any moment; forged ownership claims can be replaced by noise without changing any run; the panic "
              "site is unreachable; the witnesses of the two repaired findings now run as specified.")
LEVEL_NOTE = ("Trusted: Coq kernel; the hand-written model, tied to the code by running the real Proxy/SignalStream over a real bus "
              "connection against an in-process scripted bus on ~14k (quick) histories x batchings and comparing yielded messages, "
              "completion and the calls made; the substrate contracts in ASSUMPTIONS (single in-order reader, broadcast channels "
              "without loss, executor fairness not needed: safety only). The correspondence exercises schedules of the shape "
              "'read a batch, run every task to quiescence, poll'; finer interleavings are covered by the theorem only. Histories "
              "that a sequential, stamping bus cannot produce are compared model-vs-code but not against the specification. The "
              "proxied object's path is fixed and differs from /org/freedesktop/DBus (a proxy for a well-known name served AT the "
              "driver's path and interface is not modelled).")
