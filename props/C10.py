"""C10 — names, object paths and GUIDs are validated exactly per the spec."""
import itertools

ID = "C10"
CRATE = "hnames"
RUN_MODULE = "C10.Run"
RULE = ("strings over a 12-class alphabet (lower, upper, digit, '_', '-', '.', ':', '/', space, '{', 2-byte 'é', hex letter): "
        "exhaustive to length 4 (quick) / 5 (thorough) per type on the primary entry point, boundary lengths 254..257, "
        "GUID-shaped variants; every case repeated on every checked constructor (TryFrom<&str|String|Arc|Cow|Str|Value|OwnedValue>, "
        "from_static_str, Owned*, Deserialize). non-trivial = the string has >= 2 characters and at least one separator or is accepted")
TRUSTED = ["winnow combinators modelled in Base/Winnow.v (separated/take_while/one_of/alt/literal, ordered choice, reset on failure)"]
ASSUMPTIONS = ["inputs are valid UTF-8 (the constructors take &str); *_unchecked constructors are out of scope as documented"]

ALPHA = ["a", "Z", "7", "_", "-", ".", ":", "/", " ", "{", "é", "f"]
TYPES = {
    "wk": ["str", "string", "arc", "cow", "cowo", "zstr", "value", "ovalue", "static", "owned_str", "owned_string", "de", "de_owned"],
    "uq": ["str", "string", "arc", "cow", "cowo", "zstr", "value", "ovalue", "static", "owned_str", "owned_string", "de", "de_owned"],
    "if": ["str", "string", "arc", "cow", "cowo", "zstr", "value", "ovalue", "static", "owned_str", "owned_string", "de", "de_owned"],
    "er": ["str", "string", "arc", "cow", "cowo", "zstr", "value", "ovalue", "static", "owned_str", "owned_string", "de", "de_owned"],
    "mb": ["str", "string", "arc", "cow", "cowo", "zstr", "value", "ovalue", "static", "owned_str", "owned_string", "de", "de_owned"],
    "pr": ["str", "string", "arc", "cow", "cowo", "zstr", "value", "ovalue", "static", "owned_str", "owned_string", "de", "de_owned"],
    "bus": ["str", "string", "arc", "cow", "zstr", "value", "ovalue", "static", "owned_str", "owned_string", "de", "de_owned"],
    "op": ["str", "string", "bytes", "static", "owned_str", "owned_string", "de", "de_owned"],
    "guid": ["str", "string", "cow", "zstr", "fromstr", "static", "de", "de_owned"],
}


def hx(s):
    return s.encode("utf8").hex()


def line(ty, entry, s):
    return "%s %s %s" % (ty, entry, hx(s))


def interesting():
    """hand-picked boundary strings, used with every type and entry point"""
    out = ["", "a", "a.b", ":a.b", ":1.2", "org.freedesktop.DBus", "org.freedesktop.DBus.", ".a.b", "a..b", "a.b.", "a.7b", "a.b-c",
           "a-b.c", "_._", "-.-", ":a", ":a.", ":.a", "::a.b", ":a.b:c", "/", "//", "/a", "/a/", "/a//b", "/a/b_c/9", "a/b", "/a.b", "/-",
           "A", "_", "9", "9a", "a9", "a b", "é", "a.é", "/é",
           "0123456789abcdef0123456789abcdef", "0123456789ABCDEF0123456789abcdef", "0123456789abcdef0123456789abcde",
           "0123456789abcdef0123456789abcdef0", "01234567-89ab-cdef-0123-456789abcdef", "{0123456789abcdef0123456789abcdef}",
           "{01234567-89ab-cdef-0123-456789abcdef}", "urn:uuid:01234567-89ab-cdef-0123-456789abcdef",
           "0123456789abcdef0123456789abcdeg", " 0123456789abcdef0123456789abcde", "0123456789abcdef0123456789abcdé"]
    for n in (253, 254, 255, 256, 257):
        out.append("a." + "b" * (n - 2))
        out.append(":1." + "2" * (n - 3))
        out.append("m" * n)
        out.append("/" + "p" * (n - 1))
        out.append(("ab." * 100)[: n - 1] + "z")
    return out


def gen(rng, tier):
    maxlen = 4 if tier == "quick" else 5
    strs = []
    for n in range(0, maxlen + 1):
        for t in itertools.product(ALPHA, repeat=n):
            strs.append("".join(t))
    inter = interesting()
    for ty, entries in TYPES.items():
        for s in inter:
            for e in entries:
                yield line(ty, e, s)
        # exhaustive short strings on the primary entry point, plus a rotating other entry point
        for i, s in enumerate(strs):
            yield line(ty, "str", s)
            if i % 7 == 0:
                yield line(ty, entries[1 + (i // 7) % (len(entries) - 1)], s)
        # random longer strings biased to valid shapes
        count = 3000 if tier == "quick" else 60000
        for _ in range(count):
            k = rng.randint(2, 6)
            parts = []
            for _ in range(k):
                ln = rng.randint(0, 4) if rng.random() < 0.15 else rng.randint(1, 5)
                parts.append("".join(rng.choice("abXY01_-" if rng.random() < 0.9 else ALPHA) for _ in range(ln)))
            sep = "/" if ty == "op" else "."
            s = sep.join(parts)
            if ty == "op" or (ty in ("uq", "bus") and rng.random() < 0.5):
                s = ("/" if ty == "op" else ":") + s
            if ty == "guid":
                s = "".join(rng.choice("0123456789abcdefABCDEF" if rng.random() < 0.97 else "g-{ ") for _ in range(rng.choice([31, 32, 32, 32, 33, 36])))
            yield line(ty, rng.choice(entries), s)


def nontrivial(case, impl_out):
    w = case.split(" ")
    s = bytes.fromhex(w[2]) if len(w) > 2 else b""
    return impl_out == "T" or (len(s) >= 2 and any(c in s for c in b"./:"))


def classify(case, impl_out):
    w = case.split(" ")
    return "%s:%s" % (w[0], impl_out)


def search(rng, bad_cases):
    # widen: every string of the thorough enumeration on every entry point of the disagreeing types
    tys = {c.split(" ")[0] for c in bad_cases} or set(TYPES)
    for ty in tys:
        for n in range(0, 5):
            for t in itertools.product(ALPHA, repeat=n):
                for e in TYPES[ty][:3]:
                    yield line(ty, e, "".join(t))

ENABLED = True
LEVEL = "proof"
LEVEL_TEXT = ("Theorems in coq/theories/Properties/C10.v: for every byte string, each validator of the model (a mirror of the winnow "
              "combinator code) accepts exactly the strings of the specification grammar (elements joined by separators, per-type character "
              "classes, length limit); GUID = 32 hex digits. The model is tied to the code by running every checked constructor of every "
              "type on exhaustively enumerated short strings over a 12-class alphabet plus boundary lengths. Unbounded proof + differential "
              "correspondence is the right level for a pure validator.")
LEVEL_NOTE = ("Trusted: Coq kernel; the hand-written model of the validators and of winnow's combinators (Base/Winnow.v); the harness hnames; "
              "inputs restricted to valid UTF-8 (&str API). Known finding: derive(Value)/derive(OwnedValue) conversions do not validate.")
