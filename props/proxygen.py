"""Script generators for harness/hproxy (C31, C32): bus histories as batches of events.

Case syntax: see harness/hproxy/src/main.rs. A *history* here is a list of event tokens; a *batching* cuts it into
batches (at most one reply per batch) and decides after which batches the consumer polls."""
import itertools


def sig(snd, path=0, iface=0, member=0, body="e"):
    return "g%s.%d.%d.%d.%s" % (snd, path, iface, member, body)


def o(x):
    return "-" if x is None else str(x)


def noc(snd, new, old=None, name=0, path=2, iface=3, member=3):
    return sig(snd, path, iface, member, "n%d%s%s" % (name, o(old), o(new)))


def props(snd, ifc=0, ch=(), inv=(), path=0, iface=2, member=2):
    body = "p%d:%s:%s" % (ifc, ";".join("%d=%d" % kv for kv in ch), ";".join(str(k) for k in inv))
    return sig(snd, path, iface, member, body)


def is_reply(ev):
    return ev.startswith("R")


def driver_noc_new(ev):
    """new owner announced by a genuine driver NameOwnerChanged for the proxy's name, else False"""
    if ev.startswith("g0.2.3.3.n0") and len(ev) == len("g0.2.3.3.n0xy"):
        c = ev[-1]
        return None if c == "-" else int(c)
    return False


def lookup_for(history_between, initial):
    """the owner a sequential bus reports after the given events"""
    own = initial
    for ev in history_between:
        n = driver_noc_new(ev)
        if n is not False:
            own = n
    return own


def fix_lookup(hist, initial, lookup_index=2):
    """replace the placeholder `R?` (the lookup reply) by the consistent answer"""
    out = []
    nrep = 0
    since = []
    for ev in hist:
        if is_reply(ev):
            nrep += 1
            if ev == "R?":
                own = lookup_for(since, initial)
                ev = "Re" if own is None else "Ro%d" % own
            if nrep == lookup_index - 1:
                since = []
        else:
            since.append(ev)
        out.append(ev)
    return out


def batch_singletons(hist, poll=lambda i: False):
    return "/".join(("!" if poll(i) else "") + ev for i, ev in enumerate(hist))


def batch_maximal(hist):
    """as few batches as possible: a new batch starts at every reply after the first of a batch"""
    batches, cur, has = [], [], False
    for ev in hist:
        if is_reply(ev) and has:
            batches.append(cur)
            cur, has = [], False
        cur.append(ev)
        has = has or is_reply(ev)
    batches.append(cur)
    return "/".join(",".join(b) if b else "-" for b in batches)


def batch_reply_first(hist):
    """a batch ends right before every reply: the reply and what follows it are read together"""
    batches, cur = [], []
    for ev in hist:
        if is_reply(ev) and cur:
            batches.append(cur)
            cur = []
        cur.append(ev)
    batches.append(cur)
    return "/".join(",".join(b) if b else "-" for b in batches)


def batch_random(rng, hist, pcut=0.4, ppoll=0.4, pempty=0.05):
    batches, cur, has = [], [], False
    for ev in hist:
        if (is_reply(ev) and has) or (cur and rng.random() < pcut):
            batches.append(cur)
            cur, has = [], False
            if rng.random() < pempty:
                batches.append([])
        cur.append(ev)
        has = has or is_reply(ev)
    batches.append(cur)
    return "/".join(("!" if rng.random() < ppoll else "") + (",".join(b) if b else "-") for b in batches)


def interleavings(replies, events):
    """all merges of the two sequences keeping each one's order"""
    n, k = len(events), len(replies)
    for pos in itertools.combinations(range(n + k), k):
        out, ri, ei = [], 0, 0
        ps = set(pos)
        for i in range(n + k):
            if i in ps:
                out.append(replies[ri])
                ri += 1
            else:
                out.append(events[ei])
                ei += 1
        yield out
