"""C29 — interfaces that disable task spawning handle calls in arrival order; with spawning enabled every call gets its reply."""

ID = "C29"
CRATE = "hdisp"
RUN_MODULE = "C29.Run"
TWO_PHASE = True
SHARDS = 16
RULE = ("about a quarter of the method calls (half in the bursts aimed at one spawn-disabled interface) carry the NO_REPLY_EXPECTED "
        "header flag: no reply may come, and they must be executed in arrival order one at a time like the others; "
        "case = one burst of 2-30 method calls sent back-to-back (replies not awaited) over a fresh in-process p2p pair to four "
        "#[interface] instances (two with task spawning enabled, two with spawn = false), &self and &mut self methods, plus "
        "Properties.Get/GetAll/Set, Introspect and calls to an unknown object; every handler runs a script of yields, 1-3 ms sleeps, "
        "signal emissions, object_server().at / remove on another or on its own path, object_server().interface() lookups; the server "
        "connection runs on zbus' internal executor thread or on 1-3 harness threads ticking it. Only bursts in the class `safe` "
        "(one lock order, C29/Safe.v) are generated here; the deadlock classes belong to C30. The harness prints the handler "
        "start / operation / end log and the replies; the model must explain the log as the projection of a complete run "
        "(C29_explains_ok_sound) and the oracle checks sequential arrival order of the inline calls and exactly one reply per call. "
        "non-trivial = at least two inline calls with awaits, at least one spawned call, and handlers overlapping in the log")
TRUSTED = ["harness/hdisp: the global event log (a Mutex<Vec>) orders handler events as they happened; replies are logged when the "
           "peer receives them", "send order on one connection = arrival order at the dispatch task (FIFO socket, FIFO stream)"]
ASSUMPTIONS = ["async_lock::RwLock: many readers xor one writer; a writer that owns the writer mutex blocks new readers (read from "
               "async-lock 3.4.1 raw.rs, modelled as such)",
               "executor: tasks are independent; liveness clauses assume every runnable task is eventually polled",
               "the dispatch stream is FIFO and bursts stay below its capacity (64)",
               "sending a reply or a signal completes by itself (transport failures: C38/C39)"]

AWAITS = ["y1", "y2", "y5", "z1", "z2", "z3", "e", "y0"]
MUTS = ["a0", "a1", "r0", "r1"]


def script(rng, ops, maxlen=4):
    n = rng.choice([0, 1, 1, 2, 2, 3, maxlen])
    if n == 0:
        return "-"
    return ".".join(rng.choice(ops) for _ in range(n))


def flag(rng, tok, p=0.25):
    """give a method call the NO_REPLY_EXPECTED header flag with probability p"""
    if tok[0] in "mf" and rng.random() < p:
        h, _, sc = tok.partition(":")
        return h + "!:" + sc
    return tok


def fire_and_forget(rng):
    # one spawn-disabled interface, handlers that sleep / yield, about half of the calls fire-and-forget,
    # closely followed by further calls to the same interface
    k = rng.choice([2, 3])
    n = rng.choice([3, 4, 6, 8, 12])
    calls = []
    for _ in range(n):
        kk = k if rng.random() < 0.85 else rng.choice([0, 1, 5 - k])
        tok = "%s%d:%s" % (rng.choice("mf"), kk, ".".join(rng.choice(["z2", "z3", "z4", "y2", "y5", "z1", "e"]) for _ in range(rng.randint(1, 3))))
        calls.append(flag(rng, tok, 0.5))
    return "D %s -,-,-,- %s" % (rng.choice(["i", "i", "1", "2", "3"]), " ".join(calls))


def gen_case(rng, tier):
    if rng.random() < 0.18:
        return fire_and_forget(rng)
    style = rng.random()
    n = rng.choice([2, 3, 4, 6, 8, 12, 20, 30]) if rng.random() < 0.8 else rng.randint(2, 30)
    execm = rng.choice(["i", "i", "1", "2", "3"])
    getters = ["-", "-", "-", "-"]
    calls = []
    if style < 0.5:
        # A: methods only; handlers await, register, remove, emit
        ops = AWAITS + MUTS
        for _ in range(n):
            k = rng.choice([0, 1, 2, 2, 3, 3])
            kind = rng.choice("mf")
            if rng.random() < 0.04:
                calls.append("n")
            else:
                calls.append("%s%d:%s" % (kind, k, script(rng, ops)))
    elif style < 0.8:
        # B: every kind of call; with Introspect traffic the handlers only await, without it method and property
        #    handlers also register / remove (safe since /repo d9501501)
        with_x = rng.random() < 0.4
        ops = AWAITS if with_x else AWAITS + MUTS
        getters = [script(rng, ops, 2) for _ in range(4)]
        for _ in range(n):
            k = rng.choice([0, 1, 2, 3])
            kind = rng.choice(("mmffgGstxn" if with_x else "mmffgGstgn") if rng.random() < 0.5 else "mmmfff")
            if kind == "n":
                calls.append("n")
            elif kind in "gGx":
                calls.append("%s%d" % (kind, k))
            else:
                calls.append("%s%d:%s" % (kind, k, script(rng, ops)))
    else:
        # C: handlers of the spawning interfaces look the inline interfaces up (and register / remove);
        #    handlers of the inline interfaces only await
        for _ in range(n):
            if rng.random() < 0.5:
                k = rng.choice([0, 1])
                calls.append("%s%d:%s" % (rng.choice("mf"), k, script(rng, AWAITS + MUTS + ["i2", "i3"])))
            else:
                k = rng.choice([2, 3])
                calls.append("%s%d:%s" % (rng.choice("mf"), k, script(rng, AWAITS)))
    calls = [flag(rng, c) for c in calls]
    return "D %s %s %s" % (execm, ",".join(getters), " ".join(calls))


def gen(rng, tier):
    for _ in range(260 if tier == "quick" else 20000):
        yield gen_case(rng, tier)


def _events(impl_out):
    p = impl_out.split("#")
    if len(p) != 2 or p[1] == "-":
        return []
    return p[1].split(",")


def _overlap(evs):
    open_ = set()
    for e in evs:
        if e[0] == "S":
            if open_:
                return True
            open_.add(e[1:])
        elif e[0] == "E":
            open_.discard(e[1:])
    return False


def _inline(tok):
    return tok[0] in "mf" and tok[1] in "23"


def _flagged(tok):
    return tok.split(":")[0].endswith("!")


def nontrivial(case, impl_out):
    w = case.split(" ")[3:]
    inl = [t for t in w if _inline(t) and ":" in t and t.split(":")[1] != "-"]
    spawned = [t for t in w if not _inline(t) and t != "n"]
    return len(inl) >= 2 and len(spawned) >= 1 and _overlap(_events(impl_out))


def classify(case, impl_out):
    w = case.split(" ")
    n = len(w) - 3
    size = "2-4" if n <= 4 else ("5-12" if n <= 12 else "13-30")
    inl = sum(1 for t in w[3:] if _inline(t))
    nf = sum(1 for t in w[3:] if _inline(t) and _flagged(t))
    return "%s:calls%s:inline%s:noreply-inline%s:%s:exec%s" % (impl_out.split("#")[0], size, "0" if inl == 0 else ("1" if inl == 1 else "2+"),
                                                             "0" if nf == 0 else ("1" if nf == 1 else "2+"),
                                                             "overlap" if _overlap(_events(impl_out)) else "serial", w[1])


def search(rng, bad_cases):
    for _ in range(600):
        yield gen_case(rng, "thorough")


ENABLED = True
LEVEL = "proof"
LEVEL_TEXT = ("Theorems in coq/theories/Properties/C29.v over a small-step model of the dispatch task (receive, root read lock for the "
              "lookup, then run dispatch_call_to_iface inline or spawn it), of dispatch_call_to_iface (interface read lock, or read-drop-"
              "write for &mut methods, reply sent under the lock), of ObjectServer::at/remove/interface and of the Properties / "
              "Introspectable paths (Properties as repaired by /repo d9501501), under the RwLock semantics read from async-lock (write-preferring), with handlers as arbitrary finite "
              "scripts, any number of calls and tasks and an arbitrary scheduler: in EVERY reachable state the events of the inline calls "
              "are a prefix of their sequential execution in arrival order (C29_order, C29_order_complete); no reply is sent twice and, in "
              "the class of bursts that respect one lock order (which contains every burst of method handlers that await / register / "
              "remove / emit, C29_methods_safe — and since d9501501 of property handlers too), some step is enabled until every call has exactly one reply (C29_all_reply), and every run "
              "is finite with an explicit bound (C29_terminates). The model is "
              "tied to the code by replaying the handler event log of real bursts through the model (every verdict is re-run through "
              "Model.runs, C29_explains_ok_sound) and the order / reply oracle is evaluated on the implementation's own log.")
LEVEL_NOTE = ("Protocol-level proof: the lock semantics, FIFO delivery to the dispatch task and executor fairness are assumed contracts. "
              "Liveness is stated as 'a step is enabled until all replies are there' (C29_all_reply) plus 'no run has more than "
              "run_bound steps' (C29_terminates); that enabled steps are eventually taken is the executor's contract. Property accesses to a spawn-disabled interface go through org.freedesktop.DBus.Properties, "
              "whose methods are spawned: they are not ordered (and the property text only speaks of method calls). Trusted: Coq kernel, "
              "the model, harness/hdisp and its event log.")
