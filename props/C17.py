"""C17 — the client-side handshake succeeds only on a proper server acceptance."""
import itertools

import saslgen as g

ID = "C17"
CRATE = "hsasl"
RUN_MODULE = "C17.Run"
TWO_PHASE = True
CONFIGS = [{"name": "debug", "profile": "debug"},
           {"name": "release", "profile": "release", "thorough_only": True}]
RULE = ("server byte streams: first reply over 31 shapes {OK with valid / other / upper-case / short / hyphenated / non-hex / over-long "
        "GUID, with extra words, missing GUID, REJECTED, ERROR, DATA, AGREE_UNIX_FD, junk, empty, non-UTF-8, client-only commands} x "
        "second reply over 12 shapes x optional third line, x {EXTERNAL, ANONYMOUS from Builder or socket} x {fd passing possible or "
        "not} x {pipelined, FLATPAK_ID (one command at a time)}; trailing bytes/fds or whole messages; stray line endings; every chunking "
        "of short streams, per-line / CR|LF / per-byte / random chunkings; partial writes; expected GUID (matching, mismatching, "
        "case-differing) through Builder::address over a real abstract unix socket. non-trivial = the handshake got past the first reply")
TRUSTED = ["harness hsasl: scripted Socket, receive_message override recording the leftover handed to the socket reader, "
           "Connection::send as the probe of cap_unix_fd; for expected GUIDs a real abstract unix socket whose server thread writes "
           "the script in one write",
           "the client's own uid in AUTH EXTERNAL is rendered as '@' by the harness (the model is parametric in it)"]
ASSUMPTIONS = ["transport read contract: recvmsg returns 1..=buf.len() bytes of the stream with their fds, or 0 at EOF; never an error",
               "transport write contract: all bytes are eventually written in order, never an error",
               "p2p connection (no Hello exchange); Linux (the NUL byte is part of the first write)"]
PARTIAL = []

FIRST = g.C_FIRST + g.C_FIRST_MORE
MECHS = ["E", "A", "e", "a"]


def stream(lines, terms=None, tail=b""):
    out = b""
    for i, l in enumerate(lines):
        out += l + (terms[i] if terms else g.CRLF)
    return out + tail


def gen(rng, tier):
    quick = tier == "quick"
    ok = b"OK " + g.GUID.encode()
    k = 0
    # 1. exhaustive two-line (plus optional third) reply sequences in every configuration, one chunk and per-line chunks
    for f in FIRST:
        for s in [None] + g.C_SECOND:
            for t in [None, b"AGREE_UNIX_FD", b"junk"]:
                if s is None and t is not None:
                    continue
                lines = [x for x in (f, s, t) if x is not None]
                data = stream(lines)
                for mech in MECHS:
                    for fdcap in (0, 1):
                        for fp in ((0, 1) if fdcap else (0,)):
                            k += 1
                            if quick and t is not None and k % 3:
                                continue
                            cs = [data] if k % 2 else g.line_splits(data)[0]
                            yield g.c_case(mech, "-", fdcap, fp, 0, "A", cs)
    # 2. every chunking of short streams
    shorts = [b"OK\r\n", b"\n", b"\r\n", b"DATA\r\n\n", b"A\r\n\nB\r\n", b"ERROR\nx"]
    for d in shorts:
        for cs in g.all_splits(d):
            yield g.c_case("A", "-", 1, 0, 0, "A", cs)
    full = stream([ok, b"AGREE_UNIX_FD"], tail=b"xy")
    for cuts in itertools.combinations(range(1, len(full)), 2):
        if quick and (cuts[0] + cuts[1]) % 3:
            continue
        yield g.c_case("A", "-", 1, (cuts[0] % 2), 0, "A", g.split_at(full, list(cuts)))
    # 3. structured random
    count = 8000 if quick else 60000
    for i in range(count):
        mech = rng.choice(MECHS)
        fdcap = rng.randint(0, 1)
        fp = rng.randint(0, 1) if rng.random() < 0.3 else 0
        r = rng.random()
        first = ok if r < 0.7 else rng.choice(FIRST)
        lines = [first]
        if fdcap:
            r2 = rng.random()
            lines.append(b"AGREE_UNIX_FD" if r2 < 0.5 else (rng.choice([b"ERROR", b"ERROR no fds here"]) if r2 < 0.75 else rng.choice(g.C_SECOND)))
        obs, tail, nfds = "A", b"", 0
        rt = rng.random()
        if rt < 0.3:
            for _ in range(rng.randint(0, 2)):
                lines.append(rng.choice(g.C_SECOND + FIRST))
            tail = bytes(rng.choice(b"lB\n\r\0xyz") for _ in range(rng.randint(0, 12)))
        elif rt < 0.5:
            obs = "B"
            nfds = rng.choice([0, 0, 1, 2])
            tail = g.dbus_signal(1, nfds) + (g.dbus_signal(2, 0, "N") if rng.random() < 0.5 else b"")
        elif rt < 0.55:
            tail = b"z" * rng.choice([1000, 1100, 2500])
        clean = obs == "B" or rng.random() < 0.7
        terms = [g.CRLF if clean else rng.choice(g.TERMS) for _ in lines]
        data = stream(lines, terms, tail)
        for cs in g.chunkings(rng, data, 2)[: (3 if quick else 6)]:
            if obs == "B":
                cs2 = [(c, nfds if j == 0 else 0) for j, c in enumerate(cs)]
            else:
                cs2 = g.with_fds(rng, cs, rng.choice([0, 0, 0, 1, 3]))
                if rng.random() < 0.03 and len(cs2) > 1:
                    cs2.insert(rng.randrange(len(cs2)), b"")
            yield g.c_case(mech, "-", fdcap, fp, rng.choice([0, 0, 1, 7]), obs, cs2)
    # 4. expected GUID through the address, over a real socket (fd passing always possible there)
    guids = [g.GUID, g.GUID2, g.GUID.upper()]
    firsts = [ok, b"OK " + g.GUID2.encode(), b"OK " + g.GUID.upper().encode(), b"OK", b"OK 0123", b"REJECTED EXTERNAL", b"ERROR", b"DATA",
              b"", b"FOO"]
    seconds = [b"AGREE_UNIX_FD", b"ERROR x", ok, b"OK " + g.GUID2.encode(), b"FOO"]
    n = 0
    for eg in ["-"] + guids:
        for f in firsts:
            for s in seconds:
                n += 1
                if quick and n % 2 and eg != g.GUID:
                    continue
                mech = ["E", "A", "e"][n % 3]
                yield g.c_case(mech, eg, 1, 1 if n % 7 == 0 else 0, 0, "G", [stream([f, s])])
    yield g.c_case("A", g.GUID, 1, 0, 0, "G", [b"\n"])
    yield g.c_case("A", g.GUID, 1, 0, 0, "G", [ok + b"\r\n\n"])


def nontrivial(case, impl_out):
    w = g.obs_hex(impl_out, "w") or ""
    return "424547494e" in w           # BEGIN was sent


def classify(case, impl_out):
    w = case.split(" ")
    return "%s:fd%s:fp%s:%s:%s" % (w[1].upper(), w[3], w[4], w[6], impl_out.split(" ")[0])


def search(rng, bad_cases):
    for c in bad_cases[:20]:
        w = c.split(" ")
        if len(w) != 8 or w[7] == "-" or w[6] == "G":
            continue
        data = b"".join(bytes.fromhex(x.split("@")[0]) for x in w[7].split(","))
        for mech in MECHS:
            for fdcap in (0, 1):
                for cs in g.chunkings(rng, data, 4):
                    yield g.c_case(mech, "-", fdcap, int(w[4]), 0, "A", cs)


ENABLED = True
LEVEL = "proof"
LEVEL_TEXT = ("Theorems in coq/theories/Properties/C17.v about a Gallina mirror of Client::{authenticate, send_secondary_commands, "
              "receive_secondary_responses, perform} over the shared line reader, all at full strength (every server stream, every "
              "chunking, no excluded class since fix 49785cde): if the client completes then the stream begins with OK <32-hex GUID> "
              "(equal to the expected one), fd passing is enabled exactly when the answer to NEGOTIATE_UNIX_FD is AGREE_UNIX_FD, and "
              "exactly the bytes after the handshake lines and all fds are handed to the message reader (C17_done_sound); the outcome "
              "is the one an independent specification prescribes (C17_conforms: a proper acceptance completes, everything else fails); "
              "the outcome does not depend on the chunking; nothing panics (C17_nopanic).")
LEVEL_NOTE = ("Trusted: Coq kernel; the hand-written model, tied to the code by running the real client handshake over a scripted socket "
              "(and over a real abstract unix socket for expected GUIDs) on ~25k (quick) reply sequences/chunkings; the transport "
              "contracts; p2p connections only (no Hello). The hand-off from the leftover buffer into Message parsing is C14's subject; "
              "here it is observed at the ReadHalf::receive_message boundary and, for whole trailing messages, through MessageStream.")
