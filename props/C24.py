"""C24 — the object server exposes exactly the registered interfaces."""
import itertools

ID = "C24"
CRATE = "hobjsrv"
RUN_MODULE = "C24.Run"
SHARDS = 16
RUN_TIMEOUT = 1500
MODE = "24"
RULE = ("histories of at/remove/om/rmom on a fresh in-process p2p connection pair: ALL histories of length <= 3 (quick) / <= 4 "
        "(thorough; those of length 4 that start with a removal are skipped) over 4 paths (/, /a, /a/b, /x) x {I1, I2, ObjectManager}; all of length <= 2 over 6 paths x 3 interfaces + "
        "ObjectManager; random histories of length 20..60 (thorough: up to 200), biased towards "
        "effective operations (no known-deviation class is left: the oracle is in force on every step of every history). After EVERY op: result, 6 paths x 4 interfaces looked up through ObjectServer::interface and "
        "called from the peer (instance identity compared), Introspect at each of the 6 paths (interfaces, full subtree). "
        "non-trivial = the history has >= 2 ops, at least one successful op and at least one successful removal or a nested path")
TRUSTED = ["harness/hobjsrv (in-process UnixStream::pair p2p connections, zbus_xml to read the Introspect XML)",
           "HashMap iteration order is abstracted: both sides sort interfaces and child names before printing"]
ASSUMPTIONS = ["histories are sequential (one operation at a time, each awaited); no concurrent mutation of the tree",
               "signal emission inside at/remove succeeds (the connection stays alive)",
               "user interfaces are represented by three types I1..I3; the standard interfaces Peer/Introspectable/Properties are never removed"]

PATHS_SMALL = ["/", "/a", "/a/b", "/x"]
PATHS_ALL = ["/", "/a", "/a/b", "/a/b/c", "/x", "/ab"]


def alphabet(paths, kinds, om=True):
    ops = []
    for p in paths:
        for k in kinds:
            ops.append("at:%s:%s" % (p, k))
            ops.append("rm:%s:%s" % (p, k))
        if om:
            ops.append("om:%s" % p)
            ops.append("rmom:%s" % p)
    return ops


def line(ops):
    return (MODE + " " + " ".join(ops)).strip()


# ---- a Python copy of the flat map and of the known-class predicate, used ONLY to steer generation
def parse(op):
    w = op.split(":")
    if w[0] == "om":
        return ("at", w[1], "M")
    if w[0] == "rmom":
        return ("rm", w[1], "M")
    return (w[0], w[1], w[2])


def segs(p):
    return tuple(x for x in p.split("/") if x)


def flat_step(s, op):
    """returns (flagged?, effective?) and updates s (a set of (segs, kind)); no known-deviation class is left
    (fixes f5fe3276, 71f8bd70), so nothing is ever flagged"""
    a, p, k = parse(op)
    key = (segs(p), k)
    if a == "at":
        if key in s:
            return False, False
        s.add(key)
        return False, True
    if key not in s:
        return False, False
    s.discard(key)
    return False, True


def first_flag_index(ops):
    s = set()
    for i, o in enumerate(ops):
        f, _ = flat_step(s, o)
        if f:
            return i
    return None


def random_history(rng, n, paths, kinds, steer):
    s = set()
    ops = []
    alpha = alphabet(paths, kinds)
    while len(ops) < n:
        # bias: removals of something present and additions of something absent are the interesting ones
        for _ in range(20):
            o = rng.choice(alpha)
            a, p, k = parse(o)
            present = (segs(p), k) in s
            if (a == "rm") != present and rng.random() < 0.7:
                continue
            t = set(s)
            f, _ = flat_step(t, o)
            if steer and f:
                continue
            break
        else:
            o = rng.choice([x for x in alpha if x.startswith("at") or x.startswith("om")])
        flat_step(s, o)
        ops.append(o)
    return ops


def gen(rng, tier):
    # exhaustive short histories
    small = alphabet(PATHS_SMALL, "12")
    maxlen = 3 if tier == "quick" else 4
    for n in range(0, maxlen + 1):
        for t in itertools.product(small, repeat=n):
            # length 4 (thorough): a history that starts with a removal on the fresh server only adds a failing
            # first step to a length-3 history that is already there
            if n == 4 and t[0].startswith("rm"):
                continue
            yield line(t)
    big = alphabet(PATHS_ALL, "123")
    for n in range(1, 3):
        for t in itertools.product(big, repeat=n):
            yield line(t)
    # random long histories
    count = 500 if tier == "quick" else 2000
    hi = 60 if tier == "quick" else 200
    for i in range(count):
        n = rng.randint(20, hi)
        steer = rng.random() < 0.6
        paths = PATHS_ALL if rng.random() < 0.7 else PATHS_SMALL
        ops = random_history(rng, n, paths, "123", steer)
        yield line(ops)
        j = first_flag_index(ops)
        if j is not None and j > 0:
            yield line(ops[:j])


def steps(out):
    return out.split(";")


def meets_spec(impl, spec):
    # the flat map does not constrain tree shapes (interface-less intermediate nodes): drop the T section;
    # a successful removal is "OK" in the spec: the flag it returns (T/F) is not constrained
    a, b = steps(impl), steps(spec)
    if len(a) != len(b):
        return False
    for x, y in zip(a, b):
        x = x.rsplit("|", 1)[0]
        if y.startswith("OK|"):
            rx, _, restx = x.partition("|")
            if rx not in ("T", "F") or restx != y[3:]:
                return False
        elif x != y:
            return False
    return True


def results(impl_out):
    return [s.split("|", 1)[0] for s in steps(impl_out)[1:]]


def nontrivial(case, impl_out):
    ops = case.split(" ")[1:]
    rs = results(impl_out)
    if len(ops) < 2 or "T" not in rs:
        return False
    removed = any(o.startswith("rm") and r in ("T", "F") for o, r in zip(ops, rs))
    nested = any(o.split(":")[1].count("/") > 1 for o in ops)
    return removed or nested


def classify(case, impl_out):
    n = len(case.split(" ")) - 1
    b = "len<=4" if n <= 4 else "len<=60" if n <= 60 else "len>60"
    rs = results(impl_out)
    tag = "panic" if "PANIC" in rs else "err" if "ERR" in rs else "dup" if "F" in rs else "plain"
    return b + ":" + tag


def search(rng, bad_cases):
    seen = set()
    for c in bad_cases:
        ops = c.split(" ")[1:]
        for j in range(len(ops) + 1):
            yield line(ops[:j])
        for _ in range(200):
            o = list(ops)
            if o and rng.random() < 0.5:
                o[rng.randrange(len(o))] = rng.choice(alphabet(PATHS_ALL, "123"))
            else:
                o.insert(rng.randint(0, len(o)), rng.choice(alphabet(PATHS_ALL, "123")))
            yield line(o)
    for i in range(400):
        yield line(random_history(rng, rng.randint(3, 30), PATHS_ALL, "123", True))


ENABLED = True
LEVEL = "proof"
LEVEL_TEXT = ("Theorem C24_refines in coq/theories/Properties/C24.v, for ALL histories (no bound on length, paths or depth, nothing "
              "excluded): the model of the node tree (get_child / get_child_mut with creation, add_arc_interface, remove with node "
              "deletion, is_empty, has_children; as the code is after fixes f5fe3276 and 71f8bd70) refines a flat map "
              "(path, interface) -> instance: lookups, method calls and introspection of every pair, the result of every operation, "
              "and no panic. The model is tied to the code by running every history of length <= 3 over a 24-op alphabet and random "
              "long histories on the real ObjectServer over a p2p connection pair, comparing after every op lookups, method calls "
              "and the Introspect tree.")
LEVEL_NOTE = ("full strength: no known-deviation class is left. The three defects found earlier (removal at '/' panicked; removal at a node "
              "with children deleted the subtree; removal dropping an ObjectManager registered at the same path) were fixed by f5fe3276 "
              "and 71f8bd70; their witnesses run as ordinary cases and the reverse patches under seeded/selftest/C24 are caught with a "
              "failing input. Trusted: Coq kernel, the hand-written tree model, harness hobjsrv, sequential histories only.")
