"""C26 — method dispatch answers each call exactly once and correctly (proc-macro property: quantifies over programs)."""
import os
import sys

sys.path.insert(0, os.path.dirname(os.path.abspath(__file__)))
import ifacegen  # noqa: E402

ID = "C26"
CRATE = "hiface"
RUN_MODULE = "C26.Run"
RULE = ("interface DESCRIPTIONS (methods: 0..3 inputs and unit / single / tuple outputs over an 11-type menu, &self / &mut self, "
        "fallible or not, sync / async; properties; signals; doc texts): a fixed corpus of 8 hand-picked descriptions plus 12 "
        "(thorough: 48) drawn from the seed; the Rust source of every description (#[zbus::interface] impl + #[zbus::proxy] trait) is "
        "GENERATED from it, compiled against /repo and run over an in-process p2p connection pair; per description 6 (thorough 16) "
        "call histories of 14..24 raw METHOD_CALLs on 5 node-tree layouts: right / wrong / missing path, interface, member; bodies "
        "with the declared types, one wrong type, missing / extra / permuted / flattened arguments; NO_REPLY_EXPECTED on 20 %; calls "
        "to Peer, Properties and a second interface. Observed per call: every reply (kind, error name, wire signature, values), the "
        "handler log (instance, member, decoded arguments) and every signal. evaluations = calls; non-trivial = a history with "
        ">= 2 calls, at least one answered by a result and at least one by an error")
TRUSTED = ["the description -> Rust source emitter (props/ifacegen.py emit_iface) and the standard handler bodies it writes (rt.rs = C26/Std.v)",
           "harness/hiface (p2p pair, hand-encoded messages for absent PATH / MEMBER, wire signature read from the raw header)",
           "the macros are MODELLED (hand-written model of the generated code); the tie is the differential run on generated programs"]
ASSUMPTIONS = ["calls are dispatched one at a time (each history is sequential; concurrency of dispatch is C29/C30)",
               "the codec delivers body values unchanged at a given signature (C01/C02); values are abstract here",
               "user code respects its Rust signature: a non-fallible method returns, results have the declared types (tree_respects)",
               "the node tree is built by ObjectServer::at only (no removals: C24); every node carries Peer, Introspectable, Properties"]


def custom_run(pid, tier, seed, replay=None):
    import types
    return ifacegen.run_property(types.SimpleNamespace(**globals()), pid, tier, seed, replay)


ENABLED = True
LEVEL = "proof"
LEVEL_TEXT = ("Theorems in coq/theories/Properties/C26.v over ALL interface descriptions, node trees, calls and handler behaviours: "
              "exactly one reply unless NO_REPLY_EXPECTED (full strength); outside four decidable classes the model of "
              "dispatch_method_call_try + the generated call/call_mut/argument decoding/reply code meets the specification written "
              "from the property text (handler runs iff path, interface, member and argument types match; result with the declared "
              "types, handler's error, or UnknownObject / UnknownInterface / UnknownMethod / InvalidArgs); wrong argument types are "
              "always rejected with InvalidArgs (fix 86474bc3) without running the handler. Inside each class a concrete call refutes the full statement. The macros are modelled; "
              "the model is tied to them by generating Rust sources from the same descriptions, compiling them against /repo and "
              "comparing every observable of every generated call.")
LEVEL_NOTE = ("partial: the full statement is refuted in four known classes (a method without inputs ignores the body; `us` and `(us)` bodies are "
              "indistinguishable after parsing; a call without INTERFACE is answered Failed; a single struct return travels as its "
              "fields); the former class invalid_args_name is fixed by 86474bc3 and its witness now meets the specification. Trusted: Coq kernel, the hand-written model of the generated code, the description->source emitter, harness "
              "hiface. Sequential calls only.")
