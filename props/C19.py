"""C19 — every method call receives its own reply and only its own reply."""
import resource

try:
    resource.setrlimit(resource.RLIMIT_STACK, (resource.RLIM_INFINITY, resource.getrlimit(resource.RLIMIT_STACK)[1]))
except (ValueError, OSError):
    pass

ID = "C19"
CRATE = "hcalls"
RUN_MODULE = "C19.Run"
TWO_PHASE = True
RULE = ("case = K <method_timeout|-> <calls> <steps>: 1-12 concurrent calls on ONE real p2p Connection over a scripted socket "
        "(kinds: Connection::call_method, Proxy::call, Proxy::call_with_flags(NoAutoStart), Proxy::call_noreply; the call's sendmsg "
        "answers Pending 0-3 times, or fails, or lets the bytes out at once but returns only at the next poll — so that the peer's "
        "reply can be handled completely by the socket reader before send() has returned) and an explicit interleaving of single steps: poll caller i once, tick the connection's "
        "executor once (internal_executor(false): the socket reader only runs then), the peer answers call i with a return / an error "
        "(also twice, also before the caller is polled again, also while the caller is still inside send()), stray returns/errors with "
        "the serial of a call never made, signals, a signal and a method call carrying a pending call's serial as reply_serial, EOF / "
        "read error at a random point, method_timeout 50 ms against answers that never come; in ~7 % of the small cases the "
        "application makes a MessageStream for exactly `type='method_return'` / `type='error'` (steps Y / W, y = poll a pending "
        "creation again, D = drop those streams). Shapes: random interleavings; bursts "
        "(all calls written, all answers queued, then the reader runs: > 8 unread replies, the back-pressure branch of "
        "broadcast_direct); floods of strays while callers do not poll; answer-before-first-poll. After the listed steps the harness "
        "drains (tick until idle, poll everybody, until nothing moves; with a timeout: sleep past it and drain again). The harness "
        "prints what every step did plus, after every step, queue length / active receivers / closed flag of the method-return "
        "channel (read through `impl Debug for Connection`) and the number of active receivers at the moment a call is handed to "
        "sendmsg. non-trivial = at least two calls completed with their reply and the reader was ticked while a reply was unread")
TRUSTED = ["harness/hcalls: scripted Socket (recvmsg hands out whole messages that the peer steps queued, Pending otherwise; sendmsg "
           "answers per script), single-step scheduler, attribution of results to items by the item number in the reply body",
           "the channel state is read from the text of `format!(\"{:?}\", connection)` (derive(Debug) of zbus, async-lock, "
           "async-broadcast)"]
ASSUMPTIONS = ["async-broadcast contract (C19/Broadcast.v): bounded FIFO with one cursor per active receiver, new receivers start at "
               "the tail, an element leaves when every receiver that existed at send time has read it or is gone, broadcast_direct "
               "waits while full and fails at once without active receiver (await_active(false)), closing lets receivers drain",
               "environment: a message whose reply_serial is the serial of one of our calls arrives only after that call was written "
               "(the peer learns serials from the calls it receives)",
               "serial numbers of concurrent calls are distinct (C15)",
               "executor: a woken task is eventually polled; timers fire (LTimeout is an event of the model, real time is not modelled)",
               "async_lock::Mutex / the write path are as in C18; a failed sendmsg makes send() fail"]
PARTIAL = ["C19_delivery_partial", "C19_return_rule_hijack_refuted"]
SHARDS = 4


def _answer(rng, i):
    return ("R%d" if rng.random() < 0.7 else "Q%d") % i


def gen_case(rng, tier):
    n = rng.choice([1, 2, 3, 4, 6, 9, 10, 12, 12])
    style = rng.choice(["random", "random", "burst", "flood", "early", "random"])
    tmo = "50" if rng.random() < 0.18 else "-"
    kinds = []
    for _ in range(n):
        r = rng.random()
        k = "m" if r < 0.6 else "p" if r < 0.75 else "n" if r < 0.9 else "f"
        w = rng.random()
        wd = "0" if w < 0.66 else "x" if w < 0.70 else "L" if w < 0.80 else str(rng.randint(1, 3))
        kinds.append(k + wd)
    steps = []
    polled = [0] * n                      # how often each caller was polled (rough: written once polled wd+1 times)

    def written(i):
        w = kinds[i][1:]
        return w != "x" and polled[i] > (0 if w == "L" else int(w))

    def poll(i):
        steps.append("c%d" % i)
        polled[i] += 1

    fail_at = None
    if rng.random() < 0.2:
        fail_at = rng.randint(0, 3 * n + 4)
    answered = set()
    if style == "burst":
        order = list(range(n))
        rng.shuffle(order)
        for i in order:
            for _ in range(4):
                if not written(i) and kinds[i][1:] != "x":
                    poll(i)
        rng.shuffle(order)
        for i in order:
            if rng.random() < 0.9:
                steps.append(_answer(rng, i))
            if rng.random() < 0.2:
                steps.append(rng.choice(["U", "V", "G"]))
        for _ in range(rng.randint(1, 3)):
            steps.append("t")
        rng.shuffle(order)
        for i in order:
            if rng.random() < 0.8:
                poll(i)
            if rng.random() < 0.5:
                steps.append("t")
    elif style == "flood":
        first = rng.randrange(n)
        for _ in range(4):
            poll(first)
        for _ in range(rng.randint(6, 14)):
            steps.append(rng.choice(["U", "U", "V", "G", "H%d" % first, "J%d" % first]))
            if rng.random() < 0.3:
                steps.append("t")
        steps.append("t")
        for i in range(n):
            if rng.random() < 0.7:
                poll(i)
                if rng.random() < 0.5:
                    steps.append(_answer(rng, i))
            if rng.random() < 0.4:
                steps.append("t")
    elif style == "early":
        for i in range(n):
            for _ in range(4):
                if not written(i) and kinds[i][1:] != "x":
                    poll(i)
            steps.append(_answer(rng, i))
            if rng.random() < 0.3:
                steps.append(_answer(rng, i))          # answered twice
            steps.append("t")
            if rng.random() < 0.3:
                steps.append("t")
    length = rng.randint(0, 6 * n + 6) if style != "random" else rng.randint(2 * n, 10 * n + 10)
    for k in range(length):
        if fail_at is not None and k == fail_at:
            steps.append(rng.choice(["E", "E", "X"]))
        r = rng.random()
        i = rng.randrange(n)
        if r < 0.35:
            poll(i)
        elif r < 0.55:
            steps.append("t")
        elif r < 0.8:
            cand = [j for j in range(n) if written(j) and (j not in answered or rng.random() < 0.1)]
            if cand and rng.random() < 0.9:
                j = rng.choice(cand)
                answered.add(j)
                steps.append(_answer(rng, j))
            else:
                steps.append(_answer(rng, i))              # maybe not on the wire yet: the harness skips it
        elif r < 0.9:
            steps.append(rng.choice(["U", "V", "G"]))
        elif r < 0.95:
            steps.append(rng.choice(["H%d", "J%d"]) % i)
        else:
            poll(i)
            steps.append(_answer(rng, i))
    if tmo != "-" and rng.random() < 0.3:
        steps.append("Z")
    # the application subscribes to the very rules of the connection's own method-return channel (known class
    # return_rule_hijack); only in small cases, where the reader is not kept waiting with msg_senders locked
    # (at most 7 returns/errors in the whole case: the method-return queue (8) never fills, so the reader never waits with
    # msg_senders locked and the application's add_match never has to stand in line for it — who gets an async_lock mutex
    # first after a wait of more than 0.5 ms is time dependent and not modelled)
    replies = sum(1 for t in steps if t[0] in "RQUV")
    if rng.random() < 0.07 and n <= 6 and replies <= 7 and style in ("random", "early"):
        which = rng.choice(["Y", "Y", "W", "YW"])
        for h in which:
            steps.insert(rng.randint(0, len(steps)), h)
        if rng.random() < 0.3:
            steps.insert(rng.randint(steps.index(which[0]) + 1, len(steps)), "D")
        if rng.random() < 0.3:
            steps.insert(rng.randint(steps.index(which[0]) + 1, len(steps)), "y")
    return "K %s %s %s" % (tmo, ",".join(kinds), ",".join(steps) if steps else "-")


def gen(rng, tier):
    for _ in range(1200 if tier == "quick" else 30000):
        yield gen_case(rng, tier)


def _toks(impl_out):
    return [t for t in impl_out.split(",") if "=" in t and not t.startswith("cap=")]


def nontrivial(case, impl_out):
    toks = _toks(impl_out)
    done = sum(1 for t in toks if t.startswith("c") and ("O" in t.split("=")[1] or "M" in t.split("=")[1]))
    busy = any(t.startswith("t=1:") and "r" in t.split("@")[0] and not t.split("@")[1].startswith("0.") for t in toks)
    return done >= 2 and busy


def classify(case, impl_out):
    w = case.split(" ")
    n = len(w[2].split(","))
    toks = _toks(impl_out)
    maxq = 0
    for t in toks:
        try:
            maxq = max(maxq, int(t.split("@")[1].split(".")[0]))
        except (IndexError, ValueError):
            pass
    fail = "fail" if any(t.startswith(("E=", "X=")) for t in toks) else "nofail"
    blocked = "full" if maxq >= 8 else "q%d" % (maxq // 3 * 3)
    return "calls%s:%s:%s:%s" % ("1-3" if n <= 3 else "4-8" if n <= 8 else "9-12", "tmo" if w[1] != "-" else "notmo", fail, blocked)


def search(rng, bad_cases):
    for _ in range(3000):
        yield gen_case(rng, "thorough")


ENABLED = True
LEVEL = "proof"
LEVEL_TEXT = ("Theorems in coq/theories/Properties/C19.v over a small-step model of call_method_raw / PendingMethodCall / the socket "
              "reader's fan-out / the method-return broadcast channel (C19/Model.v, C19/Broadcast.v), any number of callers, every "
              "scheduler, every peer that respects causality: a completed call holds a return/error whose reply_serial is its own serial "
              "and that answers no other call (C19_match); it completes at most once (C19_once); because the receiver is activated "
              "before the send, no answer is ever behind the cursor of a caller whose call is on the wire — waiting, or still inside send() "
              "(bytes out, send_message not yet returned) —, and a caller that keeps taking items reaches the "
              "first answer (C19_sees_nothing_missed, C19_sees); NoReplyExpected calls complete at the send (C19_noreply); once the "
              "reader has failed every waiting caller completes within as many polls as it has unread items plus one (C19_fail); with a "
              "method timeout the timer completes ANY waiting call with TimedOut — full strength since fix 3eb91a8f made "
              "Proxy::call_with_flags honour it (C19_timeout) — and never without one. PARTIAL: the reader puts every reply into the "
              "method-return channel (C19_delivery_partial) unless the application has subscribed to exactly the rule "
              "type='method_return' or type='error': Connection::add_match then replaces the connection's own msg_senders entry and "
              "replies never reach the callers again (C19_return_rule_hijack_refuted, C19_hijacked_returns_lost_for_ever; confirmed on "
              "the real code, suggested fix in seeded/selftest/C19/suggested_fix_internal_keys.diff). Protocol-level proof: the runtime "
              "substrate (async-broadcast, executor, timers) is modelled by contract; the model is tied to the code by replaying every "
              "recorded step of real concurrent calls through Model.step.")
LEVEL_NOTE = ("Trusted: Coq kernel; the hand-written model (tied to the code by step-by-step replay of 1200 quick / 30k thorough "
              "recorded interleavings incl. channel queue length and receiver count after every step); the async-broadcast contract; "
              "causal peer; harness/hcalls. Real time is not modelled: 'the timeout passes' is an event.")
