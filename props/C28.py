"""C28 — the Properties interface behaves as the property definitions say (proc-macro property: programs x histories)."""
import os
import sys

sys.path.insert(0, os.path.dirname(os.path.abspath(__file__)))
import ifacegen  # noqa: E402

ID = "C28"
CRATE = "hiface"
RUN_MODULE = "C28.Run"
RULE = ("interface DESCRIPTIONS with 1..4 (corpus: up to 9) properties over 10 types x access read / write / readwrite x "
        "EmitsChangedSignal true / invalidates / const / false x fallible getter / setter x &self / &mut self setter x sync / async: "
        "8 corpus descriptions + 12 (thorough: 48) from the seed, Rust source GENERATED, compiled against /repo; per description 5 "
        "(thorough 14) HISTORIES of 18..40 raw calls to org.freedesktop.DBus.Properties on a fresh p2p pair: Set with a value of the "
        "declared type (40 %), of another type, wrapped in one more variant; Get; GetAll; unknown / lower-cased / method names; unknown, "
        "other, standard and invalid interface names; intermediate / unknown / other-object paths; arbitrary argument lists; "
        "NO_REPLY_EXPECTED on 10 %. The state is carried through the history on both sides. Observed per call: reply (wire "
        "signature + values or error name), getter / setter invocation log with the decoded values, every PropertiesChanged signal "
        "(changed dictionary, invalidated list). evaluations = calls; non-trivial = a history with at least one successful Set, one "
        "rejected call and one read")
TRUSTED = ["the description -> Rust source emitter (props/ifacegen.py) and the standard getter / setter bodies (rt.rs = C26/Std.v)",
           "harness/hiface (signals drained up to the reply of a following Ping, so that a missing or extra signal is seen)",
           "the macros are MODELLED; the tie is the differential run on generated programs"]
ASSUMPTIONS = ["calls are sequential (one history = one client); the root-lock discipline of Properties::set is C30's subject",
               "property values are abstract D-Bus values of the menu (codec: C01/C02)",
               "state_ok: registered interfaces have valid non-standard names, distinct property names, one instance per name and node, "
               "and a typed value for every property (what the macro, the compiler and ObjectServer::at guarantee)",
               "a getter has no side effect other than being logged (the model calls it as often as the code does and compares the log)"]


def custom_run(pid, tier, seed, replay=None):
    import types
    return ifacegen.run_property(types.SimpleNamespace(**globals()), pid, tier, seed, replay)


ENABLED = True
LEVEL = "proof"
LEVEL_TEXT = ("Theorems in coq/theories/Properties/C28.v over ALL interface descriptions, node trees, property values, getter / setter "
              "behaviours and call HISTORIES (the state invariant is proved inductive over dispatch): outside three decidable classes the "
              "model of the generated get / get_all / set / set_mut / <prop>_changed code and of fdo::Properties meets the specification "
              "written from the property text over the abstract state: Get = current value or the getter's error; GetAll = exactly the "
              "readable properties; Set rejects unknown, read-only and wrongly typed requests without running the setter or changing "
              "anything, otherwise runs the setter once, stores on success and emits exactly the PropertiesChanged the annotation asks "
              "for. Inside each class a witness refutes the full statement. The macros are modelled; the tie is the differential run of "
              "generated programs over random histories.")
LEVEL_NOTE = ("partial: refuted in three known classes (GetAll omits a property whose fallible getter fails; a Set that took effect is "
              "answered with an error and no signal when the getter called for the change notification fails; properties of Rust type "
              "OwnedValue are not typed as declared). Trusted: Coq kernel, the hand-written model, the emitter, harness hiface. "
              "Sequential histories only.")
