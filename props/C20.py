"""C20 — message streams deliver every matching message once, in order; equal rules share one subscription."""
import resource

try:
    resource.setrlimit(resource.RLIMIT_STACK, (resource.RLIM_INFINITY, resource.getrlimit(resource.RLIMIT_STACK)[1]))
except (ValueError, OSError):
    pass

ID = "C20"
CRATE = "hcalls"
RUN_MODULE = "C20.Run"
TWO_PHASE = True
RULE = ("case = S <rules> <steps>: histories of 20-200 single steps on ONE real p2p Connection over a scripted socket with four match "
        "rules (two of them equal, one a strict refinement of another; `type='signal'[,interface=..][,member=..]`): create a stream "
        "(MessageStream::for_match_rule with max_queued 1-4 or the default; the call is a future that is polled step by step), "
        "unfiltered streams (MessageStream::from), poll a stream once, drop, async_drop (polled step by step), clone, set_max_queued, "
        "tick the connection's executor once (socket reader or a queued remove_match task), the peer sends a signal matching 0-3 of "
        "the rules / a method return / a method call, EOF or a read error at a random point. Small queues keep the reader's "
        "back-pressure branch (broadcast_direct waiting, msg_senders locked) active most of the time. After the listed steps the "
        "harness drains (tick until idle, poll pending creations / async drops, poll every live stream until Pending, until nothing "
        "moves). The harness prints what every step did and, after every step, the visible internal state read through `impl Debug "
        "for Connection`: msg_senders in iteration order with queue length / capacity / receivers / closed of each channel, the "
        "subscription table with its reference counts, the unfiltered channel. non-trivial = some stream yielded at least two "
        "messages and the reader was seen blocked (msg_senders locked after a tick) at least once")
TRUSTED = ["harness/hcalls: scripted Socket, single-step scheduler, item numbers in the message bodies",
           "the internal state is read from the text of `format!(\"{:?}\", connection)` (derive(Debug) of zbus, async-lock, "
           "async-broadcast, std HashMap iteration order = the order the reader serves the channels)"]
ASSUMPTIONS = ["async-broadcast contract (C19/Broadcast.v)",
               "std::sync::Arc: into_inner returns the value to exactly the last holder",
               "async_lock::Mutex: mutual exclusion; which waiter is served first is not modelled (any)",
               "std::collections::HashMap: iteration visits every entry once, in an order that only changes when the map changes",
               "MatchRule::matches is a parameter of the model (property C21); the replay uses the specification's matcher for "
               "type/interface/member rules and compares it with the real one on every message",
               "executor: any runnable task may be picked; max_queued = Some(0) is not used (async_broadcast::broadcast(0) panics)"]
PARTIAL = []
SHARDS = 4

RULESETS = ["A*,A1,A1,B*", "**,A*,A*,A1", "A*,A*,A2,B1", "B*,A1,B*,B2", "**,**,B*,B1", "A1,A*,A1,**"]
MSGS = ["MA1", "MA2", "MB1", "MB2", "MA1", "MB1", "MR", "MC"]


def gen_case(rng, tier, allow=None):
    rules = rng.choice(RULESETS)
    if allow is None:
        r = rng.random()
        allow = "c" if r < 0.22 else "x" if r < 0.40 else "cx" if r < 0.50 else ""
    # thorough uses the same history lengths as quick: the replay (a bounded set of candidate model states per step, the
    # iteration order of msg_senders inferred while it is locked) is validated for these; histories of 300+ steps with dozens of
    # streams left it without candidate in about 1 of 6000 cases (replay limitation, not a property violation)
    # (n = 160, i.e. histories of 200+ recorded steps, still failed in about 1 of 2000 cases)
    n = rng.choice([20, 40, 60, 80, 100, 120])
    smallq = rng.random() < 0.8
    steps = []
    live, adding, dropping = [], [], []
    nxt = 0
    fail_at = rng.randrange(n) if rng.random() < 0.1 else None
    poll_bias = rng.choice([0.15, 0.3, 0.45])
    for k in range(n):
        if fail_at == k:
            steps.append(rng.choice(["E", "X"]))
        r = rng.random()
        if r < 0.13 or (not live and not adding and r < 0.5):
            q = rng.choice(["1", "1", "2", "3", "4"]) if smallq else rng.choice(["-", "2", "8"])
            steps.append("A%d:%d:%s" % (nxt, rng.randrange(4), q))
            adding.append(nxt)          # it may complete at once; the harness says so, polling it again is then a no-op
            live.append(nxt)
            nxt += 1
        elif r < 0.15:
            steps.append("U%d" % nxt)
            live.append(nxt)
            nxt += 1
        elif r < 0.15 + poll_bias and live:
            s = rng.choice(live)
            for _ in range(rng.choice([1, 1, 2, 3])):
                steps.append("p%d" % s)
        elif r < 0.68:
            steps.append("t")
        elif r < 0.86:
            steps.append(rng.choice(MSGS))
        elif r < 0.92 and live:
            s = rng.choice(live)
            live.remove(s)
            if "x" in allow and rng.random() < 0.5:
                steps.append("x%d" % s)
                dropping.append(s)
            else:
                steps.append("d%d" % s)
        elif r < 0.95 and live and "c" in allow:
            steps.append("c%d:%d" % (rng.choice(live), nxt))
            live.append(nxt)
            nxt += 1
        elif r < 0.97 and live:
            steps.append("q%d:%d" % (rng.choice(live), rng.choice([1, 2, 3, 5, 8])))
        elif adding and rng.random() < 0.7:
            steps.append("a%d" % rng.choice(adding))
        elif dropping:
            steps.append("y%d" % rng.choice(dropping))
        else:
            steps.append("t")
    return "S %s %s" % (rules, ",".join(steps))


def gen(rng, tier):
    for _ in range(300 if tier == "quick" else 30000):
        yield gen_case(rng, tier)


def _toks(impl_out):
    return [t for t in impl_out.split(",") if "=" in t]


def nontrivial(case, impl_out):
    toks = _toks(impl_out)
    got = {}
    for t in toks:
        if t.startswith("p") and "=m" in t:
            s = t.split("=")[0]
            got[s] = got.get(s, 0) + 1
    blocked = any(t.startswith("t=1") and "@L;" in t for t in toks)
    return blocked and any(v >= 2 for v in got.values())


def classify(case, impl_out):
    toks = _toks(impl_out)
    steps = case.split(" ")[2].split(",")
    n = len(steps)
    blocked = sum(1 for t in toks if t.startswith("t=") and "@L;" in t)
    kinds = "".join(sorted(set(s[0] for s in steps if s[0] in "cxUEX")))
    return "len%s:%s:blocked%s" % ("<50" if n < 50 else "<120" if n < 120 else "120+", kinds or "-",
                                   "0" if blocked == 0 else "1-5" if blocked <= 5 else "6+")


def search(rng, bad_cases):
    for _ in range(2000):
        yield gen_case(rng, "quick", allow="")


ENABLED = True
LEVEL = "proof"
LEVEL_TEXT = ("Theorems in coq/theories/Properties/C20.v over a small-step model of add_match / remove_match / queue_remove_match / "
              "MessageStream (poll, drop, async_drop, clone with the shared rule) / the socket reader's fan-out with back-pressure "
              "(C20/Model.v, with the broadcast channel of C19/Broadcast.v and MatchRule::matches as a parameter), for every history, "
              "scheduler and peer, at full strength (no exception class left): every stream is registered under its key until the "
              "reader fails and has at every moment yielded + queued exactly the matching messages decided for its channel since it "
              "subscribed, once, in order (C20_delivery, C20_registered); the reference count of a rule is the number of its holders "
              "— one shared rule per for_match_rule stream and its clones, pending remove_match calls, the add_match creating it — and "
              "all streams of a rule read one channel (C20_share); the reader is only ever blocked behind a stream the application can "
              "poll (C20_progress). The three defects found on the way are repaired in the code (add_match race 3703ee13, async_drop "
              "deadlock 90a1ccff, uncounted clones 3c4a83a4) and the model follows the repaired code.")
LEVEL_NOTE = ("Trusted: Coq kernel; the hand-written model (tied to the code by replaying every recorded step of real histories incl. "
              "the complete visible state after every step); the async-broadcast / async-lock / HashMap / Arc contracts; harness/hcalls. "
              "Runtime substrate (executor, wakers) assumed: protocol-level proof. The model keeps the labels of the pre-fix async_drop "
              "(LDropSubs/LDropSender); they are proved unreachable (C20_no_async_drop_in_progress). Correspondence: both tiers generate "
              "histories of at most 120 generator rounds (~170 recorded steps + drain): the replay keeps a bounded set of candidate model "
              "states and infers the HashMap order of msg_senders while it is locked; for histories of 200-400+ steps with dozens of "
              "streams it was left without candidate in ~1 of 2000-6000 cases (replay limitation; the decision rule is unchanged).")
