"""C12 — parsing hostile message bytes never crashes."""
import C11 as lib
from C11 import msg, pline, sline

ID = "C12"
CRATE = "hmsg"
RUN_MODULE = "C12.Run"
RULE = ("a few dozen well-formed messages (every field kind, both endians, 4 types, bodies incl. an Error with a string body) "
        "built by an independent python encoder; for each: every truncation, every single-byte mutation (each position x "
        "{0x00, 0xff, +1, ^0x20}), body-length / fields-length / endian-byte / context-endian mutations, the signature field "
        "replaced by other signatures, name fields replaced by invalid names, plus semi-valid random tails. Observation: "
        "ERR / PANIC / OK:<header>:<body>:<display>:<debug>:<deserialize>, each accessor under catch_unwind (P = panicked). "
        "plus header fields (known and unknown codes) carrying values of random nested types with their single-byte mutations, and nesting "
        "at the container depth limits. non-trivial = the fixed header was accepted (not rejected within the first 16 bytes).")
TRUSTED = ["body().deserialize::<Structure>() is assumed to return (C04); header-field values of every type ARE modelled (de_value)",
           "signature grammar modelled by a deterministic parser (C06 owns the combinator code)"]
ASSUMPTIONS = ["Message::from_bytes is given a Data whose context endian is chosen by the caller (the harness passes l, B or the one named by byte 0, as the socket reader does)",
               "messages are shorter than 4 GiB"]

STD = [(1, b"o", b"/a/b"), (2, b"s", b"org.a.B"), (3, b"s", b"Ping"), (6, b"s", b":1.5"), (7, b"s", b":1.77")]


def bases():
    out = []
    for e in "lB":
        out.append(msg(e, 1, 0, serial=1, fields=STD[:1] + STD[2:3]))
        out.append(msg(e, 1, 3, serial=0x01020304, fields=STD, body=lib.u32(e, 5) + b"hello\0", ) if False else
                   msg(e, 1, 3, serial=0x01020304, fields=STD + [(8, b"g", b"s")], body=lib.u32(e, 5) + b"hello\0"))
        out.append(msg(e, 2, 0, serial=9, fields=[(5, b"u", 77), (6, b"s", b":1.5"), (8, b"g", b"su")],
                       body=lib.pad(lib.u32(e, 2) + b"hi\0", 4) + lib.u32(e, 42)))
        out.append(msg(e, 3, 2, serial=10, fields=[(4, b"s", b"org.a.Err"), (5, b"u", 3), (8, b"g", b"s")], body=lib.u32(e, 4) + b"boom\0"))
        out.append(msg(e, 3, 0, serial=11, fields=[(4, b"s", b"org.a.Err"), (5, b"u", 3)]))
        out.append(msg(e, 4, 4, serial=12, fields=STD[:3] + [(8, b"g", b"as"), (9, b"u", 1)],
                       body=lib.u32(e, 13) + lib.u32(e, 1) + b"a\0\0\0" + lib.u32(e, 0) + b"\0"))
        out.append(msg(e, 4, 0, serial=13, fields=[(1, b"o", b"/"), (2, b"s", b"a.b"), (3, b"s", b"S")]))
        out.append(msg(e, 1, 0, serial=14, fields=[(3, b"s", b"M"), (1, b"o", b"/x"), (1, b"o", b"/y/z")]))       # duplicate field, odd order
        out.append(msg(e, 1, 0, serial=15, fields=[]))                                                              # no fields at all
        out.append(msg(e, 1, 0, serial=16, fields=[(1, b"o", b"/a"), (3, b"s", b"Ping"), (8, b"g", b"a{sv}")], body=lib.u32(e, 0) + b"\0" * 4))
    return out


MUTVALS = [lambda c: 0x00, lambda c: 0xFF, lambda c: (c + 1) & 0xFF, lambda c: c ^ 0x20]


def gen(rng, tier):
    bs = bases()
    yield pline(b"")
    yield pline(b"l")
    for bi, m in enumerate(bs):
        full = True
        yield pline(m)
        yield pline(m, "l")
        yield pline(m, "B")
        for n in range(len(m) + 1):
            yield pline(m[:n])
        for pos in range(len(m)):
            for f in (MUTVALS if full else MUTVALS[:2]):
                v = f(m[pos])
                if v != m[pos]:
                    yield pline(m[:pos] + bytes([v]) + m[pos + 1:])
        if tier != "quick" and bi < 6:
            for pos in range(len(m)):
                for v in range(256):
                    if v != m[pos]:
                        yield pline(m[:pos] + bytes([v]) + m[pos + 1:])
        # extension / wrong declared lengths
        for extra in (1, 3, 8, 9):
            yield pline(m + b"\0" * extra)
            yield pline(m + b"\xff" * extra)
    e = "l"
    # length fields
    for bl in (0, 1, 7, 8, 100, 0x7FFFFFFF, 0xFFFFFFFF):
        yield pline(msg(e, 1, 0, fields=STD, body=b"abcdefgh", body_len=bl))
    for fl in (0, 1, 7, 8, 15, 16, 17, 23, 24, 40, 0x60, 0x61, 0x68, 0x70, 100, 1000, 0x7FFFFFFF, 0xFFFFFFF8, 0xFFFFFFFF):
        yield pline(msg(e, 1, 0, fields=STD, fields_len=fl))
        yield pline(msg("B", 1, 0, fields=STD[:2], fields_len=fl))
    # endian byte vs context
    for eb in (ord("l"), ord("B"), ord("L"), ord("b"), 0, 0xFF):
        for ctx in "lBa":
            yield pline(msg("l", 1, 0, fields=STD, endbyte=eb), ctx)
            yield pline(msg("B", 1, 0, fields=STD, endbyte=eb), ctx)
    # the signature field replaced
    for sg in [b"", b"s", b"su", b"(su)", b"a", b"a{s}", b"a{sv}", b"(", b")", b"()", b"(s", b"aaaas", b"z", b"\xc3\xa9", b"s\xff", b"m", b"h", b"a" * 40 + b"y",
               b"(" * 40 + b"y" + b")" * 40, b"y" * 255]:
        yield pline(msg(e, 1, 0, fields=STD[:3] + [(8, b"g", sg)], body=b"\0" * 8))
        yield pline(msg(e, 3, 0, fields=[(4, b"s", b"a.E"), (8, b"g", sg)], body=lib.u32(e, 3) + b"abc\0"))
    # variant signatures of header fields (known codes with other value types, several types, none)
    for code in (1, 2, 3, 5, 6, 8, 9):
        for vs, val in [(b"u", lib.u32(e, 7)), (b"s", lib.u32(e, 2) + b"ab\0"), (b"o", lib.u32(e, 2) + b"/a\0"), (b"g", b"\x01s\0"),
                        (b"y", b"\x07"), (b"b", lib.u32(e, 1)), (b"t", b"\0" * 4 + b"\x01" * 8), (b"as", lib.u32(e, 0)), (b"v", b"\x01u\0" + lib.u32(e, 7)),
                        (b"(su)", b"\0" * 3 + lib.u32(e, 0) + b"\0" + b"\0" * 3 + lib.u32(e, 1)), (b"su", lib.u32(e, 0)), (b"", b""), (b"h", lib.u32(e, 0)),
                        (b"ay", lib.u32(e, 2) + b"ab"), (b"d", b"\0" * 4 + b"\0" * 8)]:
            raw = bytes([code, len(vs)]) + vs + b"\0"
            raw = lib.pad(raw, 4) if vs in (b"u", b"s", b"o", b"b", b"as", b"h", b"ay") else raw
            arr = raw + val
            h = bytes([ord(e), 1, 0, 1]) + lib.u32(e, 0) + lib.u32(e, 1) + lib.u32(e, len(arr)) + arr
            yield pline(lib.pad(h, 8))
    # header fields (known and unknown codes) with values of random types, and single-byte mutations of those messages
    for i in range(400 if tier == "quick" else 20000):
        ee = rng.choice("lB")
        t = lib.rand_type(rng)
        v = lib.rand_value(rng, t)
        code = rng.choice([0, 1, 2, 5, 8, 9, 10, 77, 255])
        m = lib.msg_any(ee, 1, 0, 7, [(1, ("o",), b"/a"), (code, t, v), (3, ("s",), b"M")])
        yield pline(m)
        if i % 4 == 0:
            for pos in range(16, len(m)):
                for f in MUTVALS[:3]:
                    nv = f(m[pos])
                    if nv != m[pos]:
                        yield pline(m[:pos] + bytes([nv]) + m[pos + 1:])
    # deep nesting around the container depth limits (32 arrays, 32 structures, 64 in total), in an unknown field
    for n in (28, 29, 30, 31, 32, 33, 34):
        t = ("y",)
        for _ in range(n):
            t = ("a", t)
        v = 7
        for _ in range(n):
            v = [v]
        yield pline(lib.msg_any("l", 1, 0, 7, [(1, ("o",), b"/a"), (3, ("s",), b"M"), (99, t, v)]))
        t = ("y",)
        for _ in range(n):
            t = ("r", [t])
        v = 7
        for _ in range(n):
            v = [v]
        yield pline(lib.msg_any("l", 1, 0, 7, [(1, ("o",), b"/a"), (3, ("s",), b"M"), (99, t, v)]))
    for n in (55, 58, 59, 60, 61, 62, 63, 64, 70):
        t, v = ("y",), 7
        for _ in range(n):
            v = (t, v)
            t = ("v",)
        yield pline(lib.msg_any("l", 1, 0, 7, [(1, ("o",), b"/a"), (3, ("s",), b"M"), (99, t, v)]))
    # names that are not valid names (now refused at parse time)
    for code, good in ((1, b"/a"), (2, b"a.b"), (3, b"M"), (4, b"a.E"), (6, b"a.b"), (7, b":1.1")):
        for bad in (b"", b".", b"!!", b"a..b", b"9a.b", b"/a/", b"a b", b"\xc3\xa9.x", b":1", b"a.b-", b"x" * 256, b"a." + b"b" * 254, good):
            sigc = b"o" if code == 1 else b"s"
            for ty in (1, 3):
                yield pline(msg(e, ty, 0, fields=[(1, b"o", b"/ok"), (3, b"s", b"Ok"), (code, sigc, bad)]))
    # semi-valid random tails
    count = 1500 if tier == "quick" else 100000
    for _ in range(count):
        ee = rng.choice("lB")
        n = rng.choice([0, 1, 4, 8, 15, 16, 17, 24, 40])
        tail = bytes(rng.choice([0, 0, 1, 1, 2, 3, 4, 8, 0x6f, 0x73, 0x67, 0x75, 0x2f, 0x61, rng.randrange(256)]) for _ in range(n))
        arr_len = rng.choice([len(tail), len(tail), max(0, len(tail) - rng.randint(0, 8)), rng.randrange(64)])
        h = bytes([ord(ee), rng.choice([1, 1, 2, 3, 4, 5, 0]), rng.choice([0, 0, 1, 3, 7, 8]), rng.choice([1, 1, 1, 2])]) + lib.u32(ee, rng.randrange(16)) \
            + lib.u32(ee, rng.choice([1, 1, 1, 0, 7])) + lib.u32(ee, arr_len) + tail
        yield pline(h if rng.random() < 0.5 else lib.pad(h, 8))
    for _ in range(300 if tier == "quick" else 20000):
        yield pline(bytes(rng.randrange(256) for _ in range(rng.randint(1, 40))))


def has_panic(impl):
    if impl in ("PANIC", "HANG", "ABORT"):
        return True
    if impl.startswith("OK:"):
        return "P" in impl.split(":")[1:]
    return False


def meets_spec(impl, spec):
    return not has_panic(impl) if spec == "NOPANIC" else impl == spec


def nontrivial(case, impl_out):
    w = case.split(" ")
    if w[0] != "p" or len(w) < 3 or w[2] == "-":
        return True
    return impl_out != "ERR" or len(w[2]) >= 32


def classify(case, impl_out):
    if impl_out.startswith("OK:"):
        return "OK-with-panicking-accessor" if has_panic(impl_out) else "OK"
    return impl_out


def search(rng, bad_cases):
    for c in bad_cases[:20]:
        w = c.split(" ")
        if w[0] != "p" or len(w) < 3 or w[2] == "-":
            continue
        m = bytes.fromhex(w[2])
        for pos in range(len(m)):
            for v in (0, 0xFF, (m[pos] + 1) & 0xFF):
                yield pline(m[:pos] + bytes([v]) + m[pos + 1:], w[1])
        for n in range(len(m)):
            yield pline(m[:n], w[1])


ENABLED = True
LEVEL = "proof"
LEVEL_TEXT = ("C12_nopanic (coq/theories/Properties/C12.v): for EVERY byte string and context endianness, Message::from_raw_parts of the "
              "model does not panic, and for every accepted message none of header() (all fields), body(), Display, Debug and body "
              "deserialization panics - proved at full strength on the tree repaired by fix: e5b4d5a2 (length checks) and b3fdf920 "
              "(header name fields validated at parse time); no known-deviation class remains (the three former witnesses are now "
              "rejected: Example C12_former_witnesses). The model includes zvariant's dynamically typed value decoder for header-field "
              "values of any type (nesting limits 32/32/64); C12_no_fuel_artifact shows that none of the model's loop bounds is ever "
              "reached. Tied to the code by exhaustive truncation / single-byte mutation runs and random typed header-field values.")
LEVEL_NOTE = ("Trusted: Coq kernel; the hand-written model (absolute-position reading of zvariant's D-Bus deserializer); harness hmsg. "
              "Assumed: body().deserialize::<Structure>() on the body bytes returns (zvariant's general decoder on the BODY is C04's "
              "subject; the model only covers the slicing); an ignored header field containing a file-descriptor index is decoded "
              "against an empty descriptor list (Message::from_bytes of a Data without fds); messages shorter than 4 GiB.")
