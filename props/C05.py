"""C05 — GVariant encoding follows the GVariant serialisation format; plus the GVariant halves of C02 (round trip),
C04 (hostile bytes never crash) and C07 (nesting limits), which props/C02.py, C04.py, C07.py leave to this check."""
import itertools
import re

import codec_gen as G
import c05_gen as V

ID = "C05"
CRATE = "hgv"
RUN_MODULE = "C05.Run"
CONFIGS = [
    {"name": "debug", "profile": "debug", "target_subdir": "target-gv"},
    {"name": "release", "profile": "release", "target_subdir": "target-gv"},
]
RULE = ("ser: random well-typed GVariant values (signatures to depth 3-4 over all basic types, maybe, arrays, dicts, tuples, variants; "
        "boundary scalars, empty and multi-byte strings) serialized inside a variant (dyn), with their own signature (plain) and through "
        "45 typed Rust values (Option<T>, bool, Vec<String>, Vec<u8>, tuples with variable-size members, BTreeMap, nested), both byte "
        "orders, start offsets 0..16 and 2^32+k; container sizes steered across 255/256 and 65535/65536 bytes (offset width 1/2/4) for "
        "arrays, tuples, dict entries, maybes and variants; all towers of containers of height <= 3. Observation: bytes, size pass. "
        "rt: the same values encoded then decoded (C02). de: hostile bytes (C04): valid encodings with framing offsets set to 0 / past "
        "the end / decreasing / huge, truncations, insertions, random bytes, long tuple signatures, deep signatures embedded in variants "
        "(in a forked child); debug and release builds. C07: towers over {a ( v { m} around 32/32/64, encoded, round-tripped and their "
        "valid encodings decoded. non-trivial = the value has a container / the input has >= 8 bytes")
TRUSTED = ["hand-written models C05/Model.v (gvariant::Serializer, FramingOffsets, FramingOffsetSize, alignment_gvariant, is_fixed_sized) "
           "and C05/DeModel.v (gvariant::Deserializer, ValueSeed visitors); serde Serialize/Deserialize impls of std types and of "
           "Value/Array/Dict/Structure/Maybe modelled by sval_of / the typed menu",
           "basic types go through the D-Bus models DBus/Ser.v (as in the Rust) / are re-modelled in DeModel.v (padding + next_slice)",
           "the throw-away Python GVariant marshaller in props/c05_gen.py is only a source of inputs, except for the deD/deK cases of C07 "
           "where it states that the bytes encode a value beyond / within the nesting limits"]
ASSUMPTIONS = ["64-bit usize (offset widths 1, 2, 4, 8); containers below 2^32 bytes in the generated cases",
               "the native stack bound of the signature parser is platform dependent: only depths <= 2000 (fine) and 60000 (overflow) are run",
               "deserialize_bytes / serde_bytes, enum variants with payload (StructSerializer::enum_variant) and the empty tuple are outside the model",
               "dup(2) returns a descriptor different from every open one (fds: only counts and indices are compared)"]

BOUNDARY = [250, 251, 252, 253, 254, 255, 256, 257, 258, 65530, 65531, 65532, 65533, 65534, 65535, 65536, 65537, 65538]


def sized_cases(rng, tier):
    """containers whose byte size crosses the offset-width thresholds"""
    out = []
    ns = BOUNDARY if tier == "thorough" else [n for n in BOUNDARY if n < 300] + rng.sample([n for n in BOUNDARY if n > 300], 3)
    for n in ns:
        small = n < 300
        for d in (range(-3, 4) if small else (0,)):
            m = n + d
            if m < 8:
                continue
            # array of strings: data = one string of m-k bytes (+nul) then k one-byte strings
            for k in (0, 1, 2):
                if m - 2 * k - 1 < 0:
                    continue
                out.append(("plain", ('a', 's', [('S', m - 2 * k - 1)] + [('s', b"b")] * k)))
            out.append(("dyn", ('a', 's', [('S', m - 3), ('s', b"b")])))
            # tuple with two variable-size members and a fixed one
            out.append(("plain", ('r', [('S', m - 4), ('s', b"b"), ('y', 1)])))
            out.append(("plain", ('r', [('S', m - 6), ('u', 7), ('s', b"")])))
            # dict entry with a variable-size key: entry size m
            out.append(("plain", ('e', 's', 's', [(('s', b"k"), ('S', m - 3))])))
            out.append(("plain", ('e', 's', 'u', [(('S', m - 8), ('u', 1))])))
            out.append(("typed:a{ss}", ('e', 's', 's', [(('s', b"k"), ('S', m - 3))])))
            # dict whose framing crosses the threshold (entries with fixed keys)
            out.append(("plain", ('e', 'y', 's', [(('y', 1), ('S', m - 5)), (('y', 2), ('s', b""))])))
            # maybe / variant around a big string
            out.append(("plain", ('a', ('m', 's'), [('m', 's', ('S', m - 4)), ('m', 's', None)])))
            out.append(("plain", ('a', 'v', [('v', ('S', m - 4))])))
            out.append(("typed:as", ('a', 's', [('S', m - 3), ('s', b"b")])))
            out.append(("typed:(ssy)", ('r', [('S', m - 4), ('s', b"b"), ('y', 1)])))
            # many small elements: n offsets of width 1 -> 2
            if small:
                out.append(("plain", ('A', 's', m // 3, ('s', b"x"))))
                out.append(("plain", ('A', ('a', 'y'), m // 2, ('a', 'y', [('y', 9)]))))
        if not small:
            out.append(("plain", ('A', 's', n // 4, ('s', b"x"))))
            out.append(("plain", ('A', 'y', n, ('y', 3))))
    return out


def gen_ser_rt(rng, tier):
    n = 2000 if tier == "quick" else 60000
    for _ in range(n):
        big = rng.random() < 0.5
        pos = G.rand_pos(rng)
        bools = rng.random() < 0.25            # most values avoid the known `bool` class so that the oracle bites
        r = rng.random()
        cmd = "ser" if rng.random() < 0.6 else "rt"
        if r < 0.45:
            s = V.rand_sig(rng, rng.choice([1, 2, 3, 3, 4]), fds=(cmd == "ser" and rng.random() < 0.1), bools=bools)
            yield V.case(cmd, big, pos, "dyn", V.rand_val(rng, s, 4, bools=bools))
        elif r < 0.75:
            s = V.rand_sig(rng, rng.choice([0, 1, 2, 3, 3]), fds=(cmd == "ser" and rng.random() < 0.1), bools=bools)
            yield V.case(cmd, big, pos, "plain", V.rand_val(rng, s, 4, bools=bools))
        else:
            name = rng.choice(sorted(V.TYPED))
            yield V.case(cmd, big, pos, "typed:" + name, V.rand_val(rng, V.TYPED[name], 3))
    for mode, v in sized_cases(rng, tier):
        big = rng.random() < 0.3
        pos = rng.choice([0, 0, 1, 8])
        yield V.case("ser", big, pos, mode, v)
        yield V.case("rt", big, pos, mode, v)
    # towers of containers, every word up to length 3 (4 in thorough) at a few offsets
    for k in range(1, 4 if tier == "quick" else 5):
        for w in itertools.product("a(v{m", repeat=k):
            for pos in (0, 1, 5):
                yield V.case("ser", False, pos, "dyn", V.tower("".join(w)))
            yield V.case("rt", False, 0, "plain", V.tower("".join(w)))
    # empty containers at odd offsets, empty children
    for s in ("ay", "au", "at", "as", "aau", "a(ut)", "a{ut}", "a{su}", "amu", "av"):
        for pos in (0, 1, 3, 7):
            yield "ser g- L %d plain a %s 0" % (pos, s[1:]) if not s.startswith("a{") else \
                "ser g- L %d plain e %s %s 0" % (pos, s[2], s[3:-1])
    for v in (('a', ('a', 's'), [('a', 's', []), ('a', 's', [])]), ('r', [('a', 's', []), ('a', 's', [])]),
              ('r', [('a', 's', []), ('m', 'u', None), ('a', 'y', [])]), ('a', ('m', 's'), [('m', 's', None)]),
              ('r', [('a', 's', [])]), ('r', [('a', 's', []), ('y', 1)]), ('r', [('m', 's', None), ('s', b"")]),
              ('a', ('r', [('a', 's'), ('a', 's')]), [('r', [('a', 's', []), ('a', 's', [])])])):
        for mode in ("plain", "dyn"):
            yield V.case("ser", False, 0, mode, v)
            yield V.case("rt", False, 0, mode, v)


def depth_words():
    out = []
    for a in (0, 1, 31, 32, 33):
        for s in (0, 1, 31, 32, 33):
            for o in ("", "v", "m", "vm", "mmv"):
                if a + s + len(o) == 0:
                    continue
                out.append("a" * a + "(" * s + o)
                out.append("(" * s + o + "a" * a)
                out.append(o + "a" * a + "(" * s)
    for k in (0, 1, 2, 3, 30, 31, 32, 33, 34, 63, 64, 65, 66):
        out.append("a" * 16 + "(" * 16 + "v" * k)
        out.append("a" * 16 + "(" * 16 + "m" * k)
        out.append("m" * k)
        out.append("vm" * (k // 2) + "a" * 20)
        out.append("a" * 32 + "(" * 32 + "m" * min(k, 3))
    for k in (15, 16, 17, 31, 32, 33):
        out.append("a(" * k)
        out.append("(m" * k)
        out.append("am(" * (k // 2))
        out.append("{(" * k)
        out.append("{" * k)
    return sorted(set(w for w in out if w))


def gen_depth(rng, tier):
    ws = depth_words()
    if tier == "thorough":
        for k in range(1, 6):
            for w in itertools.product("a(v{m", repeat=k):
                ws.append("".join(w) * rng.choice([1, 5, 8, 11, 16]))
    for w in ws:
        t = V.tower(w)
        big = rng.random() < 0.5
        pos = rng.choice([0, 1, 4, 7])
        yield V.case("ser", big, pos, "dyn", t)
        yield V.case("rt", big, pos, "dyn", t)
        yield V.case("ser", big, pos, "plain", t)
        # decode a valid encoding directly (the encoder may refuse to produce it): as the value of a variant
        b = V.marshal(('v', t), big, pos)
        yield V.case_de_v(big, pos, 0, b, cmd="deD" if V.exceeds("v" + w) else "deK")


def gen_hostile(rng, tier):
    n = 1100 if tier == "quick" else 50000
    for _ in range(n):
        big = rng.random() < 0.5
        pos = rng.choice([0, 0, 0, 1, 3, 4, 8, 9])
        s = V.rand_sig(rng, rng.choice([1, 2, 3]), fds=False, bools=rng.random() < 0.3)
        v = V.rand_val(rng, s, 3)
        r = rng.random()
        if r < 0.4:
            b = V.marshal(('v', v), big, pos)
            mk = lambda bb: V.case_de_v(big, pos, 2, bb)
        elif r < 0.85:
            b = V.marshal(v, big, pos)
            ss = V.sigstr(s)
            mk = lambda bb: V.case_de_s(big, pos, 2, ss, bb)
        else:
            name = rng.choice(sorted(V.TYPED))
            v = V.rand_val(rng, V.TYPED[name], 3)
            b = V.marshal(v, big, pos)
            mk = lambda bb: V.case_de_t(big, pos, name, bb)
        yield mk(b)
        for _ in range(4):
            bb = V.mutate_offsets(rng, b) if rng.random() < 0.6 else G.mutate(rng, b)
            if rng.random() < 0.3:
                bb = V.mutate_offsets(rng, bb)
            yield mk(bb)
        if len(b) <= 24:
            for i in range(len(b)):
                yield mk(b[:i])
    sigs = ["s", "as", "aas", "ms", "mu", "my", "ams", "amu", "(su)", "(sus)", "(ss)", "(asas)", "a{su}", "a{ss}", "a{us}", "a{sas}", "v",
            "av", "a(su)", "(y(su)aas)", "mms", "mas", "(msmu)", "a{sv}", "u", "ay", "au", "(uy)", "a(uy)", "mv", "(sv)", "m(su)",
            "am(ss)", "aav", "(ayay)", "(sy)", "a{s(ss)}", "ma{ss}", "b", "ab", "g", "o", "ao", "(say)", "amay", "a(ss)", "a{say}", "a{ays}"]
    for _ in range(n):
        k = rng.choice([0, 1, 2, 3, 4, 5, 6, 8, 10, 12, 16, 20])
        b = bytes(rng.choice([0, 0, 0, 1, 2, 3, 4, 5, 6, 0x61, 0xff, rng.randrange(256)]) for _ in range(k))
        pos = rng.choice([0, 0, 1, 3, 4, 8])
        if rng.random() < 0.25:
            yield V.case_de_v(False, pos, 2, b + b"\0" + rng.choice(sigs).encode())
        else:
            yield V.case_de_s(rng.random() < 0.3, pos, 2, rng.choice(sigs), b)
    # arrays whose elements do not consume their whole slice (maybe of a fixed-size type): one framing offset moved into
    # the offsets area / past the end / below its predecessor (from_encoded_array must reject what lies beyond the data)
    for _ in range(60 if tier == "quick" else 3000):
        es = rng.choice(['y', 'u', 'n', 't', ('r', ['y', 'y']), ('r', ['u', 'q'])])
        k = rng.randint(2, 6)
        v = ('a', ('m', es), [('m', es, V.rand_val(rng, es, 1)) for _ in range(k)])
        big = rng.random() < 0.3
        b = V.marshal(v, big, 0)
        ss = V.sigstr(V.vsig(v))
        n = len(b)
        w = 1 if n <= 255 else 2
        start = n - w * k                       # = offsets_start of a valid encoding
        yield V.case_de_s(big, 0, 0, ss, b)
        for i in range(k):
            for val in sorted({start + 1, n, n + 1, start, start - 1, 0, rng.randint(0, n + 2)}):
                if val < 0 or val >= 256 ** w:
                    continue
                bb = bytearray(b)
                bb[start + w * i:start + w * (i + 1)] = val.to_bytes(w, 'little')
                yield V.case_de_s(big, 0, 0, ss, bytes(bb))
    # long tuples: the per-member framing offset is read from a shrinking window
    for nf in (2, 5, 100, 127, 128, 129, 130, 131, 200, 253):
        for ln in (0, 1, 2, 255, 256, 257, 258, 259, 300, 301, 511, 512):
            yield V.case_de_s(False, 0, 0, "(" + "s" * nf + ")", b"\0" * ln)
            yield V.case_de_v(False, 0, 0, b"\0" * ln + b"\0(" + b"s" * nf + b")")
    for nf in (129, 130, 200):
        for ln in (257, 259, 301):
            yield V.case_de_s(False, 0, 0, "(" + "as" * (nf // 2) + "s)", b"\0" * ln)
            yield V.case_de_s(False, 3, 0, "(y" + "s" * nf + ")", b"\x07" + b"\0" * ln)
    # signatures inside variants: long and deep ones (the deep ones abort the process: run in a forked child)
    for d in (10, 100, 1000, 2000):
        yield V.case_de_v(False, 0, 0, b"\0\0" + b"a" * d + b"y")
        yield V.case_de_v(False, 0, 0, b"\0\0" + b"m" * d + b"y")
        yield V.case_de_v(False, 0, 0, b"\0\0" + b"(" * d + b"y" + b")" * d)
        yield V.case_de_v(False, 0, 0, b"\0\0" + b"y" * d)
    for d in (60000,):
        yield V.case_de_v(False, 0, 0, b"\0\0" + b"(" * d + b"y", cmd="xde")
        yield V.case_de_v(False, 0, 0, b"\0\0" + b"a" * d + b"y", cmd="xde")
        yield V.case_de_v(False, 0, 0, b"\0\0" + b"m" * d + b"y", cmd="xde")


def gen(rng, tier):
    for c in gen_ser_rt(rng, tier):
        yield c
    for c in gen_depth(rng, tier):
        yield c
    for c in gen_hostile(rng, tier):
        yield c


RT_OK = re.compile(r"^OK:(\d+):\1:T$")


def meets_spec(impl, spec):
    if spec == "NP":                          # C04: a value or an error, never a crash
        return "PANIC" not in impl and "Rpanic" not in impl and "ABORT" not in impl and "HANG" not in impl
    if spec == "RT":                          # C02: decodes to the original, consumed = encoded length
        return bool(RT_OK.match(impl))
    if spec == "OK":                          # C07 (deK): decoding succeeds
        return impl.startswith("OK:") and "Rpanic" not in impl
    if spec == "ERR:D":                       # C07: a depth error, from the encoder or (rt) from the decoder
        return impl in ("ERR:D", "DEERR:D")
    return impl == spec


def nontrivial(case, impl_out):
    w = case.split(" ")
    if w[0] in ("ser", "rt"):
        return any(t in w[5:] for t in ("a", "A", "e", "r", "v", "m"))
    return len(w[-1]) >= 16


def classify(case, impl_out):
    w = case.split(" ")
    head = impl_out.split(":")[0] + (":D" if impl_out.endswith(":D") else "")
    if w[0] in ("ser", "rt"):
        return "%s:%s:%s" % (w[0], w[4].split(":")[0], head)
    return "%s:%s:%s" % (w[0], w[5].split(":")[0], head)


def search(rng, bad):
    for c in gen(rng, "quick"):
        yield c


ENABLED = True
LEVEL = "proof"
PARTIAL = ["C05_partial", "C05_size_partial", "C05_bool_refuted", "C05_tail_padding_refuted", "C05_empty_offsets_refuted",
           "C05_full_refuted", "C04_gv_nopanic_partial", "C04_gv_panic_classes", "C02_gv_roundtrip", "C02_gv_empty_offsets_refuted"]
LEVEL_TEXT = ("Theorems over C05/Model.v (a mirror of zvariant's GVariant serializer as a function of the serde event tree, basics delegated "
              "to the D-Bus serializer model as in the Rust) against C05/Spec.v (`gv_marshal`, written from the GVariant specification, sharing "
              "nothing with the model): for every byte order, start offset and well-formed value within the nesting limits whose nodes avoid "
              "three decidable known classes, the model produces exactly the format's bytes and the size pass their length (C05_partial); the "
              "full statement is refuted with one witness per class (bool, tail_padding, empty_offsets; the former class dict_key_width is "
              "repaired by c613b0b9 and its witness now an Example of correct bytes); for all n, k "
              "for_bare_container returns the least admissible offset width (offset_width_spec). GVariant halves of other properties: the "
              "serializer fails with a depth error exactly beyond 32/32/64 (C07_gv_ser); the deserializer model (every slice/index/subtraction/"
              "unwrap an explicit Panic) panics, for all inputs and any fuel, only in the signature parser's recursion, and then the input "
              "has more than 50000 bytes (C04_gv_panic_classes, C04_gv_step); never on inputs up to 50000 bytes (C04_gv_nopanic_partial). The "
              "tuple framing-offset read (former class struct_offset_underflow) is checked since b5246470: the former witnesses, direct and "
              "through a variant, are Examples returning OutOfBounds, and C04_gv_before_fix_classes records what the old reader allowed. "
              "Round trip (C02_gv_roundtrip): for every such value (all types, dicts included) the deserializer model returns the value from "
              "the serializer model's output and consumes exactly its length. Both models are tied to /repo by differential runs of the real zvariant (debug and release) with the spec oracle on its output.")
LEVEL_NOTE = ("Partial. Proved: C05 outside Known_C05 (values without fds, < 2^60 bytes), offset widths, C07 encoder side, C04 panic classes for "
              "the decoder model, C02 round trip (value with its own signature). Covered by the differential correspondence and oracle only, not "
              "by a theorem: the round trip through the Value / typed entry points, the decoder side of C07, re-encoding of decoded values, fds, typed Rust values (same serde call tree as the dynamic value by "
              "assumption), enum variants / serde_bytes (not modelled), the exact stack bound of the signature parser, non-exhaustion of the "
              "decoder's fuel. Four known findings remain: bool, tail_padding, empty_offsets (C05; empty_offsets also breaks the C02 round "
              "trip), sig_parse_stack (C04: stack exhaustion in signature parsing on a > 50000-byte type string inside a variant). Two are "
              "fixed upstream and gone from the models: dict_key_width (c613b0b9) and struct_offset_underflow (b5246470); the reverse "
              "patches seeded/selftest/C05/unfix_*.diff make the check fail again. Trusted: Coq kernel, extraction, the hand-written models, harness hgv.")
