//! C10: every checked constructor of every validated string type, one verdict per case.
//! Case line: `<type> <entry> <hex of the UTF-8 string>` -> `T` (accepted) / `F` (rejected).
use std::borrow::Cow;
use std::sync::Arc;
use zbus_names::*;
use zvariant::{serialized::Context, to_bytes, ObjectPath, OwnedObjectPath, OwnedValue, Str, Value, LE};

fn leak(s: &str) -> &'static str {
    Box::leak(s.to_string().into_boxed_str())
}

fn enc(s: &str) -> zvariant::serialized::Data<'static, 'static> {
    to_bytes(Context::new_dbus(LE, 0), s).unwrap()
}

macro_rules! name_type {
    ($fnname:ident, $ty:ident, $owned:ident) => {
        fn $fnname(entry: &str, s: &str) -> Option<bool> {
            Some(match entry {
                "str" => $ty::try_from(s).is_ok(),
                "string" => $ty::try_from(s.to_string()).is_ok(),
                "arc" => $ty::try_from(Arc::<str>::from(s)).is_ok(),
                "cow" => $ty::try_from(Cow::Borrowed(s)).is_ok(),
                "cowo" => $ty::try_from(Cow::<str>::Owned(s.to_string())).is_ok(),
                "zstr" => $ty::try_from(Str::from(s)).is_ok(),
                "value" => $ty::try_from(Value::from(s)).is_ok(),
                "ovalue" => $ty::try_from(OwnedValue::try_from(Value::from(s)).unwrap()).is_ok(),
                "static" => $ty::from_static_str(leak(s)).is_ok(),
                "owned_str" => $owned::try_from(s).is_ok(),
                "owned_string" => $owned::try_from(s.to_string()).is_ok(),
                "de" => enc(s).deserialize::<$ty>().is_ok(),
                "de_owned" => enc(s).deserialize::<$owned>().is_ok(),
                _ => return None,
            })
        }
    };
}

name_type!(wk, WellKnownName, OwnedWellKnownName);
name_type!(uq, UniqueName, OwnedUniqueName);
name_type!(iface, InterfaceName, OwnedInterfaceName);
name_type!(er, ErrorName, OwnedErrorName);
name_type!(mb, MemberName, OwnedMemberName);
name_type!(pr, PropertyName, OwnedPropertyName);

fn bus(entry: &str, s: &str) -> Option<bool> {
    Some(match entry {
        "str" => BusName::try_from(s).is_ok(),
        "string" => BusName::try_from(s.to_string()).is_ok(),
        "arc" => BusName::try_from(Arc::<str>::from(s)).is_ok(),
        "cow" => BusName::try_from(Cow::Borrowed(s)).is_ok(),
        "zstr" => BusName::try_from(Str::from(s)).is_ok(),
        "value" => BusName::try_from(Value::from(s)).is_ok(),
        "ovalue" => BusName::try_from(OwnedValue::try_from(Value::from(s)).unwrap()).is_ok(),
        "static" => BusName::from_static_str(leak(s)).is_ok(),
        "owned_str" => OwnedBusName::try_from(s).is_ok(),
        "owned_string" => OwnedBusName::try_from(s.to_string()).is_ok(),
        "de" => enc(s).deserialize::<BusName>().is_ok(),
        "de_owned" => enc(s).deserialize::<OwnedBusName>().is_ok(),
        _ => return None,
    })
}

fn enc_path(s: &str) -> zvariant::serialized::Data<'static, 'static> {
    // same wire form as a string, decoded with the object-path signature
    to_bytes(Context::new_dbus(LE, 0), s).unwrap()
}

fn op(entry: &str, s: &str) -> Option<bool> {
    Some(match entry {
        "str" => ObjectPath::try_from(s).is_ok(),
        "string" => ObjectPath::try_from(s.to_string()).is_ok(),
        "bytes" => ObjectPath::try_from(s.as_bytes()).is_ok(),
        "static" => ObjectPath::from_static_str(leak(s)).is_ok(),
        "owned_str" => OwnedObjectPath::try_from(s).is_ok(),
        "owned_string" => OwnedObjectPath::try_from(s.to_string()).is_ok(),
        "de" => enc_path(s).deserialize_for_signature::<_, ObjectPath>("o").is_ok(),
        "de_owned" => enc_path(s).deserialize_for_signature::<_, OwnedObjectPath>("o").is_ok(),
        _ => return None,
    })
}

fn guid(entry: &str, s: &str) -> Option<bool> {
    use std::str::FromStr;
    use zbus::{Guid, OwnedGuid};
    Some(match entry {
        "str" => Guid::try_from(s).is_ok(),
        "string" => Guid::try_from(s.to_string()).is_ok(),
        "cow" => Guid::try_from(Cow::Borrowed(s)).is_ok(),
        "zstr" => Guid::try_from(Str::from(s)).is_ok(),
        "fromstr" => Guid::from_str(s).is_ok(),
        "static" => Guid::from_static_str(leak(s)).is_ok(),
        "de" => enc(s).deserialize::<Guid>().is_ok(),
        "de_owned" => enc(s).deserialize::<OwnedGuid>().is_ok(),
        _ => return None,
    })
}

fn main() {
    hcommon::run(|line| {
        let w: Vec<&str> = line.split(' ').filter(|x| !x.is_empty()).collect();
        if w.len() < 2 {
            return "BADCASE".into();
        }
        let bytes = match hcommon::unhex(w.get(2).copied().unwrap_or("")) {
            Some(b) => b,
            None => return "BADCASE".into(),
        };
        let s = match String::from_utf8(bytes) {
            Ok(s) => s,
            Err(_) => return "BADCASE".into(),
        };
        let r = match w[0] {
            "wk" => wk(w[1], &s),
            "uq" => uq(w[1], &s),
            "if" => iface(w[1], &s),
            "er" => er(w[1], &s),
            "mb" => mb(w[1], &s),
            "pr" => pr(w[1], &s),
            "bus" => bus(w[1], &s),
            "op" => op(w[1], &s),
            "guid" => guid(w[1], &s),
            _ => None,
        };
        match r {
            Some(b) => hcommon::tf(b),
            None => "BADCASE".into(),
        }
    });
}
