//! C34: introspection XML documents round-trip through zbus_xml's document model.
//!
//! Case line  `x <tokens>`  — an XML infoset in token form (one line, tokens separated by one space):
//!     `[name`      open an element            `@key=<hex>`  attribute of the element just opened
//!     `"<hex>`     a text node                `]`           close the element
//! The harness renders the infoset as XML text with its own small serializer, parses it with
//! `Node::try_from(&str)`, writes the value with `Node::to_writer`, reads the written text back (both
//! `try_from` and `from_reader`) and compares with `==`; the written text is also parsed by the small
//! independent XML reader below and printed in token form.
//! Output  `OK:<a><b><c>;<dump of the parsed value>;<infoset of the written text>;<hex of the written text>`  with
//!     a = reread(try_from) == value, b = reread(from_reader) == value, c = from_reader(input) == value
//! or `ERR` when the input document is rejected.  `raw <hex xml>` does the same on literal XML text.
//! `u <hex raw>` embeds raw attribute text verbatim (`<node name="RAW"/>`) and prints `OK:<hex of the name read>` / `ERR`.
use zbus_xml::{Annotation, Arg, ArgDirection, Interface, Method, Node, Property, PropertyAccess, Signal};

#[derive(Debug, Clone, PartialEq)]
enum Tree {
    Elem(String, Vec<(String, String)>, Vec<Tree>),
    Text(String),
}

// ---------------------------------------------------------------- token form
fn parse_tokens(toks: &[&str]) -> Option<Tree> {
    let mut stack: Vec<(String, Vec<(String, String)>, Vec<Tree>)> = Vec::new();
    let mut root: Option<Tree> = None;
    let mut attrs_open = false;
    for t in toks {
        if let Some(name) = t.strip_prefix('[') {
            if root.is_some() {
                return None;
            }
            stack.push((name.to_string(), Vec::new(), Vec::new()));
            attrs_open = true;
        } else if let Some(kv) = t.strip_prefix('@') {
            if !attrs_open {
                return None;
            }
            let (k, v) = kv.split_once('=')?;
            let v = String::from_utf8(hcommon::unhex(v)?).ok()?;
            stack.last_mut()?.1.push((k.to_string(), v));
        } else if let Some(h) = t.strip_prefix('"') {
            attrs_open = false;
            let v = String::from_utf8(hcommon::unhex(h)?).ok()?;
            stack.last_mut()?.2.push(Tree::Text(v));
        } else if *t == "]" {
            attrs_open = false;
            let (n, a, c) = stack.pop()?;
            let e = Tree::Elem(n, a, c);
            match stack.last_mut() {
                Some(p) => p.2.push(e),
                None => root = Some(e),
            }
        } else {
            return None;
        }
    }
    if stack.is_empty() {
        root
    } else {
        None
    }
}

fn tokens_of(t: &Tree, out: &mut Vec<String>) {
    match t {
        Tree::Elem(n, a, c) => {
            out.push(format!("[{}", n));
            for (k, v) in a {
                out.push(format!("@{}={}", k, hcommon::hex(v.as_bytes())));
            }
            for x in c {
                tokens_of(x, out);
            }
            out.push("]".into());
        }
        Tree::Text(s) => out.push(format!("\"{}", hcommon::hex(s.as_bytes()))),
    }
}

// ---------------------------------------------------------------- rendering the input document
fn esc(s: &str, attr: bool, out: &mut String) {
    for ch in s.chars() {
        match ch {
            '&' => out.push_str("&amp;"),
            '<' => out.push_str("&lt;"),
            '>' => out.push_str("&gt;"),
            '"' if attr => out.push_str("&quot;"),
            '\t' | '\n' | '\r' if attr => out.push_str(&format!("&#{};", ch as u32)),
            '\r' => out.push_str("&#13;"),
            c => out.push(c),
        }
    }
}

fn render(t: &Tree, out: &mut String) {
    match t {
        Tree::Elem(n, a, c) => {
            out.push('<');
            out.push_str(n);
            for (k, v) in a {
                out.push(' ');
                out.push_str(k);
                out.push_str("=\"");
                esc(v, true, out);
                out.push('"');
            }
            if c.is_empty() {
                out.push_str("/>");
            } else {
                out.push('>');
                for x in c {
                    render(x, out);
                }
                out.push_str("</");
                out.push_str(n);
                out.push('>');
            }
        }
        Tree::Text(s) => esc(s, false, out),
    }
}

// ---------------------------------------------------------------- a small independent XML reader
struct Rd<'a> {
    s: &'a [u8],
    i: usize,
}

fn unescape(raw: &str) -> Option<String> {
    let mut out = String::new();
    let mut rest = raw;
    while let Some(p) = rest.find('&') {
        out.push_str(&rest[..p]);
        let after = &rest[p + 1..];
        let semi = after.find(';')?;
        let ent = &after[..semi];
        match ent {
            "lt" => out.push('<'),
            "gt" => out.push('>'),
            "amp" => out.push('&'),
            "apos" => out.push('\''),
            "quot" => out.push('"'),
            _ => {
                let code = if let Some(h) = ent.strip_prefix("#x") {
                    u32::from_str_radix(h, 16).ok()?
                } else if let Some(d) = ent.strip_prefix('#') {
                    d.parse::<u32>().ok()?
                } else {
                    return None;
                };
                out.push(char::from_u32(code)?);
            }
        }
        rest = &after[semi + 1..];
    }
    out.push_str(rest);
    Some(out)
}

impl<'a> Rd<'a> {
    fn peek(&self) -> Option<u8> {
        self.s.get(self.i).copied()
    }
    fn starts(&self, p: &[u8]) -> bool {
        self.s[self.i..].starts_with(p)
    }
    fn skip_ws(&mut self) {
        while matches!(self.peek(), Some(b' ' | b'\t' | b'\n' | b'\r')) {
            self.i += 1;
        }
    }
    fn skip_until(&mut self, p: &[u8]) -> Option<()> {
        while self.i < self.s.len() {
            if self.starts(p) {
                self.i += p.len();
                return Some(());
            }
            self.i += 1;
        }
        None
    }
    fn name(&mut self) -> Option<String> {
        let st = self.i;
        while let Some(c) = self.peek() {
            if matches!(c, b' ' | b'\t' | b'\n' | b'\r' | b'=' | b'>' | b'/' | b'<') {
                break;
            }
            self.i += 1;
        }
        if self.i == st {
            return None;
        }
        String::from_utf8(self.s[st..self.i].to_vec()).ok()
    }
    fn misc(&mut self) -> Option<bool> {
        // skips one declaration / comment / doctype; returns whether something was skipped
        if self.starts(b"<?") {
            self.skip_until(b"?>")?;
            Some(true)
        } else if self.starts(b"<!--") {
            self.skip_until(b"-->")?;
            Some(true)
        } else if self.starts(b"<!") {
            self.skip_until(b">")?;
            Some(true)
        } else {
            Some(false)
        }
    }
    fn element(&mut self) -> Option<Tree> {
        if self.peek()? != b'<' {
            return None;
        }
        self.i += 1;
        let n = self.name()?;
        let mut attrs = Vec::new();
        loop {
            self.skip_ws();
            match self.peek()? {
                b'/' => {
                    self.i += 1;
                    if self.peek()? != b'>' {
                        return None;
                    }
                    self.i += 1;
                    return Some(Tree::Elem(n, attrs, Vec::new()));
                }
                b'>' => {
                    self.i += 1;
                    break;
                }
                _ => {
                    let k = self.name()?;
                    self.skip_ws();
                    if self.peek()? != b'=' {
                        return None;
                    }
                    self.i += 1;
                    self.skip_ws();
                    let q = self.peek()?;
                    if q != b'"' && q != b'\'' {
                        return None;
                    }
                    self.i += 1;
                    let st = self.i;
                    while self.peek()? != q {
                        self.i += 1;
                    }
                    let raw = std::str::from_utf8(&self.s[st..self.i]).ok()?;
                    self.i += 1;
                    attrs.push((k, unescape(raw)?));
                }
            }
        }
        let mut children = Vec::new();
        loop {
            if self.starts(b"</") {
                self.i += 2;
                let e = self.name()?;
                if e != n {
                    return None;
                }
                self.skip_ws();
                if self.peek()? != b'>' {
                    return None;
                }
                self.i += 1;
                return Some(Tree::Elem(n, attrs, children));
            }
            if self.misc()? {
                continue;
            }
            if self.peek()? == b'<' {
                children.push(self.element()?);
            } else {
                let st = self.i;
                while self.peek()? != b'<' {
                    self.i += 1;
                }
                let raw = std::str::from_utf8(&self.s[st..self.i]).ok()?;
                children.push(Tree::Text(unescape(raw)?));
            }
        }
    }
}

fn read_xml(s: &str) -> Option<Tree> {
    let mut r = Rd { s: s.as_bytes(), i: 0 };
    loop {
        r.skip_ws();
        if !r.misc()? {
            break;
        }
    }
    let t = r.element()?;
    loop {
        r.skip_ws();
        if r.i >= r.s.len() {
            return Some(t);
        }
        if !r.misc()? {
            return None;
        }
    }
}

// ---------------------------------------------------------------- dump of the parsed value (getters only)
fn d_ann(a: &Annotation) -> Tree {
    Tree::Elem("annotation".into(), vec![("name".into(), a.name().into()), ("value".into(), a.value().into())], vec![])
}
fn d_arg(a: &Arg) -> Tree {
    let mut at = Vec::new();
    if let Some(n) = a.name() {
        at.push(("name".to_string(), n.to_string()));
    }
    at.push(("type".to_string(), a.ty().to_string()));
    match a.direction() {
        Some(ArgDirection::In) => at.push(("direction".into(), "in".into())),
        Some(ArgDirection::Out) => at.push(("direction".into(), "out".into())),
        None => {}
    }
    Tree::Elem("arg".into(), at, a.annotations().iter().map(d_ann).collect())
}
fn d_method(m: &Method<'_>) -> Tree {
    let mut c: Vec<Tree> = m.args().iter().map(d_arg).collect();
    c.extend(m.annotations().iter().map(d_ann));
    Tree::Elem("method".into(), vec![("name".into(), m.name().to_string())], c)
}
fn d_signal(m: &Signal<'_>) -> Tree {
    let mut c: Vec<Tree> = m.args().iter().map(d_arg).collect();
    c.extend(m.annotations().iter().map(d_ann));
    Tree::Elem("signal".into(), vec![("name".into(), m.name().to_string())], c)
}
fn d_prop(p: &Property<'_>) -> Tree {
    let acc = match p.access() {
        PropertyAccess::Read => "read",
        PropertyAccess::Write => "write",
        PropertyAccess::ReadWrite => "readwrite",
    };
    Tree::Elem(
        "property".into(),
        vec![("name".into(), p.name().to_string()), ("type".into(), p.ty().to_string()), ("access".into(), acc.into())],
        p.annotations().iter().map(d_ann).collect(),
    )
}
fn d_iface(i: &Interface<'_>) -> Tree {
    let mut c: Vec<Tree> = i.methods().iter().map(d_method).collect();
    c.extend(i.properties().iter().map(d_prop));
    c.extend(i.signals().iter().map(d_signal));
    c.extend(i.annotations().iter().map(d_ann));
    Tree::Elem("interface".into(), vec![("name".into(), i.name().to_string())], c)
}
fn d_node(n: &Node<'_>) -> Tree {
    let mut at = Vec::new();
    if let Some(x) = n.name() {
        at.push(("name".to_string(), x.to_string()));
    }
    let mut c: Vec<Tree> = n.interfaces().iter().map(d_iface).collect();
    c.extend(n.nodes().iter().map(d_node));
    Tree::Elem("node".into(), at, c)
}

fn toks(t: &Tree) -> String {
    let mut v = Vec::new();
    tokens_of(t, &mut v);
    v.join(" ")
}

fn run_xml(xml: &str) -> String {
    let node = match Node::try_from(xml) {
        Ok(n) => n,
        Err(_) => return "ERR".into(),
    };
    let mut w = Vec::new();
    if node.to_writer(&mut w).is_err() {
        return "WRITE-ERR".into();
    }
    let written = match String::from_utf8(w) {
        Ok(s) => s,
        Err(_) => return "WRITE-NOT-UTF8".into(),
    };
    let a = matches!(Node::try_from(written.as_str()), Ok(ref b) if *b == node);
    let b = matches!(Node::from_reader(written.as_bytes()), Ok(ref b) if *b == node);
    let c = matches!(Node::from_reader(xml.as_bytes()), Ok(ref b) if *b == node);
    let info = match read_xml(&written) {
        Some(t) => toks(&t),
        None => format!("BADXML:{}", hcommon::hex(written.as_bytes())),
    };
    format!(
        "OK:{}{}{};{};{};{}",
        hcommon::tf(a),
        hcommon::tf(b),
        hcommon::tf(c),
        toks(&d_node(&node)),
        info,
        hcommon::hex(written.as_bytes())
    )
}

fn main() {
    hcommon::run(|line| {
        let w: Vec<&str> = line.split(' ').filter(|x| !x.is_empty()).collect();
        if w.is_empty() {
            return "BADCASE".into();
        }
        match w[0] {
            "x" => {
                let t = match parse_tokens(&w[1..]) {
                    Some(t) => t,
                    None => return "BADCASE".into(),
                };
                let mut xml = String::new();
                render(&t, &mut xml);
                run_xml(&xml)
            }
            "raw" => match w.get(1).and_then(|h| hcommon::unhex(h)).and_then(|b| String::from_utf8(b).ok()) {
                Some(xml) => run_xml(&xml),
                None => "BADCASE".into(),
            },
            "u" => match w.get(1).and_then(|h| hcommon::unhex(h)).and_then(|b| String::from_utf8(b).ok()) {
                // raw attribute text, embedded verbatim: what does the reader make of it
                Some(raw) => {
                    if raw.contains('"') || raw.contains('<') {
                        return "BADCASE".into();
                    }
                    let xml = format!("<node name=\"{}\"/>", raw);
                    match Node::try_from(xml.as_str()) {
                        Ok(n) => format!("OK:{}", hcommon::hex(n.name().unwrap_or("").as_bytes())),
                        Err(_) => "ERR".into(),
                    }
                }
                None => "BADCASE".into(),
            },
            "show" => match w.get(1).and_then(|h| hcommon::unhex(h)).and_then(|b| String::from_utf8(b).ok()) {
                // debugging aid: print the written text itself
                Some(xml) => match Node::try_from(xml.as_str()) {
                    Ok(n) => {
                        let mut w = Vec::new();
                        n.to_writer(&mut w).unwrap();
                        String::from_utf8_lossy(&w).to_string()
                    }
                    Err(e) => format!("ERR {}", e),
                },
                None => "BADCASE".into(),
            },
            _ => "BADCASE".into(),
        }
    });
}
