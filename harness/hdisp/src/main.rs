//! hdisp — drives the real zbus ObjectServer dispatch machinery (C29, C30) over an in-process
//! peer-to-peer connection pair (UnixStream::pair, server side `.server(guid).p2p()`).
//!
//! Case lines
//!   D <exec> <g0>,<g1>,<g2>,<g3> <call> <call> ...
//!       exec   `i` = zbus' internal executor thread on the server connection,
//!              `1`|`2`|`3` = `internal_executor(false)` and that many harness threads ticking it
//!       g<k>   script run by the property getters of interface instance k  (`-` = empty)
//!       interface instances: 0 = Sp at /t/a, 1 = Sp at /t/b (task spawning enabled),
//!                            2 = Ns at /t/c, 3 = Ns at /t/d (`#[interface(spawn = false)]`)
//!       call   m<k>:<script>  method RunMut (&mut self)        f<k>:<script>  method RunRef (&self)
//!              m<k>!:<script> / f<k>!:<script>  the same with the NO_REPLY_EXPECTED header flag (no R event expected)
//!              g<k>  Properties.Get(P)      G<k>  Properties.GetAll  (runs the getters of P and Q)
//!              s<k>:<script>  Properties.Set(P, script)  (setter takes &mut self)
//!              t<k>:<script>  Properties.Set(Q, script)  (setter takes &self)
//!              x<k>  Introspectable.Introspect on the path of k        n  call to an unknown path
//!       script ops joined by `.`:  y<n> yield n times   z<ms> sleep   e emit a signal
//!              a<j> object_server().at(j = 0: /x/aux, 1: own path, Dummy)    r<j> remove::<Dummy>
//!              r2  remove::<Self>(own path): the handler removes the interface it is running on
//!              i<k> object_server().interface::<_, T>(path of k)
//!     The whole burst is sent back-to-back on one connection before any reply is awaited; call ids are
//!     the positions in the burst.
//!   L <variant> <n>
//!       on-demand creation: the server connection is built WITHOUT an object server; then
//!       `conn.object_server().at("/t/a", Sp)` runs and, once it has returned (event `AT`), the peer sends n calls
//!       (event `X<c>` just before each send).
//!       variant  a  internal executor, the peer first pings until a Ping is answered (the dispatch task has
//!                   subscribed), then sends
//!                b  internal executor, the peer sends immediately after AT
//!                c  internal_executor(false): the socket reader task is already runnable (an unrelated
//!                   signal from the peer is waiting in the socket) when the object server is created, and
//!                   the executor is only ticked after the peer has sent its calls
//!                d  like c but the executor is ticked and a Ping answered before the peer sends
//!
//! Output:  <OK|HANG>#<events joined by ,>      events in global order:
//!   S<c> handler start   E<c> handler end   O<c>.<j> op j of the handler of call c completed
//!   R<c> the peer received the reply of call c (R<c>! = an error reply)    AT / X<c> see above
//! HANG = not every expected reply within the watchdog time (8 s; handlers need milliseconds), confirmed by a second run in a fresh
//! pair of connections (the events of the last run are printed).
use std::collections::HashMap;
use std::io::{BufRead, Write};
use std::os::unix::net::UnixStream;
use std::sync::atomic::{AtomicBool, AtomicUsize, Ordering};
use std::sync::{mpsc, Arc, Mutex};
use std::time::Duration;

use futures_util::StreamExt;
use zbus::message::{Flags, Header, Message, Type};
use zbus::object_server::SignalEmitter;
use zbus::{block_on, connection::Builder, Connection, Guid, MessageStream, ObjectServer};

const PATHS: [&str; 4] = ["/t/a", "/t/b", "/t/c", "/t/d"];
const AUX: &str = "/x/aux";
const WATCHDOG: Duration = Duration::from_millis(8000);

struct Ctx {
    log: Mutex<Vec<String>>,
    ser: Mutex<HashMap<u32, u32>>,
    getters: [String; 4],
}

impl Ctx {
    fn new(getters: [String; 4]) -> Arc<Self> {
        Arc::new(Ctx { log: Mutex::new(Vec::new()), ser: Mutex::new(HashMap::new()), getters })
    }
    fn ev(&self, s: String) {
        self.log.lock().unwrap().push(s);
    }
    fn cid(&self, hdr: &Option<Header<'_>>) -> u32 {
        match hdr {
            Some(h) => *self.ser.lock().unwrap().get(&h.primary().serial_num().get()).unwrap_or(&998),
            None => 999,
        }
    }
    fn snapshot(&self) -> String {
        let l = self.log.lock().unwrap();
        if l.is_empty() {
            "-".into()
        } else {
            l.join(",")
        }
    }
}

struct Dummy;
#[zbus::interface(name = "org.zv.Dummy")]
impl Dummy {
    fn nop(&self) {}
}

async fn yield_once() {
    let mut yielded = false;
    futures_util::future::poll_fn(|cx| {
        if yielded {
            std::task::Poll::Ready(())
        } else {
            yielded = true;
            cx.waker().wake_by_ref();
            std::task::Poll::Pending
        }
    })
    .await
}

fn num(s: &str) -> u64 {
    s.parse().unwrap_or(0)
}

/// the body of every handler: run the ops of `script`, logging the completion of each
async fn run_script(ctx: &Ctx, cid: u32, k: usize, script: &str, server: &ObjectServer, emitter: &SignalEmitter<'_>) {
    if script == "-" || script.is_empty() {
        return;
    }
    for (j, op) in script.split('.').enumerate() {
        let (c, arg) = op.split_at(1);
        match c {
            "y" => {
                for _ in 0..num(arg) {
                    yield_once().await;
                }
            }
            "z" => {
                async_io::Timer::after(Duration::from_millis(num(arg))).await;
            }
            "e" => {
                let _ = emitter.emit("org.zv.Sig", "Sig", &(cid)).await;
            }
            "a" => {
                let p = if arg == "1" { PATHS[k] } else { AUX };
                let _ = server.at(p, Dummy).await;
            }
            "r" => {
                if arg == "2" {
                    // remove the very interface this handler is running on (a self-removing `Close`)
                    if k < 2 {
                        let _ = server.remove::<Sp, _>(PATHS[k]).await;
                    } else {
                        let _ = server.remove::<Ns, _>(PATHS[k]).await;
                    }
                } else {
                    let p = if arg == "1" { PATHS[k] } else { AUX };
                    let _ = server.remove::<Dummy, _>(p).await;
                }
            }
            "i" => {
                let t = (num(arg) as usize) % 4;
                if t < 2 {
                    let _ = server.interface::<_, Sp>(PATHS[t]).await;
                } else {
                    let _ = server.interface::<_, Ns>(PATHS[t]).await;
                }
            }
            _ => {}
        }
        ctx.ev(format!("O{cid}.{j}"));
    }
}

macro_rules! mk_iface {
    ($ty:ident, $($attr:tt)*) => {
        struct $ty {
            k: usize,
            ctx: Arc<Ctx>,
        }
        #[zbus::interface($($attr)*)]
        impl $ty {
            async fn run_mut(
                &mut self,
                cid: u32,
                script: &str,
                #[zbus(object_server)] server: &ObjectServer,
                #[zbus(signal_emitter)] emitter: SignalEmitter<'_>,
            ) -> u32 {
                self.ctx.ev(format!("S{cid}"));
                run_script(&self.ctx, cid, self.k, script, server, &emitter).await;
                self.ctx.ev(format!("E{cid}"));
                cid
            }
            async fn run_ref(
                &self,
                cid: u32,
                script: &str,
                #[zbus(object_server)] server: &ObjectServer,
                #[zbus(signal_emitter)] emitter: SignalEmitter<'_>,
            ) -> u32 {
                self.ctx.ev(format!("S{cid}"));
                run_script(&self.ctx, cid, self.k, script, server, &emitter).await;
                self.ctx.ev(format!("E{cid}"));
                cid
            }
            #[zbus(property(emits_changed_signal = "false"))]
            async fn p(
                &self,
                #[zbus(header)] hdr: Option<Header<'_>>,
                #[zbus(object_server)] server: &ObjectServer,
                #[zbus(signal_emitter)] emitter: SignalEmitter<'_>,
            ) -> String {
                let cid = self.ctx.cid(&hdr);
                self.ctx.ev(format!("S{cid}"));
                run_script(&self.ctx, cid, self.k, &self.ctx.getters[self.k], server, &emitter).await;
                self.ctx.ev(format!("E{cid}"));
                String::new()
            }
            #[zbus(property)]
            async fn set_p(
                &mut self,
                value: String,
                #[zbus(header)] hdr: Option<Header<'_>>,
                #[zbus(object_server)] server: &ObjectServer,
                #[zbus(signal_emitter)] emitter: SignalEmitter<'_>,
            ) {
                let cid = self.ctx.cid(&hdr);
                self.ctx.ev(format!("S{cid}"));
                run_script(&self.ctx, cid, self.k, &value, server, &emitter).await;
                self.ctx.ev(format!("E{cid}"));
            }
            #[zbus(property(emits_changed_signal = "false"))]
            async fn q(
                &self,
                #[zbus(header)] hdr: Option<Header<'_>>,
                #[zbus(object_server)] server: &ObjectServer,
                #[zbus(signal_emitter)] emitter: SignalEmitter<'_>,
            ) -> String {
                let cid = self.ctx.cid(&hdr);
                self.ctx.ev(format!("S{cid}"));
                run_script(&self.ctx, cid, self.k, &self.ctx.getters[self.k], server, &emitter).await;
                self.ctx.ev(format!("E{cid}"));
                String::new()
            }
            #[zbus(property)]
            async fn set_q(
                &self,
                value: String,
                #[zbus(header)] hdr: Option<Header<'_>>,
                #[zbus(object_server)] server: &ObjectServer,
                #[zbus(signal_emitter)] emitter: SignalEmitter<'_>,
            ) {
                let cid = self.ctx.cid(&hdr);
                self.ctx.ev(format!("S{cid}"));
                run_script(&self.ctx, cid, self.k, &value, server, &emitter).await;
                self.ctx.ev(format!("E{cid}"));
            }
        }
    };
}
mk_iface!(Sp, name = "org.zv.Sp");
mk_iface!(Ns, name = "org.zv.Ns", spawn = false);

fn iface_name(k: usize) -> &'static str {
    if k < 2 {
        "org.zv.Sp"
    } else {
        "org.zv.Ns"
    }
}

// ------------------------------------------------------------------------------------------------

fn ioerr(e: std::io::Error) -> zbus::Error {
    zbus::Error::InputOutput(Arc::new(e))
}

/// a fresh pair; `manual` = the server connection is built with internal_executor(false)
fn pair(manual: bool) -> zbus::Result<(Connection, Connection)> {
    let (a, b) = UnixStream::pair().map_err(ioerr)?;
    let guid = Guid::generate();
    block_on(async {
        futures_util::try_join!(
            Builder::unix_stream(a).server(guid)?.p2p().internal_executor(!manual).build(),
            Builder::unix_stream(b).p2p().build(),
        )
    })
}

struct Tickers {
    stop: Arc<AtomicBool>,
}

impl Tickers {
    fn start(conn: &Connection, n: usize) -> Self {
        let stop = Arc::new(AtomicBool::new(false));
        for _ in 0..n {
            let c = conn.clone();
            let s = stop.clone();
            std::thread::spawn(move || {
                block_on(async {
                    while !s.load(Ordering::SeqCst) {
                        let tick = c.executor().tick();
                        let timer = async_io::Timer::after(Duration::from_millis(20));
                        futures_util::pin_mut!(tick);
                        futures_util::pin_mut!(timer);
                        futures_util::future::select(tick, timer).await;
                    }
                })
            });
        }
        Tickers { stop }
    }
}

impl Drop for Tickers {
    fn drop(&mut self) {
        self.stop.store(true, Ordering::SeqCst);
    }
}

enum Verdict {
    Ok,
    Hang,
    Bad,
}

/// build the message for call token `tok` with call id `cid`
fn build_call(tok: &str, cid: u32) -> Option<Message> {
    let (head, script) = match tok.split_once(':') {
        Some((h, s)) => (h, s),
        None => (tok, "-"),
    };
    let (kind, ks) = head.split_at(1);
    if kind == "n" {
        return Message::method_call("/no/such", "RunRef").ok()?.interface("org.zv.Sp").ok()?.build(&(cid, script)).ok();
    }
    let (ks, noreply) = match ks.strip_suffix('!') {
        Some(r) => (r, true),
        None => (ks, false),
    };
    let k: usize = ks.parse().ok()?;
    if k > 3 || (noreply && kind != "m" && kind != "f") {
        return None;
    }
    let path = PATHS[k];
    let props = "org.freedesktop.DBus.Properties";
    if noreply {
        // fire-and-forget: the NO_REPLY_EXPECTED header flag
        let member = if kind == "m" { "RunMut" } else { "RunRef" };
        return Message::method_call(path, member)
            .ok()?
            .interface(iface_name(k))
            .ok()?
            .with_flags(Flags::NoReplyExpected)
            .ok()?
            .build(&(cid, script))
            .ok();
    }
    match kind {
        "m" => Message::method_call(path, "RunMut").ok()?.interface(iface_name(k)).ok()?.build(&(cid, script)).ok(),
        "f" => Message::method_call(path, "RunRef").ok()?.interface(iface_name(k)).ok()?.build(&(cid, script)).ok(),
        "g" => Message::method_call(path, "Get").ok()?.interface(props).ok()?.build(&(iface_name(k), "P")).ok(),
        "G" => Message::method_call(path, "GetAll").ok()?.interface(props).ok()?.build(&(iface_name(k),)).ok(),
        "s" => Message::method_call(path, "Set")
            .ok()?
            .interface(props)
            .ok()?
            .build(&(iface_name(k), "P", zvariant::Value::from(script)))
            .ok(),
        "t" => Message::method_call(path, "Set")
            .ok()?
            .interface(props)
            .ok()?
            .build(&(iface_name(k), "Q", zvariant::Value::from(script)))
            .ok(),
        "x" => Message::method_call(path, "Introspect").ok()?.interface("org.freedesktop.DBus.Introspectable").ok()?.build(&()).ok(),
        _ => None,
    }
}

/// send the burst, then wait for `need` replies (the calls with ids in `required`) or the watchdog
fn client_burst(client: &Connection, ctx: &Arc<Ctx>, toks: &[String], log_send: bool, grace: Option<&dyn Fn(&Ctx) -> Vec<u32>>) -> Verdict {
    block_on(async {
        let mut stream = MessageStream::from(client);
        let mut msgs = Vec::new();
        for (i, t) in toks.iter().enumerate() {
            match build_call(t, i as u32) {
                Some(m) => {
                    ctx.ser.lock().unwrap().insert(m.primary_header().serial_num().get(), i as u32);
                    msgs.push(m);
                }
                None => return Verdict::Bad,
            }
        }
        for (i, m) in msgs.iter().enumerate() {
            if log_send {
                ctx.ev(format!("X{i}"));
            }
            if client.send(m).await.is_err() {
                return Verdict::Bad;
            }
        }
        // which calls must be answered; a call that carries NO_REPLY_EXPECTED is finished when its handler has
        // logged its end (or, if its interface was removed meanwhile, when the error reply came)
        let is_flagged = |t: &String| t.split(':').next().map(|h| h.ends_with('!')).unwrap_or(false);
        let flagged: Vec<u32> = toks.iter().enumerate().filter(|(_, t)| is_flagged(t)).map(|(i, _)| i as u32).collect();
        let required: Vec<u32> = match grace {
            Some(f) => f(ctx),
            None => (0..toks.len() as u32).filter(|c| !flagged.contains(c)).collect(),
        };
        let ended = |c: u32| ctx.log.lock().unwrap().iter().any(|e| *e == format!("E{c}"));
        let mut got: Vec<u32> = Vec::new();
        let deadline = async_io::Timer::after(WATCHDOG);
        futures_util::pin_mut!(deadline);
        loop {
            if required.iter().all(|c| got.contains(c)) && flagged.iter().all(|c| got.contains(c) || ended(*c)) {
                if got.len() < toks.len() && grace.is_some() {
                    // calls outside the premise may or may not be answered: give them a moment, do not insist
                    let extra = async_io::Timer::after(Duration::from_millis(150));
                    futures_util::pin_mut!(extra);
                    loop {
                        let nx = stream.next();
                        futures_util::pin_mut!(nx);
                        match futures_util::future::select(nx, &mut extra).await {
                            futures_util::future::Either::Left((Some(Ok(m)), _)) => {
                                note_reply(ctx, &m, &mut got);
                                if got.len() == toks.len() {
                                    break;
                                }
                            }
                            _ => break,
                        }
                    }
                }
                return Verdict::Ok;
            }
            let nx = stream.next();
            futures_util::pin_mut!(nx);
            let tick = async_io::Timer::after(Duration::from_millis(3));
            futures_util::pin_mut!(tick);
            let wait = futures_util::future::select(tick, &mut deadline);
            match futures_util::future::select(nx, wait).await {
                futures_util::future::Either::Left((Some(Ok(m)), _)) => note_reply(ctx, &m, &mut got),
                futures_util::future::Either::Left((_, _)) => return Verdict::Hang,
                futures_util::future::Either::Right((futures_util::future::Either::Left(_), _)) => {}
                futures_util::future::Either::Right((futures_util::future::Either::Right(_), _)) => return Verdict::Hang,
            }
        }
    })
}

fn note_reply(ctx: &Ctx, m: &Message, got: &mut Vec<u32>) {
    let h = m.header();
    let ty = h.message_type();
    if ty != Type::MethodReturn && ty != Type::Error {
        return;
    }
    if let Some(rs) = h.reply_serial() {
        if let Some(c) = ctx.ser.lock().unwrap().get(&rs.get()).copied() {
            ctx.ev(format!("R{c}{}", if ty == Type::Error { "!" } else { "" }));
            got.push(c);
        }
    }
}

fn register_all(server: &Connection, ctx: &Arc<Ctx>) -> zbus::Result<()> {
    block_on(async {
        let os = server.object_server();
        os.at(PATHS[0], Sp { k: 0, ctx: ctx.clone() }).await?;
        os.at(PATHS[1], Sp { k: 1, ctx: ctx.clone() }).await?;
        os.at(PATHS[2], Ns { k: 2, ctx: ctx.clone() }).await?;
        os.at(PATHS[3], Ns { k: 3, ctx: ctx.clone() }).await?;
        Ok(())
    })
}

/// wait until the dispatch task answers (a call that arrives before its subscription is dropped — see case L)
fn wait_ready(client: &Connection) -> bool {
    // Pings with a growing patience (25 ms .. 1 s), for about 20 s in all: on a heavily loaded machine a round trip
    // can take long, and a Ping sent before the subscription exists is never answered
    block_on(async {
        let start = std::time::Instant::now();
        let mut patience = 25u64;
        while start.elapsed() < Duration::from_secs(20) {
            let call = client.call_method(None::<()>, "/", Some("org.freedesktop.DBus.Peer"), "Ping", &());
            let timer = async_io::Timer::after(Duration::from_millis(patience));
            futures_util::pin_mut!(call);
            futures_util::pin_mut!(timer);
            if let futures_util::future::Either::Left((Ok(_), _)) = futures_util::future::select(call, timer).await {
                return true;
            }
            patience = (patience * 3 / 2).min(1000);
        }
        false
    })
}

fn case_d(w: &[&str], ctx: &Arc<Ctx>) -> Verdict {
    let exec = w[1];
    let toks: Vec<String> = w[3..].iter().map(|s| s.to_string()).collect();
    let manual = exec != "i";
    let (server, client) = match pair(manual) {
        Ok(p) => p,
        Err(_) => return Verdict::Bad,
    };
    let _tickers = if manual { Some(Tickers::start(&server, exec.parse().unwrap_or(1))) } else { None };
    if register_all(&server, ctx).is_err() {
        return Verdict::Bad;
    }
    if !wait_ready(&client) {
        // the object server never answered a Ping (20 s of retries): nothing is dispatched at all
        std::mem::forget(server);
        std::mem::forget(client);
        return Verdict::Hang;
    }
    let v = client_burst(&client, ctx, &toks, false, None);
    if let Verdict::Hang = v {
        // a deadlocked server is leaked on purpose: dropping it could block
        std::mem::forget(server);
        std::mem::forget(client);
    }
    v
}

fn case_l(w: &[&str], ctx: &Arc<Ctx>) -> Verdict {
    let variant = w[1];
    let n: usize = w[2].parse().unwrap_or(1);
    let toks: Vec<String> = (0..n).map(|_| "f0:-".to_string()).collect();
    let manual = variant == "c" || variant == "d";
    let (server, client) = match pair(manual) {
        Ok(p) => p,
        Err(_) => return Verdict::Bad,
    };
    // calls sent before `at` returned are outside the premise of the property
    let required = |ctx: &Ctx| -> Vec<u32> {
        let l = ctx.log.lock().unwrap();
        let at = l.iter().position(|e| e == "AT");
        let mut out = Vec::new();
        for (i, e) in l.iter().enumerate() {
            if let Some(c) = e.strip_prefix('X') {
                if at.map(|a| a < i).unwrap_or(false) {
                    out.push(c.parse().unwrap_or(0));
                }
            }
        }
        out
    };
    let v;
    if !manual {
        let r = block_on(async {
            let os = server.object_server();
            let r = os.at(PATHS[0], Sp { k: 0, ctx: ctx.clone() }).await;
            ctx.ev("AT".into());
            r
        });
        if r.is_err() {
            return Verdict::Bad;
        }
        if variant == "a" {
            // the peer waits until the dispatch task demonstrably runs (a Ping has been answered)
            if !wait_ready(&client) {
                std::mem::forget(server);
                std::mem::forget(client);
                return Verdict::Hang;
            }
        }
        v = client_burst(&client, ctx, &toks, true, Some(&required));
    } else {
        // let the socket reader task run once (it then waits for the socket), then make it runnable again
        // with an unrelated signal from the peer
        {
            let t = Tickers::start(&server, 1);
            std::thread::sleep(Duration::from_millis(30));
            drop(t);
            std::thread::sleep(Duration::from_millis(60));
        }
        let sent = block_on(client.emit_signal(None::<()>, "/u", "org.zv.U", "Unrelated", &()));
        if sent.is_err() {
            return Verdict::Bad;
        }
        std::thread::sleep(Duration::from_millis(30));
        let r = block_on(async {
            let os = server.object_server();
            let r = os.at(PATHS[0], Sp { k: 0, ctx: ctx.clone() }).await;
            ctx.ev("AT".into());
            r
        });
        if r.is_err() {
            return Verdict::Bad;
        }
        let mut early = None;
        if variant == "d" {
            early = Some(Tickers::start(&server, 1));
            if !wait_ready(&client) {
                std::mem::forget(server);
                std::mem::forget(client);
                return Verdict::Hang;
            }
        }
        // the peer sends after AT; the server's executor is ticked only later (variant c)
        let ctx2 = ctx.clone();
        let server2 = server.clone();
        let late = std::thread::spawn(move || {
            // wait until every call has been handed to the socket
            for _ in 0..500 {
                let sent = ctx2.log.lock().unwrap().iter().filter(|e| e.starts_with('X')).count();
                if sent >= n {
                    break;
                }
                std::thread::sleep(Duration::from_millis(2));
            }
            std::thread::sleep(Duration::from_millis(40));
            Tickers::start(&server2, 1)
        });
        v = client_burst(&client, ctx, &toks, true, Some(&required));
        if let Ok(t) = late.join() {
            drop(t);
        }
        drop(early);
    }
    if let Verdict::Hang = v {
        std::mem::forget(server);
        std::mem::forget(client);
    }
    v
}

fn run_once(line: &str) -> (Verdict, String) {
    let w: Vec<&str> = line.split(' ').filter(|s| !s.is_empty()).collect();
    let getters: [String; 4] = if w.first() == Some(&"D") && w.len() >= 3 {
        let g: Vec<&str> = w[2].split(',').collect();
        if g.len() != 4 {
            return (Verdict::Bad, String::new());
        }
        [g[0].to_string(), g[1].to_string(), g[2].to_string(), g[3].to_string()]
    } else {
        ["-".into(), "-".into(), "-".into(), "-".into()]
    };
    let ctx = Ctx::new(getters);
    let (tx, rx) = mpsc::channel();
    let line2 = line.to_string();
    let ctx2 = ctx.clone();
    // the case runs in its own thread, which is abandoned if it does not come back
    std::thread::spawn(move || {
        let w: Vec<&str> = line2.split(' ').filter(|s| !s.is_empty()).collect();
        let v = match w.first() {
            Some(&"D") if w.len() >= 4 => case_d(&w, &ctx2),
            Some(&"L") if w.len() == 3 => case_l(&w, &ctx2),
            _ => Verdict::Bad,
        };
        let _ = tx.send(v);
    });
    let v = match rx.recv_timeout(WATCHDOG + Duration::from_millis(40000)) {
        Ok(v) => v,
        Err(_) => Verdict::Hang,
    };
    (v, ctx.snapshot())
}

fn run_case(line: &str) -> String {
    let (v, log) = run_once(line);
    match v {
        Verdict::Bad => "BADCASE".into(),
        Verdict::Ok => format!("OK#{log}"),
        Verdict::Hang => {
            // re-checked once before being believed
            let (v2, log2) = run_once(line);
            match v2 {
                Verdict::Bad => "BADCASE".into(),
                Verdict::Ok => format!("OK#{log2}"),
                Verdict::Hang => format!("HANG#{log2}"),
            }
        }
    }
}

fn main() {
    std::panic::set_hook(Box::new(|_| {}));
    let lines: Vec<String> = std::io::stdin().lock().lines().map_while(Result::ok).collect();
    let n = lines.len();
    let lines = Arc::new(lines);
    let results: Arc<Mutex<Vec<Option<String>>>> = Arc::new(Mutex::new(vec![None; n]));
    let next = Arc::new(AtomicUsize::new(0));
    let workers: usize = std::env::var("HDISP_WORKERS").ok().and_then(|s| s.parse().ok()).unwrap_or(3);
    let mut hs = Vec::new();
    for _ in 0..workers.max(1) {
        let lines = lines.clone();
        let results = results.clone();
        let next = next.clone();
        hs.push(std::thread::spawn(move || loop {
            let i = next.fetch_add(1, Ordering::SeqCst);
            if i >= lines.len() {
                break;
            }
            let l = lines[i].clone();
            let r = std::panic::catch_unwind(std::panic::AssertUnwindSafe(|| run_case(&l))).unwrap_or_else(|_| "PANIC".into());
            results.lock().unwrap()[i] = Some(r);
        }));
    }
    for h in hs {
        let _ = h.join();
    }
    let stdout = std::io::stdout();
    let mut out = std::io::BufWriter::new(stdout.lock());
    for r in results.lock().unwrap().iter() {
        let _ = writeln!(out, "{}", r.clone().unwrap_or_else(|| "PANIC".into()));
    }
    let _ = out.flush();
    // leaked (deadlocked) connections must not keep the process alive
    std::process::exit(0);
}
