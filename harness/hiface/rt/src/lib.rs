//! Run-time support shared by the hand-written driver (../src/main.rs) and the generated interfaces
//! (../parts/p*/src/lib.rs): the dynamic value type `Val` with its token syntax, the invocation log, and the
//! *standard handler behaviour* (results derived deterministically from the arguments) that
//! coq/theories/C26/Std.v mirrors.
use std::collections::{BTreeMap, HashMap};
use std::sync::Mutex;

use serde::{Deserialize, Serialize};
use zvariant::{OwnedObjectPath, OwnedValue, Type, Value};

/// The named structure of the type menu (`N`): same D-Bus type as the tuple `(u32, String)`.
#[derive(Debug, Clone, PartialEq, Serialize, Deserialize, Type, Value, OwnedValue)]
pub struct Pair {
    pub a: u32,
    pub b: String,
}

pub const SRV_NAME: &str = ":zv.1";

/// An operation through a generated proxy.
pub enum POp {
    Method { name: String, args: Vec<Val> },
    Get { name: String },
    Set { name: String, val: Val },
}

/// run a blocking closure on a helper thread with a watchdog
pub fn with_watchdog<F: FnOnce() -> String + Send + 'static>(f: F) -> String {
    let (tx, rx) = std::sync::mpsc::channel();
    std::thread::spawn(move || {
        let _ = tx.send(f());
    });
    rx.recv_timeout(std::time::Duration::from_secs(5)).unwrap_or_else(|_| "T".into())
}

#[derive(Debug, Clone, PartialEq)]
pub enum Val {
    Y(u8),
    U(u32),
    X(i64),
    B(bool),
    S(String),
    O(String),
    V(Box<Val>),
    A(Vec<u32>),
    L(Vec<String>),
    R(u32, String),
    D(BTreeMap<String, u32>),
    P(BTreeMap<String, Val>),
    Other(String),
}

pub fn hex(s: &[u8]) -> String {
    hcommon::hex(s)
}

impl Val {
    pub fn tok(&self) -> String {
        match self {
            Val::Y(n) => format!("y{n}"),
            Val::U(n) => format!("u{n}"),
            Val::X(n) => format!("x{n}"),
            Val::B(b) => format!("b{}", if *b { 1 } else { 0 }),
            Val::S(s) => format!("s{}", hex(s.as_bytes())),
            Val::O(s) => format!("o{}", hex(s.as_bytes())),
            Val::V(v) => format!("v{}", v.tok()),
            Val::A(l) => format!("A{}", l.iter().map(|n| n.to_string()).collect::<Vec<_>>().join(".")),
            Val::L(l) => format!("L{}", l.iter().map(|s| hex(s.as_bytes())).collect::<Vec<_>>().join(".")),
            Val::R(n, s) => format!("R{}.{}", n, hex(s.as_bytes())),
            Val::D(m) => format!(
                "D{}",
                m.iter().map(|(k, v)| format!("{}.{}", hex(k.as_bytes()), v)).collect::<Vec<_>>().join("+")
            ),
            Val::P(m) => format!(
                "P{}",
                m.iter().map(|(k, v)| format!("{}={}", hex(k.as_bytes()), v.tok())).collect::<Vec<_>>().join("+")
            ),
            Val::Other(s) => format!("?{s}"),
        }
    }

    /// Parse an input token (the `P`, `L` and `?` forms never occur in inputs).
    pub fn parse(t: &str) -> Option<Val> {
        let (k, r) = (t.chars().next()?, &t[1..]);
        let unhex = |h: &str| hcommon::unhex(h).and_then(|b| String::from_utf8(b).ok());
        Some(match k {
            'y' => Val::Y(r.parse().ok()?),
            'u' => Val::U(r.parse().ok()?),
            'x' => Val::X(r.parse().ok()?),
            'b' => Val::B(match r {
                "0" => false,
                "1" => true,
                _ => return None,
            }),
            's' => Val::S(unhex(r)?),
            'o' => {
                let s = unhex(r)?;
                zvariant::ObjectPath::try_from(s.as_str()).ok()?;
                Val::O(s)
            }
            'v' => Val::V(Box::new(Val::parse(r)?)),
            'A' => {
                let mut l = Vec::new();
                if !r.is_empty() {
                    for w in r.split('.') {
                        l.push(w.parse().ok()?);
                    }
                }
                Val::A(l)
            }
            'R' => {
                let (n, s) = r.split_once('.')?;
                Val::R(n.parse().ok()?, unhex(s)?)
            }
            'D' => {
                let mut m = BTreeMap::new();
                if !r.is_empty() {
                    for e in r.split('+') {
                        let (k, v) = e.split_once('.')?;
                        if m.insert(unhex(k)?, v.parse().ok()?).is_some() {
                            return None;
                        }
                    }
                }
                Val::D(m)
            }
            _ => return None,
        })
    }

    pub fn to_value(&self) -> Value<'static> {
        match self {
            Val::Y(n) => Value::U8(*n),
            Val::U(n) => Value::U32(*n),
            Val::X(n) => Value::I64(*n),
            Val::B(b) => Value::Bool(*b),
            Val::S(s) => Value::from(s.clone()),
            Val::O(s) => Value::from(OwnedObjectPath::try_from(s.clone()).expect("path").into_inner()),
            Val::V(v) => Value::Value(Box::new(v.to_value())),
            Val::A(l) => Value::from(l.clone()),
            Val::L(l) => Value::from(l.clone()),
            Val::R(n, s) => Value::from(Pair { a: *n, b: s.clone() }),
            Val::D(m) => Value::from(m.iter().map(|(k, v)| (k.clone(), *v)).collect::<HashMap<String, u32>>()),
            Val::P(_) | Val::Other(_) => panic!("not an input value"),
        }
    }

    pub fn from_value(v: &Value<'_>) -> Val {
        let other = || Val::Other(v.value_signature().to_string());
        match v {
            Value::U8(n) => Val::Y(*n),
            Value::U32(n) => Val::U(*n),
            Value::I64(n) => Val::X(*n),
            Value::Bool(b) => Val::B(*b),
            Value::Str(s) => Val::S(s.to_string()),
            Value::ObjectPath(p) => Val::O(p.to_string()),
            Value::Value(inner) => Val::V(Box::new(Val::from_value(inner))),
            Value::Array(a) => {
                let es = a.inner();
                match a.element_signature().to_string().as_str() {
                    "u" => {
                        let mut l = Vec::new();
                        for e in es {
                            match e {
                                Value::U32(n) => l.push(*n),
                                _ => return other(),
                            }
                        }
                        Val::A(l)
                    }
                    "s" => {
                        let mut l = Vec::new();
                        for e in es {
                            match e {
                                Value::Str(s) => l.push(s.to_string()),
                                _ => return other(),
                            }
                        }
                        Val::L(l)
                    }
                    _ => other(),
                }
            }
            Value::Structure(s) => match s.fields() {
                [Value::U32(n), Value::Str(t)] => Val::R(*n, t.to_string()),
                _ => other(),
            },
            Value::Dict(d) => match d.signature().to_string().as_str() {
                "a{su}" => {
                    let mut m = BTreeMap::new();
                    for (k, x) in d.iter() {
                        match (k, x) {
                            (Value::Str(k), Value::U32(x)) => {
                                m.insert(k.to_string(), *x);
                            }
                            _ => return other(),
                        }
                    }
                    Val::D(m)
                }
                "a{sv}" => {
                    let mut m = BTreeMap::new();
                    for (k, x) in d.iter() {
                        match (k, x) {
                            (Value::Str(k), Value::Value(x)) => {
                                m.insert(k.to_string(), Val::from_value(x));
                            }
                            _ => return other(),
                        }
                    }
                    Val::P(m)
                }
                _ => other(),
            },
            _ => other(),
        }
    }
}

pub fn toks(vs: &[Val]) -> String {
    vs.iter().map(|v| v.tok()).collect::<Vec<_>>().join(",")
}

// ---------------------------------------------------------------- the log

static LOG: Mutex<Vec<String>> = Mutex::new(Vec::new());

pub fn log(s: String) {
    LOG.lock().unwrap_or_else(|e| e.into_inner()).push(s);
}

pub fn take_log() -> Vec<String> {
    LOG.lock().unwrap_or_else(|e| e.into_inner()).drain(..).collect()
}

// ---------------------------------------------------------------- the standard handler behaviour

/// h := 7; for each byte: h := (h * 31 + byte) mod 2^32
pub fn digest(s: &str) -> u32 {
    let mut h: u32 = 7;
    for b in s.bytes() {
        h = h.wrapping_mul(31).wrapping_add(b as u32);
    }
    h
}

/// A method handler starts with this: logs `<tag>#Name(args)` (tag = the path the instance was registered
/// at) and returns the digest of `Name(args)`.
pub fn entry(tag: &str, name: &str, args: &[Val]) -> u32 {
    let e = format!("{}({})", name, toks(args));
    let h = digest(&e);
    log(format!("{tag}#{e}"));
    h
}

/// Outcome of a fallible method for digest h.
pub fn method_failure(h: u32) -> Option<zbus::fdo::Error> {
    match h % 3 {
        0 => Some(zbus::fdo::Error::Failed(format!("f{h}"))),
        1 => Some(zbus::fdo::Error::NotSupported(format!("n{h}"))),
        _ => None,
    }
}

/// A fallible getter fails on stored values with digest(token) mod 4 == 0.
pub fn getter_fails(v: &Val) -> bool {
    digest(&v.tok()) % 4 == 0
}

/// A fallible setter rejects values with digest(token) mod 4 == 1.
pub fn setter_fails(v: &Val) -> bool {
    digest(&v.tok()) % 4 == 1
}

/// The value of menu type `t` derived from the number h.
pub fn derive(t: char, h: u32) -> Val {
    match t {
        'y' => Val::Y((h % 256) as u8),
        'u' => Val::U(h),
        'x' => Val::X(-(h as i64) - 1),
        'b' => Val::B(h % 2 == 1),
        's' => Val::S(format!("r{h}")),
        'o' => Val::O(format!("/r/n{h}")),
        'A' => Val::A((0..(h % 3)).map(|j| h.wrapping_add(j)).collect()),
        'R' | 'N' => Val::R(h, format!("p{h}")),
        'D' => {
            let mut m = BTreeMap::new();
            if h % 2 == 0 {
                m.insert(format!("k{}", h % 10), h);
                m.insert("a".to_string(), 1);
            }
            Val::D(m)
        }
        'v' => Val::V(Box::new(if h % 2 == 0 { Val::U(h) } else { Val::S(format!("v{h}")) })),
        _ => panic!("unknown type letter"),
    }
}

/// Conversion between the Rust types of the menu and `Val`.
pub trait Tv: Sized {
    const LETTER: char;
    fn to_val(&self) -> Val;
    fn from_val(v: &Val) -> Option<Self>;
    fn derive(h: u32) -> Self {
        Self::from_val(&derive(Self::LETTER, h)).expect("derive")
    }
}

impl Tv for u8 {
    const LETTER: char = 'y';
    fn to_val(&self) -> Val {
        Val::Y(*self)
    }
    fn from_val(v: &Val) -> Option<Self> {
        match v {
            Val::Y(n) => Some(*n),
            _ => None,
        }
    }
}
impl Tv for u32 {
    const LETTER: char = 'u';
    fn to_val(&self) -> Val {
        Val::U(*self)
    }
    fn from_val(v: &Val) -> Option<Self> {
        match v {
            Val::U(n) => Some(*n),
            _ => None,
        }
    }
}
impl Tv for i64 {
    const LETTER: char = 'x';
    fn to_val(&self) -> Val {
        Val::X(*self)
    }
    fn from_val(v: &Val) -> Option<Self> {
        match v {
            Val::X(n) => Some(*n),
            _ => None,
        }
    }
}
impl Tv for bool {
    const LETTER: char = 'b';
    fn to_val(&self) -> Val {
        Val::B(*self)
    }
    fn from_val(v: &Val) -> Option<Self> {
        match v {
            Val::B(n) => Some(*n),
            _ => None,
        }
    }
}
impl Tv for String {
    const LETTER: char = 's';
    fn to_val(&self) -> Val {
        Val::S(self.clone())
    }
    fn from_val(v: &Val) -> Option<Self> {
        match v {
            Val::S(n) => Some(n.clone()),
            _ => None,
        }
    }
}
impl Tv for OwnedObjectPath {
    const LETTER: char = 'o';
    fn to_val(&self) -> Val {
        Val::O(self.as_str().to_string())
    }
    fn from_val(v: &Val) -> Option<Self> {
        match v {
            Val::O(n) => OwnedObjectPath::try_from(n.clone()).ok(),
            _ => None,
        }
    }
}
impl Tv for Vec<u32> {
    const LETTER: char = 'A';
    fn to_val(&self) -> Val {
        Val::A(self.clone())
    }
    fn from_val(v: &Val) -> Option<Self> {
        match v {
            Val::A(n) => Some(n.clone()),
            _ => None,
        }
    }
}
impl Tv for (u32, String) {
    const LETTER: char = 'R';
    fn to_val(&self) -> Val {
        Val::R(self.0, self.1.clone())
    }
    fn from_val(v: &Val) -> Option<Self> {
        match v {
            Val::R(n, s) => Some((*n, s.clone())),
            _ => None,
        }
    }
}
impl Tv for Pair {
    const LETTER: char = 'N';
    fn to_val(&self) -> Val {
        Val::R(self.a, self.b.clone())
    }
    fn from_val(v: &Val) -> Option<Self> {
        match v {
            Val::R(n, s) => Some(Pair { a: *n, b: s.clone() }),
            _ => None,
        }
    }
}
impl Tv for HashMap<String, u32> {
    const LETTER: char = 'D';
    fn to_val(&self) -> Val {
        Val::D(self.iter().map(|(k, v)| (k.clone(), *v)).collect())
    }
    fn from_val(v: &Val) -> Option<Self> {
        match v {
            Val::D(m) => Some(m.iter().map(|(k, v)| (k.clone(), *v)).collect()),
            _ => None,
        }
    }
}
impl Tv for OwnedValue {
    const LETTER: char = 'v';
    fn to_val(&self) -> Val {
        Val::V(Box::new(Val::from_value(self)))
    }
    fn from_val(v: &Val) -> Option<Self> {
        match v {
            Val::V(inner) => OwnedValue::try_from(inner.to_value()).ok(),
            _ => None,
        }
    }
}

/// Error token of a proxy-side `zbus::Error` / `fdo::Error`.
pub fn short_err_name(n: &str) -> String {
    if let Some(r) = n.strip_prefix("org.freedesktop.DBus.Error.") {
        r.to_string()
    } else if n == "org.freedesktop.zbus.Error" {
        "ZBus".to_string()
    } else {
        format!("<{n}>")
    }
}

pub fn zerr_tok(e: &zbus::Error) -> String {
    match e {
        zbus::Error::MethodError(name, desc, _) => {
            format!("E{}={}", short_err_name(name.as_str()), desc.as_deref().map(|d| hex(d.as_bytes())).unwrap_or("-".into()))
        }
        zbus::Error::FDO(f) => fdo_tok(f),
        zbus::Error::Variant(_) => "ZVariant".into(),
        zbus::Error::InputOutput(_) => "ZIo".into(),
        _ => "ZOther".into(),
    }
}

pub fn fdo_tok(e: &zbus::fdo::Error) -> String {
    use zbus::DBusError;
    match e {
        zbus::fdo::Error::ZBus(z) => zerr_tok(z),
        _ => format!("E{}={}", short_err_name(e.name().as_str()), e.description().map(|d| hex(d.as_bytes())).unwrap_or("-".into())),
    }
}
