//! hiface — drives interfaces and proxies GENERATED from interface descriptions (gen_ifaces.rs, written
//! by props/ifacegen.py into parts/p*/src/lib.rs from the same descriptions the Coq theorems of C26/C27/C28/C33 quantify over)
//! through the real `#[zbus::interface]` / `#[zbus::proxy]` macros, the real ObjectServer and the real
//! Properties / Introspectable implementations, over an in-process peer-to-peer connection pair.
//!
//! Case line:   <mode> <desc> <layout> <op> <op> ...
//!   mode    26 | 27 | 28 | 33 (only recorded; every op kind works in every mode)
//!   desc    the description token of the interface under test (must be one compiled into this binary)
//!   layout  L<path>=<k>,<path>=<k>...   k = D (interface under test) | O (the fixed interface org.zv.Other)
//!   ops     c:<path|->:<iface|->:<member|->:<n|->:<args>     raw method call (`-` = header field absent, n = NoReplyExpected)
//!           i:<path>                                          Introspect, analysed
//!           pm:<a|b>:<path>:<Method>:<args>                   call through the generated async / blocking proxy
//!           pg:<a|b>:<path>:<Prop>      ps:<a|b>:<path>:<Prop>:<val>      property through the proxy (cache off)
//!           sg:<a|b>:<path>:<Signal>:<args>                   server emits through the generated emitter, proxy stream receives
//!           pn:<slot>:<a|b>:<c|n>:<path>                      create a PERSISTENT proxy in <slot>: c = the builder's default property
//!                                                             caching, n = CacheProperties::No
//!           qg:<slot>:<Prop>      qs:<slot>:<Prop>:<val>       property read / write through the proxy in <slot>
//!   After every op the property caches of the persistent proxies are synchronised: the server emits a sentinel
//!   PropertiesChanged {ZvSync: n} and the driver waits until each initialised cache shows it (the cache task consumes
//!   signals in order), so what a later read sees does not depend on scheduling.
//! Output: one observation per op joined by `;`:   <result>|<handler log joined by &>|<signals seen by the peer joined by &>
//!   result of c:   N (no reply) | R<sig>=<values> | E<name>=<msg hex>         (several replies joined by &)
//!   result of i:   I<canonical infoset by zbus_xml or BADXML>|<hex fragments of the org.zv.* interfaces, sorted, joined by .>|X<hex of the XML text>
//!                  (so an i: observation has 5 fields)
//!   result of p*:  O<values> | E<name>=<msg hex> | Z<kind>           sg: O<values> | T (nothing arrived)
mod gen_ifaces;

use std::os::unix::net::UnixStream;
use std::time::Duration;

use futures_util::StreamExt;
use hiface_rt as rt;
use rt::{with_watchdog, POp, Val, SRV_NAME};
use zbus::{block_on, connection::Builder, message::Flags, Connection, Guid, MessageStream};
use zvariant::{serialized::Context, serialized::Data, Endian, StructureBuilder};

const PEER: &str = "org.freedesktop.DBus.Peer";

fn pair() -> zbus::Result<(Connection, Connection)> {
    let (a, b) = UnixStream::pair().map_err(|e| zbus::Error::InputOutput(std::sync::Arc::new(e)))?;
    let guid = Guid::generate();
    block_on(async {
        futures_util::try_join!(
            Builder::unix_stream(a).server(guid)?.p2p().unique_name(SRV_NAME)?.build(),
            Builder::unix_stream(b).p2p().build(),
        )
    })
}

fn parse_args(s: &str) -> Option<Vec<Val>> {
    if s.is_empty() {
        return Some(vec![]);
    }
    s.split(',').map(Val::parse).collect()
}

/// Hand-encoded method call (little endian) so that PATH / MEMBER can be left out.
fn raw_message(
    serial: u32,
    path: Option<&str>,
    iface: Option<&str>,
    member: Option<&str>,
    noreply: bool,
    body_sig: &str,
    body: &[u8],
) -> Vec<u8> {
    fn pad(v: &mut Vec<u8>, n: usize) {
        while v.len() % n != 0 {
            v.push(0);
        }
    }
    fn field_str(v: &mut Vec<u8>, code: u8, sig: u8, s: &str) {
        pad(v, 8);
        v.push(code);
        v.extend_from_slice(&[1, sig, 0]);
        pad(v, 4);
        v.extend_from_slice(&(s.len() as u32).to_le_bytes());
        v.extend_from_slice(s.as_bytes());
        v.push(0);
    }
    let mut m = vec![b'l', 1, if noreply { 1 } else { 0 }, 1];
    m.extend_from_slice(&(body.len() as u32).to_le_bytes());
    m.extend_from_slice(&serial.to_le_bytes());
    m.extend_from_slice(&[0, 0, 0, 0]); // fields array length, patched below
    let start = m.len();
    if let Some(p) = path {
        field_str(&mut m, 1, b'o', p);
    }
    if let Some(i) = iface {
        field_str(&mut m, 2, b's', i);
    }
    if let Some(x) = member {
        field_str(&mut m, 3, b's', x);
    }
    field_str(&mut m, 6, b's', SRV_NAME);
    if !body_sig.is_empty() {
        pad(&mut m, 8);
        m.push(8);
        m.extend_from_slice(&[1, b'g', 0]);
        m.push(body_sig.len() as u8);
        m.extend_from_slice(body_sig.as_bytes());
        m.push(0);
    }
    let flen = (m.len() - start) as u32;
    m[12..16].copy_from_slice(&flen.to_le_bytes());
    pad(&mut m, 8);
    m.extend_from_slice(body);
    m
}

fn build_call(
    path: Option<&str>,
    iface: Option<&str>,
    member: Option<&str>,
    noreply: bool,
    args: &[Val],
) -> zbus::Result<zbus::message::Message> {
    if let (Some(p), Some(m)) = (path, member) {
        let mut b = zbus::message::Message::method_call(p, m)?.destination(SRV_NAME)?;
        if let Some(i) = iface {
            b = b.interface(i)?;
        }
        if noreply {
            b = b.with_flags(Flags::NoReplyExpected)?;
        }
        if args.is_empty() {
            b.build(&())
        } else {
            let mut sb = StructureBuilder::new();
            for a in args {
                sb = sb.append_field(a.to_value());
            }
            b.build(&sb.build()?)
        }
    } else {
        // PATH or MEMBER absent: take signature and body bytes from a well-formed twin message
        let twin = build_call(Some(path.unwrap_or("/")), iface, Some(member.unwrap_or("X")), noreply, args)?;
        let body = twin.body();
        let sig = body.signature().to_string_no_parens();
        let serial = 0x4000_0000 + twin.primary_header().serial_num().get() % 0x1000_0000;
        let bytes = raw_message(serial, path, iface, member, noreply, &sig, body.data().bytes());
        let ctx = Context::new_dbus(Endian::Little, 0);
        unsafe { zbus::message::Message::from_bytes(Data::new(bytes, ctx)) }
    }
}

/// The body signature exactly as written in the header (field 8), read from the raw bytes: zbus parses
/// "us" and "(us)" to the same `Signature`, so its own accessors cannot tell them apart.
fn wire_sig(msg: &zbus::message::Message) -> Option<String> {
    let b: &[u8] = msg.data().bytes();
    if b.len() < 16 || b[0] != b'l' {
        return None;
    }
    let flen = u32::from_le_bytes([b[12], b[13], b[14], b[15]]) as usize;
    let end = 16 + flen;
    let mut i = 16;
    let align = |i: usize, n: usize| (i + n - 1) / n * n;
    while i < end {
        i = align(i, 8);
        if i + 4 > end {
            break;
        }
        let code = b[i];
        let slen = b[i + 1] as usize;
        let vsig = &b[i + 2..i + 2 + slen];
        i += 2 + slen + 1;
        match vsig {
            b"s" | b"o" => {
                i = align(i, 4);
                let l = u32::from_le_bytes([b[i], b[i + 1], b[i + 2], b[i + 3]]) as usize;
                i += 4 + l + 1;
            }
            b"g" => {
                let l = b[i] as usize;
                let v = String::from_utf8(b[i + 1..i + 1 + l].to_vec()).ok()?;
                if code == 8 {
                    return Some(v);
                }
                i += 1 + l + 1;
            }
            b"u" => {
                i = align(i, 4) + 4;
            }
            _ => return None,
        }
    }
    Some(String::new())
}

/// does `sig` consist of exactly one complete type that is a structure?
fn single_struct(sig: &str) -> bool {
    if !sig.starts_with('(') {
        return false;
    }
    let mut depth = 0;
    for (k, c) in sig.char_indices() {
        match c {
            '(' => depth += 1,
            ')' => {
                depth -= 1;
                if depth == 0 {
                    return k == sig.len() - 1;
                }
            }
            _ => {}
        }
    }
    false
}

fn body_vals(msg: &zbus::message::Message) -> (String, Vec<Val>) {
    let body = msg.body();
    let sig = wire_sig(msg).unwrap_or_else(|| "?".into());
    if sig.is_empty() {
        return (sig, vec![]);
    }
    match body.deserialize::<zvariant::Structure<'_>>() {
        Ok(s) => {
            if single_struct(&sig) {
                // one top-level value which is a structure: zbus hands out its fields
                let v = Val::from_value(&zvariant::Value::Structure(s));
                (sig, vec![v])
            } else {
                (sig, s.fields().iter().map(Val::from_value).collect())
            }
        }
        Err(_) => (sig, vec![Val::Other("undecodable".into())]),
    }
}

struct Obs {
    replies: Vec<String>,
    signals: Vec<String>,
}

/// Ping the root object and read the stream up to the reply; everything the server sent before is
/// collected: replies to `serial` (if any) and signals.
async fn drain(client: &Connection, stream: &mut MessageStream, serial: Option<u32>, obs: &mut Obs) {
    let ping = zbus::message::Message::method_call("/", "Ping")
        .unwrap()
        .destination(SRV_NAME)
        .unwrap()
        .interface(PEER)
        .unwrap()
        .build(&())
        .unwrap();
    let pserial = ping.primary_header().serial_num();
    if client.send(&ping).await.is_err() {
        obs.replies.push("DEAD".into());
        return;
    }
    let timeout = async_io::Timer::after(Duration::from_secs(5));
    futures_util::pin_mut!(timeout);
    loop {
        let next = stream.next();
        futures_util::pin_mut!(next);
        let msg = match futures_util::future::select(next, &mut timeout).await {
            futures_util::future::Either::Left((Some(Ok(m)), _)) => m,
            futures_util::future::Either::Left((_, _)) => {
                obs.replies.push("DEAD".into());
                return;
            }
            futures_util::future::Either::Right(_) => {
                obs.replies.push("HANG".into());
                return;
            }
        };
        let h = msg.header();
        match h.message_type() {
            zbus::message::Type::MethodReturn | zbus::message::Type::Error => {
                if h.reply_serial() == Some(pserial) {
                    return;
                }
                let mine = serial.map(|s| h.reply_serial().map(|r| r.get()) == Some(s)).unwrap_or(false);
                let (sig, vals) = body_vals(&msg);
                let t = if h.message_type() == zbus::message::Type::Error {
                    let name = h.error_name().map(|n| rt::short_err_name(n.as_str())).unwrap_or("?".into());
                    let m = match vals.first() {
                        Some(Val::S(s)) => rt::hex(s.as_bytes()),
                        _ => "-".into(),
                    };
                    format!("E{name}={m}")
                } else {
                    format!("R{}={}", sig, rt::toks(&vals))
                };
                obs.replies.push(if mine { t } else { format!("STRAY:{t}") });
            }
            zbus::message::Type::Signal => {
                let (sig, vals) = body_vals(&msg);
                if let Some(Val::P(m)) = vals.get(1) {
                    if m.contains_key("ZvSync") {
                        continue; // the driver's own synchronisation sentinel
                    }
                }
                obs.signals.push(format!(
                    "{}@{}/{}({}={})",
                    h.member().map(|m| m.to_string()).unwrap_or_default(),
                    h.path().map(|m| m.to_string()).unwrap_or_default(),
                    h.interface().map(|m| m.to_string()).unwrap_or_default(),
                    sig,
                    rt::toks(&vals)
                ));
            }
            _ => {}
        }
    }
}

fn finish(result: String, obs: Obs) -> String {
    let log = rt::take_log();
    format!("{}|{}|{}", result, log.join("&"), obs.signals.join("&"))
}

async fn op_call(client: &Connection, stream: &mut MessageStream, w: &[&str]) -> Option<String> {
    let opt = |s: &'_ str| if s == "-" { None } else { Some(s.to_string()) };
    let (path, iface, member) = (opt(w[1]), opt(w[2]), opt(w[3]));
    let noreply = match w[4] {
        "n" => true,
        "-" => false,
        _ => return None,
    };
    let args = parse_args(w[5])?;
    let msg = build_call(path.as_deref(), iface.as_deref(), member.as_deref(), noreply, &args).ok()?;
    let serial = msg.primary_header().serial_num().get();
    let mut obs = Obs { replies: vec![], signals: vec![] };
    if client.send(&msg).await.is_err() {
        return Some(finish("DEAD".into(), obs));
    }
    drain(client, stream, Some(serial), &mut obs).await;
    drain(client, stream, Some(serial), &mut obs).await;
    let r = if obs.replies.is_empty() { "N".to_string() } else { obs.replies.join("&") };
    Some(finish(r, obs))
}

// ---------------------------------------------------------------- introspection

fn canon_iface(i: &zbus_xml::Interface<'_>) -> String {
    let arg = |a: &zbus_xml::Arg| format!("{}={}", a.name().unwrap_or("-"), a.ty().to_string());
    let ms: Vec<String> = i
        .methods()
        .iter()
        .map(|m| {
            let ins: Vec<String> = m
                .args()
                .iter()
                .filter(|a| a.direction() == Some(zbus_xml::ArgDirection::In))
                .map(arg)
                .collect();
            let outs: Vec<String> = m
                .args()
                .iter()
                .filter(|a| a.direction() != Some(zbus_xml::ArgDirection::In))
                .map(arg)
                .collect();
            format!("{}({}>{})", m.name(), ins.join(","), outs.join(","))
        })
        .collect();
    let ss: Vec<String> = i
        .signals()
        .iter()
        .map(|m| format!("{}({})", m.name(), m.args().iter().map(arg).collect::<Vec<_>>().join(",")))
        .collect();
    let ps: Vec<String> = i
        .properties()
        .iter()
        .map(|p| {
            let acc = match p.access() {
                zbus_xml::PropertyAccess::Read => "r",
                zbus_xml::PropertyAccess::Write => "w",
                zbus_xml::PropertyAccess::ReadWrite => "rw",
            };
            let em = p
                .annotations()
                .iter()
                .find(|a| a.name() == "org.freedesktop.DBus.Property.EmitsChangedSignal")
                .map(|a| a.value().to_string())
                .unwrap_or("true".into());
            format!("{}={}/{}/{}", p.name(), p.ty().to_string(), acc, em)
        })
        .collect();
    format!("{}:M{}:S{}:P{}", i.name(), ms.join("+"), ss.join("+"), ps.join("+"))
}

fn canon_node(n: &zbus_xml::Node<'_>) -> String {
    let mut ifs: Vec<String> = n.interfaces().iter().map(canon_iface).collect();
    ifs.sort();
    let mut ch: Vec<(String, String)> =
        n.nodes().iter().map(|c| (c.name().unwrap_or("?").to_string(), canon_node(c))).collect();
    ch.sort();
    let ch: Vec<String> = ch.into_iter().map(|(k, v)| format!("{k}{v}")).collect();
    format!("[{}]{{{}}}", ifs.join("~"), ch.join("~"))
}

/// the text of every `<interface name="org.zv.…">` … `</interface>` block (lines, with their indentation)
fn fragments(xml: &str) -> Vec<String> {
    let mut out = Vec::new();
    let mut cur: Option<String> = None;
    for line in xml.split_inclusive('\n') {
        let t = line.trim_start();
        if cur.is_none() && t.starts_with("<interface name=\"org.zv.") {
            cur = Some(String::new());
        }
        if let Some(c) = cur.as_mut() {
            c.push_str(line);
            if t.starts_with("</interface>") {
                out.push(rt::hex(cur.take().unwrap().as_bytes()));
            }
        }
    }
    if let Some(c) = cur {
        out.push(format!("UNTERMINATED{}", rt::hex(c.as_bytes())));
    }
    out.sort();
    out
}

async fn op_introspect(client: &Connection, stream: &mut MessageStream, w: &[&str]) -> Option<String> {
    let msg = build_call(Some(w[1]), Some("org.freedesktop.DBus.Introspectable"), Some("Introspect"), false, &[]).ok()?;
    let serial = msg.primary_header().serial_num();
    if client.send(&msg).await.is_err() {
        return Some("DEAD||".into());
    }
    // find the reply ourselves (its body is not a menu value)
    let mut xml: Option<Result<String, String>> = None;
    let timeout = async_io::Timer::after(Duration::from_secs(5));
    futures_util::pin_mut!(timeout);
    loop {
        let next = stream.next();
        futures_util::pin_mut!(next);
        match futures_util::future::select(next, &mut timeout).await {
            futures_util::future::Either::Left((Some(Ok(m)), _)) => {
                let h = m.header();
                if h.reply_serial() == Some(serial) {
                    xml = Some(if h.message_type() == zbus::message::Type::Error {
                        Err(h.error_name().map(|n| rt::short_err_name(n.as_str())).unwrap_or("?".into()))
                    } else {
                        m.body().deserialize::<String>().map_err(|_| "BADBODY".to_string())
                    });
                    break;
                }
            }
            _ => break,
        }
    }
    let mut obs = Obs { replies: vec![], signals: vec![] };
    drain(client, stream, None, &mut obs).await;
    let r = match xml {
        None => "HANG||".to_string(),
        Some(Err(e)) => format!("E{e}=*||"),
        Some(Ok(x)) => {
            let z = match zbus_xml::Node::try_from(x.as_str()) {
                Ok(n) => canon_node(&n),
                Err(_) => "BADXML".into(),
            };
            format!("I{}|{}|X{}", z, fragments(&x).join("."), rt::hex(x.as_bytes()))
        }
    };
    Some(finish(r, obs))
}

// ---------------------------------------------------------------- proxies

fn parse_pop(kind: &str, w: &[&str]) -> Option<POp> {
    match kind {
        "pm" if w.len() == 5 => Some(POp::Method { name: w[3].to_string(), args: parse_args(w[4])? }),
        "pg" if w.len() == 4 => Some(POp::Get { name: w[3].to_string() }),
        "ps" if w.len() == 5 => Some(POp::Set { name: w[3].to_string(), val: Val::parse(w[4])? }),
        _ => None,
    }
}

struct Slot {
    name: String,
    any: Box<dyn std::any::Any + Send + Sync>,
    blocking: bool,
    cached: bool,
    path: String,
    /// a read went through this proxy: its cache (if any) has been initialised
    inited: bool,
}

/// Make every initialised property cache catch up with the signals sent so far.
fn sync_slots(idx: usize, iface: &str, server: &Connection, slots: &[Slot], counter: &mut u32) -> bool {
    let mut ok = true;
    for s in slots.iter().filter(|s| s.cached && s.inited) {
        *counter += 1;
        let n = *counter;
        let sent: zbus::Result<()> = block_on(async {
            let em = zbus::object_server::SignalEmitter::new(server, s.path.clone())?;
            let mut changed = std::collections::HashMap::new();
            changed.insert("ZvSync", zvariant::Value::U32(n));
            zbus::fdo::Properties::properties_changed(&em, iface.try_into()?, changed, std::borrow::Cow::Borrowed(&[])).await
        });
        if sent.is_err() {
            ok = false;
            continue;
        }
        let t0 = std::time::Instant::now();
        loop {
            let seen = if s.blocking {
                gen_ifaces::slot_sync_blocking(idx, s.any.as_ref())
            } else {
                gen_ifaces::slot_sync_async(idx, s.any.as_ref())
            };
            if seen == Some(n) {
                break;
            }
            if t0.elapsed() > Duration::from_secs(5) {
                ok = false;
                break;
            }
            std::thread::sleep(Duration::from_micros(200));
        }
    }
    ok
}

fn run_case(line: &str) -> String {
    let words: Vec<&str> = line.split(' ').filter(|w| !w.is_empty()).collect();
    if words.len() < 3 || !["26", "27", "28", "33"].contains(&words[0]) {
        return "BADCASE".into();
    }
    let idx = match gen_ifaces::DESCS.iter().position(|d| *d == words[1]) {
        Some(i) => i,
        None => return "BADCASE".into(),
    };
    let other = match gen_ifaces::DESCS.iter().position(|d| d.starts_with("Other/")) {
        Some(i) => i,
        None => return "BADCASE".into(),
    };
    let layout = match words[2].strip_prefix('L') {
        Some(l) => l,
        None => return "BADCASE".into(),
    };
    let mut regs = Vec::new();
    if !layout.is_empty() {
        for e in layout.split(',') {
            match e.split_once('=') {
                Some((p, "D")) if zvariant::ObjectPath::try_from(p).is_ok() => regs.push((p.to_string(), idx)),
                Some((p, "O")) if zvariant::ObjectPath::try_from(p).is_ok() => regs.push((p.to_string(), other)),
                _ => return "BADCASE".into(),
            }
        }
    }
    let (server, client) = match pair() {
        Ok(x) => x,
        Err(_) => return "NOCONN".into(),
    };
    rt::take_log();
    let setup: zbus::Result<()> = block_on(async {
        let os = server.object_server();
        for (p, i) in &regs {
            gen_ifaces::register(*i, os, p).await?;
        }
        Ok(())
    });
    if setup.is_err() {
        return "BADCASE".into();
    }
    let mut stream = MessageStream::from(&client);
    // `object_server()` spawns the dispatch task; a call that arrives before that task has subscribed is
    // silently dropped, so ping (with a local timeout) until one is answered, then flush.
    let ready = block_on(async {
        for _ in 0..500 {
            let ping = zbus::message::Message::method_call("/", "Ping")
                .unwrap()
                .destination(SRV_NAME)
                .unwrap()
                .interface(PEER)
                .unwrap()
                .build(&())
                .unwrap();
            if client.send(&ping).await.is_err() {
                return false;
            }
            let t = async_io::Timer::after(Duration::from_millis(10));
            let n = stream.next();
            futures_util::pin_mut!(n);
            if let futures_util::future::Either::Left((Some(Ok(_)), _)) = futures_util::future::select(n, t).await {
                let mut obs = Obs { replies: vec![], signals: vec![] };
                drain(&client, &mut stream, None, &mut obs).await;
                return true;
            }
        }
        false
    });
    if !ready {
        return "NOCONN".into();
    }
    rt::take_log();
    let bclient = zbus::blocking::Connection::from(client.clone());
    let mut out = Vec::new();
    let iface_name = format!("org.zv.{}", words[1].split('/').next().unwrap_or(""));
    let mut slots: Vec<Slot> = Vec::new();
    let mut sync_counter: u32 = 0;
    for w in &words[3..] {
        let f: Vec<&str> = w.split(':').collect();
        let r: Option<String> = match f[0] {
            "c" if f.len() == 6 => block_on(op_call(&client, &mut stream, &f)),
            "i" if f.len() == 2 => block_on(op_introspect(&client, &mut stream, &f)),
            "pm" | "pg" | "ps" if f.len() >= 4 => match (parse_pop(f[0], &f), f[1]) {
                (Some(op), "a") => block_on(async {
                    let r = gen_ifaces::proxy_async(idx, &client, f[2], &op).await?;
                    let mut obs = Obs { replies: vec![], signals: vec![] };
                    drain(&client, &mut stream, None, &mut obs).await;
                    Some(finish(r, obs))
                }),
                (Some(op), "b") => {
                    let (bc, p) = (bclient.clone(), f[2].to_string());
                    let r = with_watchdog(move || gen_ifaces::proxy_blocking(idx, &bc, &p, &op).unwrap_or("BADCASE".into()));
                    if r == "BADCASE" {
                        None
                    } else {
                        block_on(async {
                            let mut obs = Obs { replies: vec![], signals: vec![] };
                            drain(&client, &mut stream, None, &mut obs).await;
                            Some(finish(r, obs))
                        })
                    }
                }
                _ => None,
            },
            "sg" if f.len() == 5 => match (parse_args(f[4]), f[1]) {
                (Some(args), "a") => block_on(async {
                    let r = gen_ifaces::signal_async(idx, &client, &server, f[2], f[3], &args).await?;
                    let mut obs = Obs { replies: vec![], signals: vec![] };
                    drain(&client, &mut stream, None, &mut obs).await;
                    Some(finish(r, obs))
                }),
                (Some(args), "b") => {
                    match gen_ifaces::signal_blocking(idx, &bclient, &server, f[2], f[3], &args) {
                        Some(r) => block_on(async {
                            let mut obs = Obs { replies: vec![], signals: vec![] };
                            drain(&client, &mut stream, None, &mut obs).await;
                            Some(finish(r, obs))
                        }),
                        None => None,
                    }
                }
                _ => None,
            },
            "pn" if f.len() == 5 && !slots.iter().any(|s| s.name == f[1]) && (f[3] == "c" || f[3] == "n") => {
                let cached = f[3] == "c";
                let made = match f[2] {
                    "a" => block_on(gen_ifaces::slot_new_async(idx, &client, f[4], cached)),
                    "b" => {
                        let (bc, p) = (bclient.clone(), f[4].to_string());
                        let (tx, rx) = std::sync::mpsc::channel();
                        std::thread::spawn(move || {
                            let _ = tx.send(gen_ifaces::slot_new_blocking(idx, &bc, &p, cached));
                        });
                        rx.recv_timeout(Duration::from_secs(5)).unwrap_or(Some(Err("T".into())))
                    }
                    _ => None,
                };
                match made {
                    Some(Ok(any)) => {
                        slots.push(Slot { name: f[1].to_string(), any, blocking: f[2] == "b", cached, path: f[4].to_string(), inited: false });
                        Some("O||".to_string())
                    }
                    Some(Err(e)) => Some(format!("{e}||")),
                    None => None,
                }
            }
            "qg" | "qs" if f.len() >= 3 => {
                let op = match (f[0], f.len()) {
                    ("qg", 3) => Some(POp::Get { name: f[2].to_string() }),
                    ("qs", 4) => Val::parse(f[3]).map(|val| POp::Set { name: f[2].to_string(), val }),
                    _ => None,
                };
                match (op, slots.iter().position(|s| s.name == f[1])) {
                    (Some(op), Some(k)) => {
                        let r = if slots[k].blocking {
                            // the proxy stays in its slot: run the blocking call on a scoped helper thread with a watchdog
                            let slot_any: &(dyn std::any::Any + Send + Sync) = slots[k].any.as_ref();
                            std::thread::scope(|sc| {
                                let (tx, rx) = std::sync::mpsc::channel();
                                sc.spawn(move || {
                                    let _ = tx.send(gen_ifaces::slot_op_blocking(idx, slot_any, &op));
                                });
                                rx.recv_timeout(Duration::from_secs(20)).unwrap_or(Some("T".into()))
                            })
                        } else {
                            block_on(gen_ifaces::slot_op_async(idx, slots[k].any.as_ref(), &op))
                        };
                        if f[0] == "qg" {
                            slots[k].inited = true;
                        }
                        match r {
                            Some(r) => block_on(async {
                                let mut obs = Obs { replies: vec![], signals: vec![] };
                                drain(&client, &mut stream, None, &mut obs).await;
                                Some(finish(r, obs))
                            }),
                            None => None,
                        }
                    }
                    _ => None,
                }
            }
            _ => None,
        };
        match r {
            Some(mut s) => {
                if !sync_slots(idx, &iface_name, &server, &slots, &mut sync_counter) {
                    s.push_str("!SYNCFAIL");
                }
                out.push(s)
            }
            None => return "BADCASE".into(),
        }
    }
    out.join(";")
}

fn main() {
    hcommon::run(run_case);
}
