//! hconn — connection-level harness for C14 (framing), C15 (serial numbers), C18 (sends never interleave).
//!
//! One case per stdin line, first token selects the mode:
//!   F <d|c> <cut> <script> <unit>*          C14: units `<hex>:<nfds>` form the byte stream, fds ride on the first
//!                                           byte of their unit; `script` = comma list of recvmsg answers
//!                                           (`<k>` bytes | `E` eof | `X` io error | `-` none; exhausted => full reads)
//!        d = call the real `ReadHalf::receive_message` in a loop with explicit leftovers (first `cut` stream bytes)
//!        c = real client handshake over the scripted socket (leftovers = what arrived with the last handshake
//!            line), real `SocketReader`, messages observed through a `MessageStream`
//!   S seq <n> | S thr <t> <n> | S burn <target> | S hdr <n> | S clone     C15
//!   W <seed> <wscript> <task>*              C18: task = `<body-len>[f<k>]` items joined by `,`
//! Nothing here decides anything: the observation is printed and judged by the extracted Coq model/spec.
use std::{
    collections::VecDeque,
    future::Future,
    io,
    os::fd::{AsFd, BorrowedFd, OwnedFd},
    os::unix::fs::MetadataExt,
    pin::Pin,
    sync::{Arc, Mutex},
    task::{Context, Poll, Wake, Waker},
};

use futures_core::Stream;
use zbus::connection::socket::{ReadHalf, Socket, Split, WriteHalf};

// ------------------------------------------------------------------ tiny deterministic driver
struct Noop;
impl Wake for Noop {
    fn wake(self: Arc<Self>) {}
}
fn noop_waker() -> Waker {
    Waker::from(Arc::new(Noop))
}
fn poll_once<F: Future + ?Sized>(f: Pin<&mut F>) -> Poll<F::Output> {
    let w = noop_waker();
    let mut cx = Context::from_waker(&w);
    f.poll(&mut cx)
}
/// Busy-poll a future to completion (everything it waits for is scripted and immediately ready).
fn spin<F: Future>(f: F) -> Result<F::Output, &'static str> {
    let mut f = Box::pin(f);
    for _ in 0..2_000_000u32 {
        if let Poll::Ready(v) = poll_once(f.as_mut()) {
            return Ok(v);
        }
    }
    Err("HANG")
}

fn fnv64(b: &[u8]) -> u64 {
    let mut h: u64 = 0xcbf29ce484222325;
    for x in b {
        h ^= *x as u64;
        h = h.wrapping_mul(0x100000001b3);
    }
    h
}

fn ident(fd: BorrowedFd<'_>) -> (u64, u64) {
    let f = std::fs::File::from(fd.try_clone_to_owned().expect("dup"));
    let m = f.metadata().expect("fstat");
    (m.dev(), m.ino())
}

/// A fresh descriptor with an identity of its own (one end of a socket pair; sockfs gives it its own inode).
fn fresh_fd() -> OwnedFd {
    let (a, _b) = std::os::unix::net::UnixStream::pair().expect("socketpair");
    OwnedFd::from(a)
}

fn err_class(e: &zbus::Error) -> &'static str {
    match e {
        zbus::Error::InputOutput(_) => "io",
        zbus::Error::IncorrectEndian => "endian",
        zbus::Error::ExcessData => "excess",
        zbus::Error::MissingParameter(_) => "missing",
        zbus::Error::Variant(_) => "variant",
        zbus::Error::Handshake(_) => "handshake",
        zbus::Error::Unsupported => "unsupported",
        _ => "other",
    }
}

// ------------------------------------------------------------------ scripted read half (C14)
#[derive(Clone, Copy, Debug)]
enum Ans {
    Bytes(u64),
    Eof,
    IoErr,
}

#[derive(Debug, Default)]
struct RState {
    stream: Vec<u8>,
    /// (offset of the byte the fds ride on, fds) — taken when that byte is delivered
    fds: Vec<(usize, Vec<OwnedFd>)>,
    pos: usize,
    script: VecDeque<Ans>,
    calls: usize,
    /// handshake replies still to be served (conn mode); the last one is followed by `cut` stream bytes
    prelude: VecDeque<Vec<u8>>,
    cut: usize,
}

impl RState {
    fn take(&mut self, n: usize, out: &mut Vec<u8>, ofds: &mut Vec<OwnedFd>) {
        let end = self.pos + n;
        out.extend_from_slice(&self.stream[self.pos..end]);
        let mut keep = vec![];
        for (off, f) in self.fds.drain(..) {
            if off >= self.pos && off < end {
                ofds.extend(f);
            } else {
                keep.push((off, f));
            }
        }
        self.fds = keep;
        self.pos = end;
    }
}

#[derive(Debug)]
struct ScriptRead(Arc<Mutex<RState>>);

#[async_trait::async_trait]
impl ReadHalf for ScriptRead {
    async fn recvmsg(&mut self, buf: &mut [u8]) -> io::Result<(usize, Vec<OwnedFd>)> {
        let mut st = self.0.lock().unwrap();
        let mut out = vec![];
        let mut ofds = vec![];
        if let Some(p) = st.prelude.pop_front() {
            out.extend_from_slice(&p);
            if st.prelude.is_empty() {
                let cut = st.cut;
                st.take(cut, &mut out, &mut ofds);
            }
            assert!(out.len() <= buf.len(), "handshake read does not fit");
            buf[..out.len()].copy_from_slice(&out);
            return Ok((out.len(), ofds));
        }
        st.calls += 1;
        let ans = st.script.pop_front().unwrap_or(Ans::Bytes(u64::MAX));
        match ans {
            Ans::IoErr => Err(io::Error::new(io::ErrorKind::Other, "scripted")),
            Ans::Eof => Ok((0, vec![])),
            Ans::Bytes(k) => {
                let remaining = st.stream.len() - st.pos;
                let n = (k.max(1).min(buf.len() as u64) as usize).min(remaining);
                st.take(n, &mut out, &mut ofds);
                buf[..n].copy_from_slice(&out);
                Ok((n, ofds))
            }
        }
    }
    fn can_pass_unix_fd(&self) -> bool {
        true
    }
}

/// Write half used by the C14 conn mode: swallows the client's handshake lines.
#[derive(Debug)]
struct SinkWrite;
#[async_trait::async_trait]
impl WriteHalf for SinkWrite {
    async fn sendmsg(&mut self, buf: &[u8], _fds: &[BorrowedFd<'_>]) -> io::Result<usize> {
        Ok(buf.len())
    }
    async fn close(&mut self) -> io::Result<()> {
        Ok(())
    }
    fn can_pass_unix_fd(&self) -> bool {
        true
    }
}

struct FrameSock(ScriptRead);
impl Socket for FrameSock {
    type ReadHalf = ScriptRead;
    type WriteHalf = SinkWrite;
    fn split(self) -> Split<ScriptRead, SinkWrite> {
        Split::new(self.0, SinkWrite)
    }
}

const GUID: &str = "0123456789abcdef0123456789abcdef";

fn parse_script(s: &str) -> Option<VecDeque<Ans>> {
    let mut v = VecDeque::new();
    if s == "-" {
        return Some(v);
    }
    for t in s.split(',') {
        v.push_back(match t {
            "E" => Ans::Eof,
            "X" => Ans::IoErr,
            _ => Ans::Bytes(t.parse().ok()?),
        });
    }
    Some(v)
}

fn seq_of(m: &zbus::Message) -> String {
    // `Sequence` has no numeric accessor; its Debug form is `Sequence { recv_seq: N }`.
    let d = format!("{:?}", m.recv_position());
    d.chars().filter(|c| c.is_ascii_digit()).collect()
}

fn msg_token(m: &zbus::Message, ids: &[(u64, u64)]) -> String {
    let data = m.data();
    let b = data.bytes();
    let mut fdtok: Vec<String> = vec![];
    for f in data.fds() {
        let id = ident(f.as_fd());
        fdtok.push(match ids.iter().position(|x| *x == id) {
            Some(i) => i.to_string(),
            None => "?".into(),
        });
    }
    format!(
        "OK:{}:{}:{:016x}:{}",
        seq_of(m),
        b.len(),
        fnv64(b),
        if fdtok.is_empty() { "-".to_string() } else { fdtok.join(".") }
    )
}

fn frame(w: &[&str]) -> String {
    if w.len() < 4 {
        return "BADCASE".into();
    }
    let mode = w[1];
    let cut: usize = match w[2].parse() {
        Ok(c) => c,
        Err(_) => return "BADCASE".into(),
    };
    let script = match parse_script(w[3]) {
        Some(s) => s,
        None => return "BADCASE".into(),
    };
    let mut st = RState { script, ..Default::default() };
    let mut ids: Vec<(u64, u64)> = vec![];
    for u in &w[4..] {
        let (h, k) = match u.split_once(':') {
            Some(x) => x,
            None => return "BADCASE".into(),
        };
        let (b, k) = match (hcommon::unhex(h), k.parse::<usize>()) {
            (Some(b), Ok(k)) => (b, k),
            _ => return "BADCASE".into(),
        };
        if k > 0 && !b.is_empty() {
            let mut v = vec![];
            for _ in 0..k {
                let f = fresh_fd();
                ids.push(ident(f.as_fd()));
                v.push(f);
            }
            st.fds.push((st.stream.len(), v));
        }
        st.stream.extend_from_slice(&b);
    }
    if cut > st.stream.len() {
        return "BADCASE".into();
    }
    let mut toks: Vec<String> = vec![];
    let shared;
    match mode {
        "d" => {
            let mut arb = vec![];
            let mut arfds = vec![];
            st.take(cut, &mut arb, &mut arfds);
            shared = Arc::new(Mutex::new(st));
            let mut rh = ScriptRead(shared.clone());
            let mut prev: u64 = 0;
            loop {
                let seq = prev + 1;
                match spin(rh.receive_message(seq, &mut arb, &mut arfds)) {
                    Err(h) => {
                        toks.push(h.into());
                        break;
                    }
                    Ok(Ok(m)) => {
                        toks.push(msg_token(&m, &ids));
                        prev = seq;
                    }
                    Ok(Err(e)) => {
                        toks.push(format!("ERR:{}", err_class(&e)));
                        break;
                    }
                }
            }
        }
        "c" => {
            if cut > 1000 {
                return "BADCASE".into();
            }
            st.cut = cut;
            st.prelude.push_back(format!("OK {}\r\n", GUID).into_bytes());
            st.prelude.push_back(b"AGREE_UNIX_FD\r\n".to_vec());
            shared = Arc::new(Mutex::new(st));
            let sock = FrameSock(ScriptRead(shared.clone()));
            let conn = match spin(
                zbus::connection::Builder::socket(sock)
                    .p2p()
                    .internal_executor(false)
                    .build(),
            ) {
                Err(h) => return h.into(),
                Ok(Err(e)) => return format!("BUILD-ERR:{}", err_class(&e)),
                Ok(Ok(c)) => c,
            };
            let mut stream = zbus::MessageStream::from(&conn);
            let mut idle = 0;
            'outer: loop {
                loop {
                    let w = noop_waker();
                    let mut cx = Context::from_waker(&w);
                    match Pin::new(&mut stream).poll_next(&mut cx) {
                        Poll::Ready(Some(Ok(m))) => toks.push(msg_token(&m, &ids)),
                        Poll::Ready(Some(Err(e))) => {
                            toks.push(format!("ERR:{}", err_class(&e)));
                            break 'outer;
                        }
                        Poll::Ready(None) => {
                            toks.push("END".into());
                            break 'outer;
                        }
                        Poll::Pending => break,
                    }
                }
                let ex = conn.executor();
                let mut t = Box::pin(ex.tick());
                if poll_once(t.as_mut()).is_pending() {
                    idle += 1;
                    if idle > 1000 {
                        toks.push("HANG".into());
                        break;
                    }
                } else {
                    idle = 0;
                }
            }
        }
        _ => return "BADCASE".into(),
    }
    let st = shared.lock().unwrap();
    format!("{};calls={};pos={}", toks.join(","), st.calls, st.pos)
}

fn main() {
    hcommon::run(|line| {
        let w: Vec<&str> = line.split(' ').filter(|x| !x.is_empty()).collect();
        match w.first().copied() {
            Some("F") => frame(&w),
            _ => "BADCASE".into(),
        }
    });
}
