//! hconn — connection-level harness for C14 (framing), C15 (serial numbers), C18 (sends never interleave).
//!
//! One case per stdin line, first token selects the mode:
//!   F <d|c> <cut> <script> <unit>*          C14: units `<hex>:<nfds>` form the byte stream, fds ride on the first
//!                                           byte of their unit; `script` = comma list of recvmsg answers
//!                                           (`<k>` bytes | `E` eof | `X` io error | `-` none; exhausted => full reads)
//!        d = call the real `ReadHalf::receive_message` in a loop with explicit leftovers (first `cut` stream bytes)
//!        c = real client handshake over the scripted socket (leftovers = what arrived with the last handshake
//!            line), real `SocketReader`, messages observed through a `MessageStream`
//!   S seq <n> | S thr <t> <n> | S burn <target> | S hdr <n> | S clone     C15
//!   W <seed> <wscript> <task>*              C18: task = `<body-len>[f<k>]` items joined by `,`
//! Nothing here decides anything: the observation is printed and judged by the extracted Coq model/spec.
use std::{
    collections::VecDeque,
    future::Future,
    io,
    os::fd::{AsFd, BorrowedFd, OwnedFd},
    os::unix::fs::MetadataExt,
    pin::Pin,
    sync::{Arc, Mutex},
    task::{Context, Poll, Wake, Waker},
};

use futures_core::Stream;
use zbus::connection::socket::{ReadHalf, Socket, Split, WriteHalf};

// ------------------------------------------------------------------ tiny deterministic driver
struct Noop;
impl Wake for Noop {
    fn wake(self: Arc<Self>) {}
}
fn noop_waker() -> Waker {
    Waker::from(Arc::new(Noop))
}
fn poll_once<F: Future + ?Sized>(f: Pin<&mut F>) -> Poll<F::Output> {
    let w = noop_waker();
    let mut cx = Context::from_waker(&w);
    f.poll(&mut cx)
}
/// Busy-poll a future to completion (everything it waits for is scripted and immediately ready).
fn spin<F: Future>(f: F) -> Result<F::Output, &'static str> {
    let mut f = Box::pin(f);
    for _ in 0..2_000_000u32 {
        if let Poll::Ready(v) = poll_once(f.as_mut()) {
            return Ok(v);
        }
    }
    Err("HANG")
}

fn fnv64(b: &[u8]) -> u64 {
    // not FNV any more: h := 33 h ^ b from 5381 on 64 bits (cheap for the extracted Coq model to mirror)
    let mut h: u64 = 5381;
    for x in b {
        h = h.wrapping_mul(33) ^ (*x as u64);
    }
    h
}

fn ident(fd: BorrowedFd<'_>) -> (u64, u64) {
    let f = std::fs::File::from(fd.try_clone_to_owned().expect("dup"));
    let m = f.metadata().expect("fstat");
    (m.dev(), m.ino())
}

/// A fresh descriptor with an identity of its own (one end of a socket pair; sockfs gives it its own inode).
fn fresh_fd() -> OwnedFd {
    let (a, _b) = std::os::unix::net::UnixStream::pair().expect("socketpair");
    OwnedFd::from(a)
}

fn err_class(e: &zbus::Error) -> &'static str {
    match e {
        zbus::Error::InputOutput(_) => "io",
        zbus::Error::IncorrectEndian => "endian",
        zbus::Error::ExcessData => "excess",
        zbus::Error::MissingParameter(_) => "missing",
        zbus::Error::Variant(_) => "variant",
        zbus::Error::Handshake(_) => "handshake",
        zbus::Error::Unsupported => "unsupported",
        _ => "other",
    }
}

// ------------------------------------------------------------------ scripted read half (C14)
#[derive(Clone, Copy, Debug)]
enum Ans {
    Bytes(u64),
    Eof,
    IoErr,
}

#[derive(Debug, Default)]
struct RState {
    stream: Vec<u8>,
    /// (offset of the byte the fds ride on, fds) — taken when that byte is delivered
    fds: Vec<(usize, Vec<OwnedFd>)>,
    pos: usize,
    script: VecDeque<Ans>,
    calls: usize,
    /// handshake replies still to be served (conn mode); the last one is followed by `cut` stream bytes
    prelude: VecDeque<Vec<u8>>,
    cut: usize,
}

impl RState {
    fn take(&mut self, n: usize, out: &mut Vec<u8>, ofds: &mut Vec<OwnedFd>) {
        let end = self.pos + n;
        out.extend_from_slice(&self.stream[self.pos..end]);
        let mut keep = vec![];
        for (off, f) in self.fds.drain(..) {
            if off >= self.pos && off < end {
                ofds.extend(f);
            } else {
                keep.push((off, f));
            }
        }
        self.fds = keep;
        self.pos = end;
    }
}

#[derive(Debug)]
struct ScriptRead(Arc<Mutex<RState>>);

#[async_trait::async_trait]
impl ReadHalf for ScriptRead {
    async fn recvmsg(&mut self, buf: &mut [u8]) -> io::Result<(usize, Vec<OwnedFd>)> {
        let mut st = self.0.lock().unwrap();
        let mut out = vec![];
        let mut ofds = vec![];
        if let Some(p) = st.prelude.pop_front() {
            out.extend_from_slice(&p);
            if st.prelude.is_empty() {
                let cut = st.cut;
                st.take(cut, &mut out, &mut ofds);
            }
            assert!(out.len() <= buf.len(), "handshake read does not fit");
            buf[..out.len()].copy_from_slice(&out);
            return Ok((out.len(), ofds));
        }
        st.calls += 1;
        let ans = st.script.pop_front().unwrap_or(Ans::Bytes(u64::MAX));
        match ans {
            Ans::IoErr => Err(io::Error::new(io::ErrorKind::Other, "scripted")),
            Ans::Eof => Ok((0, vec![])),
            Ans::Bytes(k) => {
                let remaining = st.stream.len() - st.pos;
                let n = (k.max(1).min(buf.len() as u64) as usize).min(remaining);
                st.take(n, &mut out, &mut ofds);
                buf[..n].copy_from_slice(&out);
                Ok((n, ofds))
            }
        }
    }
    fn can_pass_unix_fd(&self) -> bool {
        true
    }
}

/// Write half used by the C14 conn mode: swallows the client's handshake lines.
#[derive(Debug)]
struct SinkWrite;
#[async_trait::async_trait]
impl WriteHalf for SinkWrite {
    async fn sendmsg(&mut self, buf: &[u8], _fds: &[BorrowedFd<'_>]) -> io::Result<usize> {
        Ok(buf.len())
    }
    async fn close(&mut self) -> io::Result<()> {
        Ok(())
    }
    fn can_pass_unix_fd(&self) -> bool {
        true
    }
}

struct FrameSock(ScriptRead);
impl Socket for FrameSock {
    type ReadHalf = ScriptRead;
    type WriteHalf = SinkWrite;
    fn split(self) -> Split<ScriptRead, SinkWrite> {
        Split::new(self.0, SinkWrite)
    }
}

const GUID: &str = "0123456789abcdef0123456789abcdef";

fn parse_script(s: &str) -> Option<VecDeque<Ans>> {
    let mut v = VecDeque::new();
    if s == "-" {
        return Some(v);
    }
    for t in s.split(',') {
        v.push_back(match t {
            "E" => Ans::Eof,
            "X" => Ans::IoErr,
            _ => Ans::Bytes(t.parse().ok()?),
        });
    }
    Some(v)
}

fn seq_of(m: &zbus::Message) -> String {
    // `Sequence` has no numeric accessor; its Debug form is `Sequence { recv_seq: N }`.
    let d = format!("{:?}", m.recv_position());
    d.chars().filter(|c| c.is_ascii_digit()).collect()
}

fn msg_token(m: &zbus::Message, ids: &[(u64, u64)]) -> String {
    let data = m.data();
    let b = data.bytes();
    let mut fdtok: Vec<String> = vec![];
    for f in data.fds() {
        let id = ident(f.as_fd());
        fdtok.push(match ids.iter().position(|x| *x == id) {
            Some(i) => i.to_string(),
            None => "?".into(),
        });
    }
    format!(
        "OK:{}:{}:{:016x}:{}",
        seq_of(m),
        b.len(),
        fnv64(b),
        if fdtok.is_empty() { "-".to_string() } else { fdtok.join(".") }
    )
}

fn frame(w: &[&str]) -> String {
    if w.len() < 4 {
        return "BADCASE".into();
    }
    let mode = w[1];
    let cut: usize = match w[2].parse() {
        Ok(c) => c,
        Err(_) => return "BADCASE".into(),
    };
    let script = match parse_script(w[3]) {
        Some(s) => s,
        None => return "BADCASE".into(),
    };
    let mut st = RState { script, ..Default::default() };
    let mut ids: Vec<(u64, u64)> = vec![];
    for u in &w[4..] {
        let (h, k) = match u.split_once(':') {
            Some(x) => x,
            None => return "BADCASE".into(),
        };
        let (b, k) = match (hcommon::unhex(h), k.parse::<usize>()) {
            (Some(b), Ok(k)) => (b, k),
            _ => return "BADCASE".into(),
        };
        if k > 0 && !b.is_empty() {
            let mut v = vec![];
            for _ in 0..k {
                let f = fresh_fd();
                ids.push(ident(f.as_fd()));
                v.push(f);
            }
            st.fds.push((st.stream.len(), v));
        }
        st.stream.extend_from_slice(&b);
    }
    if cut > st.stream.len() {
        return "BADCASE".into();
    }
    let mut toks: Vec<String> = vec![];
    let shared;
    match mode {
        "d" => {
            let mut arb = vec![];
            let mut arfds = vec![];
            st.take(cut, &mut arb, &mut arfds);
            shared = Arc::new(Mutex::new(st));
            let mut rh = ScriptRead(shared.clone());
            let mut prev: u64 = 0;
            loop {
                let seq = prev + 1;
                match spin(rh.receive_message(seq, &mut arb, &mut arfds)) {
                    Err(h) => {
                        toks.push(h.into());
                        break;
                    }
                    Ok(Ok(m)) => {
                        toks.push(msg_token(&m, &ids));
                        prev = seq;
                    }
                    Ok(Err(e)) => {
                        toks.push(format!("ERR:{}", err_class(&e)));
                        break;
                    }
                }
            }
        }
        "c" => {
            if cut > 1000 {
                return "BADCASE".into();
            }
            st.cut = cut;
            st.prelude.push_back(format!("OK {}\r\n", GUID).into_bytes());
            st.prelude.push_back(b"AGREE_UNIX_FD\r\n".to_vec());
            shared = Arc::new(Mutex::new(st));
            let sock = FrameSock(ScriptRead(shared.clone()));
            let conn = match spin(
                zbus::connection::Builder::socket(sock)
                    .p2p()
                    .internal_executor(false)
                    .build(),
            ) {
                Err(h) => return h.into(),
                Ok(Err(e)) => return format!("BUILD-ERR:{}", err_class(&e)),
                Ok(Ok(c)) => c,
            };
            let mut stream = zbus::MessageStream::from(&conn);
            let mut idle = 0;
            'outer: loop {
                loop {
                    let w = noop_waker();
                    let mut cx = Context::from_waker(&w);
                    match Pin::new(&mut stream).poll_next(&mut cx) {
                        Poll::Ready(Some(Ok(m))) => toks.push(msg_token(&m, &ids)),
                        Poll::Ready(Some(Err(e))) => {
                            toks.push(format!("ERR:{}", err_class(&e)));
                            break 'outer;
                        }
                        Poll::Ready(None) => {
                            toks.push("END".into());
                            break 'outer;
                        }
                        Poll::Pending => break,
                    }
                }
                let ex = conn.executor();
                let mut t = Box::pin(ex.tick());
                if poll_once(t.as_mut()).is_pending() {
                    idle += 1;
                    if idle > 1000 {
                        toks.push("HANG".into());
                        break;
                    }
                } else {
                    idle = 0;
                }
            }
        }
        _ => return "BADCASE".into(),
    }
    let st = shared.lock().unwrap();
    format!("{};calls={};pos={}", toks.join(","), st.calls, st.pos)
}

// ------------------------------------------------------------------ C15: serial numbers
fn serial_via(kind: &str) -> u32 {
    match kind {
        // the cheapest public entry to the counter
        "hdr" => zbus::message::PrimaryHeader::new(zbus::message::Type::Signal, 0).serial_num().get(),
        // a complete message through the builder
        _ => zbus::message::Message::method_call("/a", "M")
            .unwrap()
            .build(&())
            .unwrap()
            .primary_header()
            .serial_num()
            .get(),
    }
}

fn join_u32(v: &[u32]) -> String {
    v.iter().map(|x| x.to_string()).collect::<Vec<_>>().join(",")
}

fn serial(w: &[&str]) -> String {
    let arg = |i: usize| -> Option<u64> { w.get(i).and_then(|x| x.parse().ok()) };
    // every case starts with one probe build: afterwards the counter is probe + 1 (mod 2^32)
    match w.get(1).copied() {
        Some("seq") | Some("hdr") => {
            let n = match arg(2) {
                Some(n) => n,
                None => return "BADCASE".into(),
            };
            let kind = if w[1] == "hdr" { "hdr" } else { "msg" };
            let probe = serial_via("hdr");
            let v: Vec<u32> = (0..n).map(|_| serial_via(kind)).collect();
            format!("start={};{}", probe, join_u32(&v))
        }
        Some("thr") => {
            let (t, n) = match (arg(2), arg(3)) {
                (Some(t), Some(n)) if t >= 1 && t <= 64 => (t as usize, n as usize),
                _ => return "BADCASE".into(),
            };
            let kind: &'static str = if w.get(4).copied() == Some("msg") { "msg" } else { "hdr" };
            let probe = serial_via("hdr");
            // spin start: all threads leave the gate within nanoseconds of each other, so that they really contend
            let ready = Arc::new(std::sync::atomic::AtomicUsize::new(0));
            let hs: Vec<_> = (0..t)
                .map(|_| {
                    let r = ready.clone();
                    std::thread::spawn(move || {
                        r.fetch_add(1, std::sync::atomic::Ordering::SeqCst);
                        while r.load(std::sync::atomic::Ordering::SeqCst) < t {
                            std::hint::spin_loop();
                        }
                        let mut v = Vec::with_capacity(n);
                        for _ in 0..n {
                            v.push(serial_via(kind));
                        }
                        v
                    })
                })
                .collect();
            // per thread: first serial, then the (wrapping) difference to the previous one — a shorter line, same information
            let lists: Vec<String> = hs
                .into_iter()
                .map(|h| {
                    let v = h.join().unwrap();
                    let mut d = Vec::with_capacity(v.len());
                    for (i, x) in v.iter().enumerate() {
                        d.push(if i == 0 { *x } else { x.wrapping_sub(v[i - 1]) });
                    }
                    join_u32(&d)
                })
                .collect();
            format!("start={};{}", probe, lists.join("|"))
        }
        Some("burn") => {
            // advance the process-wide counter (no hook needed: 2^32 cheap fetches) until serial `target` is handed out
            let target = match arg(2) {
                Some(t) if t >= 1 && t <= u32::MAX as u64 => t as u32,
                _ => return "BADCASE".into(),
            };
            let probe = serial_via("hdr");
            let mut count: u64 = 0;
            let mut found = false;
            // one full cycle of the counter at most (a serial that never comes back must not hang the run)
            while count < (1u64 << 32) + 16 {
                count += 1;
                if serial_via("hdr") == target {
                    found = true;
                    break;
                }
            }
            if found {
                format!("start={};count={}", probe, count)
            } else {
                format!("start={};count=never", probe)
            }
        }
        Some("clone") => {
            let b = zbus::message::Message::method_call("/a", "M").unwrap();
            let b2 = b.clone();
            let m1 = b.build(&()).unwrap();
            let m2 = b2.build(&()).unwrap();
            format!("{},{}", m1.primary_header().serial_num().get(), m2.primary_header().serial_num().get())
        }
        _ => "BADCASE".into(),
    }
}

// ------------------------------------------------------------------ C18: concurrent sends over a scripted write half
#[derive(Debug)]
struct Call {
    task: usize,
    offered: usize,
    accepted: usize,
    fds: Vec<(u64, u64)>,
    bytes: Vec<u8>,
}

#[derive(Debug, Default)]
struct WState {
    /// answers: (slow?, number of times the call yields Pending first, max bytes accepted)
    script: VecDeque<(bool, u32, usize)>,
    calls: Vec<Call>,
    /// which sender task the harness scheduler is polling right now
    cur_task: usize,
}

/// Returns Pending `n` times (waking itself), then Ready.
struct YieldN(u32);
impl Future for YieldN {
    type Output = ();
    fn poll(mut self: Pin<&mut Self>, cx: &mut Context<'_>) -> Poll<()> {
        if self.0 == 0 {
            Poll::Ready(())
        } else {
            self.0 -= 1;
            cx.waker().wake_by_ref();
            Poll::Pending
        }
    }
}

#[derive(Debug)]
struct ScriptWrite(Arc<Mutex<WState>>);

#[async_trait::async_trait]
impl WriteHalf for ScriptWrite {
    async fn sendmsg(&mut self, buf: &[u8], fds: &[BorrowedFd<'_>]) -> io::Result<usize> {
        let (slow, yields, max) = {
            let mut st = self.0.lock().unwrap();
            st.script.pop_front().unwrap_or((false, 0, usize::MAX))
        };
        let ids: Vec<(u64, u64)> = fds.iter().map(|f| ident(*f)).collect();
        if slow {
            // a transport that stays busy for a while: the tasks waiting for the writer mutex get polled before and
            // after a 12 ms pause, i.e. they have been waiting 24x longer than async_lock's 0.5 ms starvation threshold
            // and are entitled to the mutex as soon as it is released
            YieldN(4).await;
            std::thread::sleep(std::time::Duration::from_millis(12));
            YieldN(4).await;
        }
        // the transport is not ready: other tasks get to run while this call is suspended
        YieldN(yields).await;
        let n = max.max(1).min(buf.len());
        let mut st = self.0.lock().unwrap();
        let task = st.cur_task;
        st.calls.push(Call { task, offered: buf.len(), accepted: n, fds: ids, bytes: buf[..n].to_vec() });
        Ok(n)
    }
    async fn close(&mut self) -> io::Result<()> {
        Ok(())
    }
    fn can_pass_unix_fd(&self) -> bool {
        true
    }
}

/// Read half that never delivers anything (the socket reader task is never ticked in W mode anyway).
#[derive(Debug)]
struct SilentRead;
#[async_trait::async_trait]
impl ReadHalf for SilentRead {
    async fn recvmsg(&mut self, _buf: &mut [u8]) -> io::Result<(usize, Vec<OwnedFd>)> {
        std::future::pending::<()>().await;
        unreachable!()
    }
    fn can_pass_unix_fd(&self) -> bool {
        true
    }
}

struct SendSock(ScriptWrite);
impl Socket for SendSock {
    type ReadHalf = SilentRead;
    type WriteHalf = ScriptWrite;
    fn split(self) -> Split<SilentRead, ScriptWrite> {
        Split::new(SilentRead, self.0)
    }
}

struct Lcg(u64);
impl Lcg {
    fn next(&mut self, n: usize) -> usize {
        self.0 = self.0.wrapping_mul(6364136223846793005).wrapping_add(1442695040888963407);
        ((self.0 >> 33) as usize) % n
    }
}

fn fdtok(ids: &[(u64, u64)], all: &[(u64, u64)]) -> String {
    if ids.is_empty() {
        return "-".into();
    }
    ids.iter()
        .map(|id| match all.iter().position(|x| x == id) {
            Some(i) => i.to_string(),
            None => "?".into(),
        })
        .collect::<Vec<_>>()
        .join(".")
}

fn wire(w: &[&str]) -> String {
    if w.len() < 4 {
        return "BADCASE".into();
    }
    let seed: u64 = match w[1].parse() {
        Ok(s) => s,
        Err(_) => return "BADCASE".into(),
    };
    let mut script = VecDeque::new();
    if w[2] != "-" {
        for t in w[2].split(',') {
            let slow = t.starts_with('s');
            let t = if slow { &t[1..] } else { t };
            let y = t.chars().take_while(|c| *c == 'p').count();
            match t[y..].parse::<usize>() {
                Ok(n) => script.push_back((slow, y as u32, n)),
                Err(_) => return "BADCASE".into(),
            }
        }
    }
    // build the programs: task i sends its messages one after the other
    let mut all_ids: Vec<(u64, u64)> = vec![];
    let mut keep: Vec<OwnedFd> = vec![];
    let mut progs: Vec<Vec<zbus::Message>> = vec![];
    for (ti, t) in w[3..].iter().enumerate() {
        let mut prog = vec![];
        if *t != "-" {
            for (mi, d) in t.split(',').enumerate() {
                let (len, k) = match d.split_once('f') {
                    Some((a, b)) => (a.parse::<usize>(), b.parse::<usize>()),
                    None => (d.parse::<usize>(), Ok(0)),
                };
                let (len, k) = match (len, k) {
                    (Ok(a), Ok(b)) => (a, b),
                    _ => return "BADCASE".into(),
                };
                let body: Vec<u8> = (0..len).map(|x| (x * 7 + ti * 31 + mi * 3) as u8).collect();
                let mut fds: Vec<zvariant::Fd<'_>> = vec![];
                for _ in 0..k {
                    let f = fresh_fd();
                    all_ids.push(ident(f.as_fd()));
                    fds.push(zvariant::Fd::from(f.try_clone().expect("dup")));
                    keep.push(f);
                }
                let b = zbus::message::Message::signal(format!("/t{}", ti), "v.I", format!("M{}", mi)).unwrap();
                let m = if k == 0 { b.build(&(body,)) } else { b.build(&(body, fds)) };
                match m {
                    Ok(m) => prog.push(m),
                    Err(_) => return "BUILD-ERR".into(),
                }
            }
        }
        progs.push(prog);
    }
    let shared = Arc::new(Mutex::new(WState { script, ..Default::default() }));
    let sock = SendSock(ScriptWrite(shared.clone()));
    let conn = match spin(
        zbus::connection::Builder::authenticated_socket(sock, GUID)
            .unwrap()
            .p2p()
            .internal_executor(false)
            .build(),
    ) {
        Ok(Ok(c)) => c,
        Ok(Err(e)) => return format!("BUILD-ERR:{}", err_class(&e)),
        Err(h) => return h.into(),
    };
    // one future per task, polled in a seeded random order
    let mut futs: Vec<Option<Pin<Box<dyn Future<Output = zbus::Result<()>>>>>> = vec![];
    for prog in &progs {
        let c = conn.clone();
        let msgs: Vec<zbus::Message> = prog.clone();
        futs.push(Some(Box::pin(async move {
            for m in &msgs {
                c.send(m).await?;
            }
            Ok(())
        })));
    }
    let mut rng = Lcg(seed.wrapping_mul(2654435761).wrapping_add(12345));
    let mut live: Vec<usize> = (0..futs.len()).collect();
    let mut errors = vec![];
    let mut polls: u64 = 0;
    while !live.is_empty() {
        polls += 1;
        if polls > 5_000_000 {
            errors.push("HANG".to_string());
            break;
        }
        let k = rng.next(live.len());
        let i = live[k];
        shared.lock().unwrap().cur_task = i;
        let done = match futs[i].as_mut() {
            Some(f) => match poll_once(f.as_mut()) {
                Poll::Ready(r) => {
                    if let Err(e) = r {
                        errors.push(format!("ERR{}:{}", i, err_class(&e)));
                    }
                    true
                }
                Poll::Pending => false,
            },
            None => true,
        };
        if done {
            futs[i] = None;
            live.swap_remove(k);
        }
    }
    let st = shared.lock().unwrap();
    let ptok: Vec<String> = progs
        .iter()
        .map(|p| {
            if p.is_empty() {
                "-".to_string()
            } else {
                p.iter()
                    .map(|m| {
                        let ids: Vec<(u64, u64)> = m.data().fds().iter().map(|f| ident(f.as_fd())).collect();
                        format!("{}/{}", hcommon::hex(m.data().bytes()), fdtok(&ids, &all_ids))
                    })
                    .collect::<Vec<_>>()
                    .join(",")
            }
        })
        .collect();
    let ctok: Vec<String> = st
        .calls
        .iter()
        .map(|c| format!("{}:{}:{}:{}:{}", c.task, c.offered, c.accepted, fdtok(&c.fds, &all_ids), hcommon::hex(&c.bytes)))
        .collect();
    format!(
        "{}#{}#{}",
        ptok.join("|"),
        if ctok.is_empty() { "-".to_string() } else { ctok.join(",") },
        if errors.is_empty() { "-".to_string() } else { errors.join(",") }
    )
}

fn main() {
    hcommon::run(|line| {
        let w: Vec<&str> = line.split(' ').filter(|x| !x.is_empty()).collect();
        match w.first().copied() {
            Some("F") => frame(&w),
            Some("S") => serial(&w),
            Some("W") => wire(&w),
            _ => "BADCASE".into(),
        }
    });
}
