//! hobjsrv — drives the real zbus ObjectServer (C24) and ObjectManager (C25) over an in-process
//! peer-to-peer connection pair.
//!
//! Case line:  `<mode> <op> <op> ...`   mode = `24` | `25`
//!   ops:  at:<path>:<k>   rm:<path>:<k>   (k = 1|2|3)      om:<path>   rmom:<path>
//! The interface instance registered by the n-th op of the history (1-based) carries id n.
//!
//! Output: observations of step 0 (fresh server) and of every op, joined by `;`.
//!   mode 24 step:  res|L|C|X1|X2|T
//!     res  `-` (step 0) | T | F (Ok(bool)) | ERR (InterfaceNotFound) | ERR? | PANIC
//!     L    24 tokens (6 universe paths x [1,2,3,M]) joined by `,`: `-` or the id seen through
//!          `ObjectServer::interface::<_, I>(path)` (`M` for the ObjectManager)
//!     C    same through a method call from the peer (`Ping` -> id, `GetManagedObjects` -> M)
//!     X1   24 chars 0/1: interface listed at the top level of Introspect(path)
//!     X2   24 chars 0/1: interface listed in Introspect("/") at the nested node for path
//!     T    6 entries joined by `,`: `-` or the canonical subtree text of Introspect(path)
//!   mode 25 step:  res|S|V|G|E
//!     S    signals of this step, sorted, joined by `,`:  A<mgr>><obj>=<ifs>  /  R<mgr>><obj>=<ifs>
//!     V    client-side replayed view per universe path (6, joined by `,`), entries `obj=ifs` joined by `~`
//!     G    fresh GetManagedObjects per universe path: `-` or same text
//!     E    6 chars: `-` no manager, `=` view == listing ignoring interface-less paths, `!` otherwise
use std::collections::{BTreeMap, BTreeSet, HashMap};
use std::os::unix::net::UnixStream;
use std::panic::{catch_unwind, AssertUnwindSafe};

use futures_util::StreamExt;
use zbus::{block_on, connection::Builder, fdo::ObjectManager, Connection, Guid, MessageStream};
use zvariant::{OwnedObjectPath, OwnedValue, Value};

const UNIVERSE: [&str; 6] = ["/", "/a", "/a/b", "/a/b/c", "/x", "/ab"];
const OM_NAME: &str = "org.freedesktop.DBus.ObjectManager";

struct I1 {
    id: u32,
}
#[zbus::interface(name = "org.zv.I1")]
impl I1 {
    fn ping(&self) -> u32 {
        self.id
    }
    #[zbus(property)]
    fn val(&self) -> u32 {
        self.id
    }
}
struct I2 {
    id: u32,
}
#[zbus::interface(name = "org.zv.I2")]
impl I2 {
    fn ping(&self) -> u32 {
        self.id
    }
}
struct I3 {
    id: u32,
}
#[zbus::interface(name = "org.zv.I3")]
impl I3 {
    fn ping(&self) -> u32 {
        self.id
    }
}

#[derive(Clone, Debug)]
enum Op {
    At(String, u8),
    Rm(String, u8),
    Om(String),
    RmOm(String),
}

fn parse_op(w: &str) -> Option<Op> {
    let parts: Vec<&str> = w.split(':').collect();
    let okp = |p: &str| zvariant::ObjectPath::try_from(p).is_ok();
    match parts.as_slice() {
        ["at", p, k] if okp(p) => match *k {
            "1" => Some(Op::At(p.to_string(), 1)),
            "2" => Some(Op::At(p.to_string(), 2)),
            "3" => Some(Op::At(p.to_string(), 3)),
            _ => None,
        },
        ["rm", p, k] if okp(p) => match *k {
            "1" => Some(Op::Rm(p.to_string(), 1)),
            "2" => Some(Op::Rm(p.to_string(), 2)),
            "3" => Some(Op::Rm(p.to_string(), 3)),
            _ => None,
        },
        ["om", p] if okp(p) => Some(Op::Om(p.to_string())),
        ["rmom", p] if okp(p) => Some(Op::RmOm(p.to_string())),
        _ => None,
    }
}

fn abbr(name: &str) -> String {
    match name {
        "org.zv.I1" => "1".into(),
        "org.zv.I2" => "2".into(),
        "org.zv.I3" => "3".into(),
        OM_NAME => "M".into(),
        "org.freedesktop.DBus.Introspectable" => "N".into(),
        "org.freedesktop.DBus.Peer" => "P".into(),
        "org.freedesktop.DBus.Properties" => "R".into(),
        other => format!("<{other}>"),
    }
}

fn pair() -> zbus::Result<(Connection, Connection)> {
    let (a, b) = UnixStream::pair().map_err(|e| zbus::Error::InputOutput(std::sync::Arc::new(e)))?;
    let guid = Guid::generate();
    let (server, client) = block_on(async {
        futures_util::try_join!(
            Builder::unix_stream(a).server(guid)?.p2p().internal_executor(false).build(),
            Builder::unix_stream(b).p2p().internal_executor(false).build(),
        )
    })?;
    // `object_server()` spawns the dispatch task; a call that arrives before that task has
    // subscribed is silently dropped, so ping (with a local timeout) until one is answered.
    let _ = server.object_server();
    // let the freshly spawned dispatch task run up to its subscription
    drive(&server, &client, async {
        for _ in 0..64 {
            let mut yielded = false;
            futures_util::future::poll_fn(|cx| {
                if yielded {
                    std::task::Poll::Ready(())
                } else {
                    yielded = true;
                    cx.waker().wake_by_ref();
                    std::task::Poll::Pending
                }
            })
            .await;
        }
    });
    let ready = drive(&server, &client, async {
        for _ in 0..2000 {
            let call = client.call_method(None::<()>, "/", Some("org.freedesktop.DBus.Peer"), "Ping", &());
            let timer = async_io::Timer::after(std::time::Duration::from_millis(5));
            futures_util::pin_mut!(call);
            if let futures_util::future::Either::Left((Ok(_), _)) = futures_util::future::select(call, timer).await {
                return true;
            }
        }
        false
    });
    if ready {
        Ok((server, client))
    } else {
        Err(zbus::Error::Failure("object server did not start".into()))
    }
}

/// Run `f` to completion on this thread while ticking the executors of both connections (they are
/// built with `internal_executor(false)`: no helper threads, one deterministic thread per process).
fn drive<F: std::future::Future>(server: &Connection, client: &Connection, f: F) -> F::Output {
    block_on(async {
        let ticker = async {
            loop {
                let a = server.executor().tick();
                let b = client.executor().tick();
                futures_util::pin_mut!(a);
                futures_util::pin_mut!(b);
                futures_util::future::select(a, b).await;
            }
        };
        futures_util::pin_mut!(f);
        futures_util::pin_mut!(ticker);
        match futures_util::future::select(f, ticker).await {
            futures_util::future::Either::Left((out, _)) => out,
            futures_util::future::Either::Right((never, _)) => never,
        }
    })
}

fn res_tok(r: std::thread::Result<zbus::Result<bool>>) -> &'static str {
    match r {
        Ok(Ok(true)) => "T",
        Ok(Ok(false)) => "F",
        Ok(Err(zbus::Error::InterfaceNotFound)) => "ERR",
        Ok(Err(_)) => "ERR?",
        Err(_) => "PANIC",
    }
}

fn do_op(server: &Connection, client: &Connection, op: &Op, id: u32) -> &'static str {
    let os = server.object_server();
    let r = catch_unwind(AssertUnwindSafe(|| {
        drive(server, client, async {
            match op {
                Op::At(p, 1) => os.at(p.as_str(), I1 { id }).await,
                Op::At(p, 2) => os.at(p.as_str(), I2 { id }).await,
                Op::At(p, _) => os.at(p.as_str(), I3 { id }).await,
                Op::Rm(p, 1) => os.remove::<I1, _>(p.as_str()).await,
                Op::Rm(p, 2) => os.remove::<I2, _>(p.as_str()).await,
                Op::Rm(p, _) => os.remove::<I3, _>(p.as_str()).await,
                Op::Om(p) => os.at(p.as_str(), ObjectManager).await,
                Op::RmOm(p) => os.remove::<ObjectManager, _>(p.as_str()).await,
            }
        })
    }));
    res_tok(r)
}

// ---------------------------------------------------------------- mode 24

/// canonical text of an introspection node: `[ifaces]{child:sub+child:sub}`, everything sorted
fn canon(n: &zbus_xml::Node<'_>) -> String {
    let mut ifs: Vec<String> = n.interfaces().iter().map(|i| abbr(i.name().as_str())).collect();
    ifs.sort();
    let mut ch: Vec<(String, String)> = n
        .nodes()
        .iter()
        .map(|c| (c.name().unwrap_or("?").to_string(), canon(c)))
        .collect();
    ch.sort();
    let ch: Vec<String> = ch.into_iter().map(|(k, v)| format!("{k}:{v}")).collect();
    format!("[{}]{{{}}}", ifs.concat(), ch.join("+"))
}

fn descend<'a, 'b>(n: &'a zbus_xml::Node<'b>, path: &str) -> Option<&'a zbus_xml::Node<'b>> {
    let mut cur = n;
    for seg in path.split('/').filter(|s| !s.is_empty()) {
        cur = cur.nodes().iter().find(|c| c.name() == Some(seg))?;
    }
    Some(cur)
}

fn has_iface(n: &zbus_xml::Node<'_>, k: usize) -> bool {
    let want = ["1", "2", "3", "M"][k];
    n.interfaces().iter().any(|i| abbr(i.name().as_str()) == want)
}

fn observe24(server: &Connection, client: &Connection) -> String {
    let os = server.object_server();
    drive(server, client, async {
        let mut l = Vec::new();
        let mut c = Vec::new();
        let mut x1 = String::new();
        let mut x2 = String::new();
        let mut t = Vec::new();
        let root_xml: Option<String> = client
            .call_method(None::<()>, "/", Some("org.freedesktop.DBus.Introspectable"), "Introspect", &())
            .await
            .ok()
            .and_then(|m| m.body().deserialize::<String>().ok());
        let root_node = root_xml.as_deref().and_then(|x| zbus_xml::Node::try_from(x).ok());
        for p in UNIVERSE {
            // lookups through the ObjectServer API
            l.push(match os.interface::<_, I1>(p).await {
                Ok(r) => r.get().await.id.to_string(),
                Err(_) => "-".into(),
            });
            l.push(match os.interface::<_, I2>(p).await {
                Ok(r) => r.get().await.id.to_string(),
                Err(_) => "-".into(),
            });
            l.push(match os.interface::<_, I3>(p).await {
                Ok(r) => r.get().await.id.to_string(),
                Err(_) => "-".into(),
            });
            l.push(match os.interface::<_, ObjectManager>(p).await {
                Ok(_) => "M".into(),
                Err(_) => "-".into(),
            });
            // method calls from the peer
            for name in ["org.zv.I1", "org.zv.I2", "org.zv.I3"] {
                c.push(match client.call_method(None::<()>, p, Some(name), "Ping", &()).await {
                    Ok(m) => match m.body().deserialize::<u32>() {
                        Ok(v) => v.to_string(),
                        Err(_) => "?".into(),
                    },
                    Err(_) => "-".into(),
                });
            }
            c.push(match client.call_method(None::<()>, p, Some(OM_NAME), "GetManagedObjects", &()).await {
                Ok(_) => "M".into(),
                Err(_) => "-".into(),
            });
            // introspection
            let xml: Option<String> = client
                .call_method(None::<()>, p, Some("org.freedesktop.DBus.Introspectable"), "Introspect", &())
                .await
                .ok()
                .and_then(|m| m.body().deserialize::<String>().ok());
            let node = xml.as_deref().map(zbus_xml::Node::try_from);
            match &node {
                None => {
                    x1.push_str("0000");
                    t.push("-".to_string());
                }
                Some(Err(_)) => {
                    x1.push_str("????");
                    t.push("BADXML".to_string());
                }
                Some(Ok(n)) => {
                    for k in 0..4 {
                        x1.push(if has_iface(n, k) { '1' } else { '0' });
                    }
                    t.push(canon(n));
                }
            }
            match root_node.as_ref().and_then(|r| descend(r, p)) {
                None => x2.push_str("0000"),
                Some(n) => {
                    for k in 0..4 {
                        x2.push(if has_iface(n, k) { '1' } else { '0' });
                    }
                }
            }
        }
        format!("{}|{}|{}|{}|{}", l.join(","), c.join(","), x1, x2, t.join(","))
    })
}

fn run24(ops: &[Op]) -> String {
    let (server, client) = match pair() {
        Ok(x) => x,
        Err(_) => return "NOCONN".into(),
    };
    let mut out = vec![format!("-|{}", observe24(&server, &client))];
    for (i, op) in ops.iter().enumerate() {
        let r = do_op(&server, &client, op, (i + 1) as u32);
        out.push(format!("{}|{}", r, observe24(&server, &client)));
    }
    out.join(";")
}

// ---------------------------------------------------------------- mode 25

type Ifs = BTreeMap<String, BTreeMap<String, String>>; // iface abbr -> props (name -> text)
type View = BTreeMap<String, Ifs>; // object path -> interfaces

fn val_text(v: &Value<'_>) -> String {
    match v {
        Value::U32(n) => n.to_string(),
        Value::Value(inner) => val_text(inner),
        _ => "?".into(),
    }
}

fn ifs_text(ifs: &Ifs) -> String {
    let v: Vec<String> = ifs
        .iter()
        .map(|(k, props)| {
            if props.is_empty() {
                k.clone()
            } else {
                let ps: Vec<String> = props.iter().map(|(n, v)| format!("{n}={v}")).collect();
                format!("{}({})", k, ps.join("&"))
            }
        })
        .collect();
    v.join("+")
}

fn view_text(v: &View, clean: bool) -> String {
    let e: Vec<String> = v
        .iter()
        .filter(|(_, ifs)| !clean || !ifs.is_empty())
        .map(|(p, ifs)| format!("{}={}", p, ifs_text(ifs)))
        .collect();
    e.join("~")
}

enum Sig {
    Added(String, String, Ifs),
    Removed(String, String, BTreeSet<String>),
}

impl Sig {
    fn text(&self) -> String {
        match self {
            Sig::Added(m, o, ifs) => format!("A{}>{}={}", m, o, ifs_text(ifs)),
            Sig::Removed(m, o, ks) => {
                format!("R{}>{}={}", m, o, ks.iter().cloned().collect::<Vec<_>>().join("+"))
            }
        }
    }
}

/// Ping the root's Peer interface and read the client's stream up to the reply: every
/// ObjectManager signal sent by the server before is collected, in order.
async fn drain(client: &Connection, stream: &mut MessageStream) -> Vec<Sig> {
    let call = zbus::message::Message::method_call("/", "Ping")
        .unwrap()
        .interface("org.freedesktop.DBus.Peer")
        .unwrap()
        .build(&())
        .unwrap();
    let serial = call.primary_header().serial_num();
    client.send(&call).await.unwrap();
    let mut sigs = Vec::new();
    while let Some(Ok(msg)) = stream.next().await {
        let hdr = msg.header();
        match hdr.message_type() {
            zbus::message::Type::MethodReturn | zbus::message::Type::Error => {
                if hdr.reply_serial() == Some(serial) {
                    break;
                }
            }
            zbus::message::Type::Signal => {
                if hdr.interface().map(|i| i.as_str()) != Some(OM_NAME) {
                    continue;
                }
                let mgr = hdr.path().map(|p| p.to_string()).unwrap_or_default();
                match hdr.member().map(|m| m.as_str()) {
                    Some("InterfacesAdded") => {
                        let body = msg.body();
                        let (obj, ifs): (OwnedObjectPath, HashMap<String, HashMap<String, OwnedValue>>) =
                            body.deserialize().unwrap();
                        let mut m = Ifs::new();
                        for (k, props) in ifs {
                            let ps = props.iter().map(|(n, v)| (n.clone(), val_text(v))).collect();
                            m.insert(abbr(&k), ps);
                        }
                        sigs.push(Sig::Added(mgr, obj.to_string(), m));
                    }
                    Some("InterfacesRemoved") => {
                        let body = msg.body();
                        let (obj, ks): (OwnedObjectPath, Vec<String>) = body.deserialize().unwrap();
                        sigs.push(Sig::Removed(mgr, obj.to_string(), ks.iter().map(|k| abbr(k)).collect()));
                    }
                    _ => {}
                }
            }
            _ => {}
        }
    }
    sigs
}

/// the client-side replay of one signal
fn apply(views: &mut BTreeMap<String, View>, s: &Sig) {
    match s {
        Sig::Added(m, o, ifs) => {
            let e = views.entry(m.clone()).or_default().entry(o.clone()).or_default();
            for (k, props) in ifs {
                e.insert(k.clone(), props.clone());
            }
        }
        Sig::Removed(m, o, ks) => {
            if let Some(e) = views.entry(m.clone()).or_default().get_mut(o) {
                for k in ks {
                    e.remove(k);
                }
            }
        }
    }
}

async fn listing(client: &Connection, p: &str) -> Option<View> {
    let m = client
        .call_method(None::<()>, p, Some(OM_NAME), "GetManagedObjects", &())
        .await
        .ok()?;
    let body = m.body();
    let objs: HashMap<OwnedObjectPath, HashMap<String, HashMap<String, OwnedValue>>> = body.deserialize().ok()?;
    let mut v = View::new();
    for (o, ifs) in objs {
        let mut mm = Ifs::new();
        for (k, props) in ifs {
            let ps = props.iter().map(|(n, v)| (n.clone(), val_text(v))).collect();
            mm.insert(abbr(&k), ps);
        }
        v.insert(o.to_string(), mm);
    }
    Some(v)
}

fn run25(ops: &[Op]) -> String {
    let (server, client) = match pair() {
        Ok(x) => x,
        Err(_) => return "NOCONN".into(),
    };
    let mut stream = MessageStream::from(&client);
    let mut views: BTreeMap<String, View> = BTreeMap::new();
    let mut out = Vec::new();
    for i in 0..=ops.len() {
        let r = if i == 0 { "-" } else { do_op(&server, &client, &ops[i - 1], i as u32) };
        let step = drive(&server, &client, async {
            let sigs = drain(&client, &mut stream).await;
            for s in &sigs {
                apply(&mut views, s);
            }
            let mut st: Vec<String> = sigs.iter().map(|s| s.text()).collect();
            st.sort();
            let mut v = Vec::new();
            let mut g = Vec::new();
            let mut e = String::new();
            for p in UNIVERSE {
                let view = views.get(p).cloned().unwrap_or_default();
                v.push(view_text(&view, false));
                match listing(&client, p).await {
                    None => {
                        g.push("-".to_string());
                        e.push('-');
                        // no manager: a client session for this path starts afresh
                        views.remove(p);
                    }
                    Some(lst) => {
                        g.push(view_text(&lst, false));
                        e.push(if view_text(&view, true) == view_text(&lst, true) { '=' } else { '!' });
                    }
                }
            }
            format!("{}|{}|{}|{}|{}", r, st.join(","), v.join(","), g.join(","), e)
        });
        out.push(step);
    }
    out.join(";")
}

fn main() {
    hcommon::run(|line| {
        let mut words = line.split(' ').filter(|w| !w.is_empty());
        let mode = match words.next() {
            Some(m) => m,
            None => return "BADCASE".into(),
        };
        let mut ops = Vec::new();
        for w in words {
            match parse_op(w) {
                Some(o) => ops.push(o),
                None => return "BADCASE".into(),
            }
        }
        match mode {
            "24" => run24(&ops),
            "25" => run25(&ops),
            _ => "BADCASE".into(),
        }
    });
}
