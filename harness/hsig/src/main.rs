//! C06: signature strings — parser, formatter, string_len, Eq/Hash/Ord/PartialEq<&str>.
//!
//! Case lines (tokens separated by one space; in the raw forms `_` stands for the empty string,
//! in the hex forms `-` does):
//!   p  <sig>            px <hex>          parse + format + string_len + `== original` + validate
//!   eq <sig> <other>    eqx <hex> <hex>   parse <sig>, then `parsed == other` (PartialEq<&str>)
//!   repr <treeA> <treeB>                  build both trees through the public constructors with the
//!                                         given Static/Dynamic tags; ==, hash, cmp, to_string, string_len
//!   deep <n> <open> <mid> <close>         open^n mid close^n (`-` = empty), in a child process when n is large
//! Observations:
//!   p     OK:<to_string>:<to_string_no_parens>:<string_len>:<eq T|F|P>:<validate T|F>  |  ERR:<validate T|F>
//!         (MIXED:... when the thin wrappers from_str/try_from/from_bytes/Display/Deserialize disagree)
//!   eq    T | F | P (panic) | NOSIG (the first string does not parse)
//!   repr  <a==b>:<hash writes equal>:<DefaultHasher equal>:<cmp L|E|G>:<hash writes of a, hex>:<to_string a>:<string_len a>
//!         | NOGV when a tree uses Maybe and the gvariant feature is off
//!   deep  OK:<string_len> | ERR | ABORT (child killed by a signal)
use std::hash::{DefaultHasher, Hash, Hasher};
use std::io::Write;
use std::panic::{catch_unwind, AssertUnwindSafe};
use std::str::FromStr;

use hcommon::{hex, tf, unhex};
use zvariant::Signature;
use zvariant_utils::signature::{validate, Child};

const GV: bool = cfg!(feature = "gvariant");

/// A hasher that records what is written to it.
struct Rec(Vec<u8>);
impl Hasher for Rec {
    fn finish(&self) -> u64 {
        0
    }
    fn write(&mut self, b: &[u8]) {
        self.0.extend_from_slice(b)
    }
}

fn writes(s: &Signature) -> Vec<u8> {
    let mut r = Rec(Vec::new());
    s.hash(&mut r);
    r.0
}

fn dh(s: &Signature) -> u64 {
    let mut h = DefaultHasher::new();
    s.hash(&mut h);
    h.finish()
}

fn eq_str(sig: &Signature, other: &str) -> String {
    match catch_unwind(AssertUnwindSafe(|| *sig == other)) {
        Ok(b) => tf(b),
        Err(_) => "P".into(),
    }
}

/// D-Bus encoding of a signature value: u8 length, bytes, NUL.
fn de_entry(s: &str) -> Option<bool> {
    if s.len() > 255 {
        return None;
    }
    let mut b = vec![s.len() as u8];
    b.extend_from_slice(s.as_bytes());
    b.push(0);
    let ctxt = zvariant::serialized::Context::new_dbus(zvariant::LE, 0);
    let data = zvariant::serialized::Data::new(b, ctxt);
    match data.deserialize::<Signature>() {
        Ok((sig, _)) => {
            let again = Signature::from_str(s);
            Some(matches!(again, Ok(ref a) if *a == sig && a.to_string() == sig.to_string()))
        }
        Err(_) => Some(false),
    }
}

fn parse_obs(s: &str) -> String {
    let r = Signature::from_str(s);
    let v = validate(s.as_bytes()).is_ok();
    // thin wrappers must agree with from_str
    let w1 = Signature::try_from(s);
    let w2 = Signature::try_from(s.as_bytes());
    let w3 = Signature::from_bytes(s.as_bytes());
    let de = de_entry(s);
    match r {
        Err(_) => {
            if w1.is_ok() || w2.is_ok() || w3.is_ok() || de == Some(true) {
                return format!("MIXED:ERR:{}{}{}{:?}", w1.is_ok(), w2.is_ok(), w3.is_ok(), de);
            }
            format!("ERR:{}", tf(v))
        }
        Ok(sig) => {
            let same = |x: &Result<Signature, zvariant_utils::signature::Error>| {
                matches!(x, Ok(y) if *y == sig && y.to_string() == sig.to_string() && writes(y) == writes(&sig))
            };
            let shown = sig.to_string();
            let disp = format!("{}", sig);
            let mut np = String::new();
            sig.write_as_string_no_parens(&mut np).unwrap();
            if !same(&w1) || !same(&w2) || !same(&w3) || de == Some(false) || disp != shown || np != sig.to_string_no_parens() {
                return format!("MIXED:OK:{}{}{}{:?}:{}", same(&w1), same(&w2), same(&w3), de, disp);
            }
            format!("OK:{}:{}:{}:{}:{}", shown, np, sig.string_len(), eq_str(&sig, s), tf(v))
        }
    }
}

fn eq_obs(s: &str, other: &str) -> String {
    match Signature::from_str(s) {
        Err(_) => "NOSIG".into(),
        Ok(sig) => {
            // PartialEq<str> must be the same function
            let a = eq_str(&sig, other);
            let b = match catch_unwind(AssertUnwindSafe(|| sig == *other)) {
                Ok(b) => tf(b),
                Err(_) => "P".into(),
            };
            if a != b {
                return format!("MIXED:{}{}", a, b);
            }
            a
        }
    }
}

// ---- tagged trees: leaf letters, `_` unit, A<tag><t>, M<tag><t>, E<tag><k><tag><v>, R<tag><t>*.  tag = S | D
fn leak(s: Signature) -> &'static Signature {
    Box::leak(Box::new(s))
}

enum TErr {
    Syntax,
    NoGv,
}

fn tree(b: &[u8], i: &mut usize) -> Result<Signature, TErr> {
    let c = *b.get(*i).ok_or(TErr::Syntax)?;
    *i += 1;
    let tag = |i: &mut usize| -> Result<bool, TErr> {
        let t = *b.get(*i).ok_or(TErr::Syntax)?;
        *i += 1;
        match t {
            b'S' => Ok(true),
            b'D' => Ok(false),
            _ => Err(TErr::Syntax),
        }
    };
    Ok(match c {
        b'_' => Signature::Unit,
        b'y' => Signature::U8,
        b'b' => Signature::Bool,
        b'n' => Signature::I16,
        b'q' => Signature::U16,
        b'i' => Signature::I32,
        b'u' => Signature::U32,
        b'x' => Signature::I64,
        b't' => Signature::U64,
        b'd' => Signature::F64,
        b's' => Signature::Str,
        b'g' => Signature::Signature,
        b'o' => Signature::ObjectPath,
        b'v' => Signature::Variant,
        b'h' => Signature::Fd,
        b'A' => {
            let st = tag(i)?;
            let c = tree(b, i)?;
            if st {
                Signature::static_array(leak(c))
            } else {
                Signature::array(c)
            }
        }
        b'M' => {
            let st = tag(i)?;
            let c = tree(b, i)?;
            #[cfg(feature = "gvariant")]
            {
                if st {
                    Signature::static_maybe(leak(c))
                } else {
                    Signature::maybe(c)
                }
            }
            #[cfg(not(feature = "gvariant"))]
            {
                let _ = (st, c);
                return Err(TErr::NoGv);
            }
        }
        b'E' => {
            let sk = tag(i)?;
            let k = tree(b, i)?;
            let sv = tag(i)?;
            let v = tree(b, i)?;
            match (sk, sv) {
                (true, true) => Signature::static_dict(leak(k), leak(v)),
                (true, false) => Signature::dict(leak(k), v),
                (false, true) => Signature::dict(k, leak(v)),
                (false, false) => Signature::dict(Child::from(k), Child::from(Box::new(v))),
            }
        }
        b'R' => {
            let st = tag(i)?;
            let mut fs = Vec::new();
            loop {
                if *b.get(*i).ok_or(TErr::Syntax)? == b'.' {
                    *i += 1;
                    break;
                }
                fs.push(tree(b, i)?);
            }
            if st {
                let refs: Vec<&'static Signature> = fs.into_iter().map(leak).collect();
                let sl: &'static [&'static Signature] = Box::leak(refs.into_boxed_slice());
                Signature::static_structure(sl)
            } else {
                Signature::structure(fs)
            }
        }
        _ => return Err(TErr::Syntax),
    })
}

fn whole_tree(s: &str) -> Result<Signature, TErr> {
    let b = s.as_bytes();
    let mut i = 0;
    let t = tree(b, &mut i)?;
    if i != b.len() {
        return Err(TErr::Syntax);
    }
    Ok(t)
}

fn repr_obs(a: &str, b: &str) -> String {
    let (a, b) = match (whole_tree(a), whole_tree(b)) {
        (Err(TErr::Syntax), _) | (_, Err(TErr::Syntax)) => return "BADCASE".into(),
        (Err(TErr::NoGv), _) | (_, Err(TErr::NoGv)) => return "NOGV".into(),
        (Ok(a), Ok(b)) => (a, b),
    };
    let wa = writes(&a);
    let wb = writes(&b);
    let cmp = match a.cmp(&b) {
        std::cmp::Ordering::Less => "L",
        std::cmp::Ordering::Equal => "E",
        std::cmp::Ordering::Greater => "G",
    };
    if a.partial_cmp(&b) != Some(a.cmp(&b)) || (a == b) != (b == a) || (a != b) == (a == b) {
        return "MIXED".into();
    }
    format!(
        "{}:{}:{}:{}:{}:{}:{}",
        tf(a == b),
        tf(wa == wb),
        tf(dh(&a) == dh(&b)),
        cmp,
        hex(&wa),
        a.to_string(),
        a.string_len()
    )
}

fn deep_string(w: &[&str]) -> Option<(usize, String)> {
    let n: usize = w.get(1)?.parse().ok()?;
    let part = |k: usize| -> Option<&str> {
        let x = *w.get(k)?;
        Some(if x == "-" { "" } else { x })
    };
    let (open, mid, close) = (part(2)?, part(3)?, part(4)?);
    let mut s = String::with_capacity(n * (open.len() + close.len()) + mid.len());
    for _ in 0..n {
        s.push_str(open);
    }
    s.push_str(mid);
    for _ in 0..n {
        s.push_str(close);
    }
    Some((n, s))
}

fn deep_inproc(s: &str) -> String {
    match Signature::from_str(s) {
        Err(_) => "ERR".into(),
        Ok(sig) => format!("OK:{}", sig.string_len()),
    }
}

fn deep_obs(line: &str, w: &[&str]) -> String {
    let (n, s) = match deep_string(w) {
        Some(x) => x,
        None => return "BADCASE".into(),
    };
    if n <= 1000 || std::env::var_os("HSIG_CHILD").is_some() {
        return deep_inproc(&s);
    }
    // a stack overflow aborts the process: run the case in a child
    let exe = match std::env::current_exe() {
        Ok(e) => e,
        Err(_) => return "TOOL:noexe".into(),
    };
    let mut child = match std::process::Command::new(exe)
        .env("HSIG_CHILD", "1")
        .stdin(std::process::Stdio::piped())
        .stdout(std::process::Stdio::piped())
        .stderr(std::process::Stdio::null())
        .spawn()
    {
        Ok(c) => c,
        Err(_) => return "TOOL:spawn".into(),
    };
    {
        let mut si = child.stdin.take().unwrap();
        let _ = writeln!(si, "{}", line);
    }
    let out = match child.wait_with_output() {
        Ok(o) => o,
        Err(_) => return "TOOL:wait".into(),
    };
    use std::os::unix::process::ExitStatusExt;
    if out.status.signal().is_some() {
        return "ABORT".into();
    }
    let txt = String::from_utf8_lossy(&out.stdout);
    match txt.lines().next() {
        Some(l) if out.status.success() => l.to_string(),
        _ => "ABORT".into(),
    }
}

fn raw(t: Option<&&str>) -> String {
    match t {
        None => String::new(),
        Some(x) if **x == *"_" => String::new(),
        Some(x) => x.to_string(),
    }
}

fn hexarg(t: Option<&&str>) -> Option<String> {
    match t {
        None => Some(String::new()),
        Some(x) if **x == *"-" => Some(String::new()),
        Some(x) => String::from_utf8(unhex(x)?).ok(),
    }
}

fn main() {
    hcommon::run(|line| {
        let w: Vec<&str> = line.split(' ').collect();
        let _ = GV;
        match w[0] {
            "p" if w.len() <= 2 => parse_obs(&raw(w.get(1))),
            "px" if w.len() <= 2 => match hexarg(w.get(1)) {
                Some(s) => parse_obs(&s),
                None => "BADCASE".into(),
            },
            "eq" if w.len() <= 3 => eq_obs(&raw(w.get(1)), &raw(w.get(2))),
            "eqx" if w.len() <= 3 => match (hexarg(w.get(1)), hexarg(w.get(2))) {
                (Some(a), Some(b)) => eq_obs(&a, &b),
                _ => "BADCASE".into(),
            },
            "repr" if w.len() == 3 => repr_obs(w[1], w[2]),
            "deep" if w.len() == 5 => deep_obs(line, &w),
            _ => "BADCASE".into(),
        }
    });
}
