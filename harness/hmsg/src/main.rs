//! C11 / C12 / C13: message building, parsing of hostile bytes, and the reader loop on a raw stream.
//!
//! Case lines (strings are `x<hex>` or `-` for "absent"):
//!   p <ctx l|B|a> <hex|->                      Message::from_bytes + every accessor        -> ERR | PANIC | OK:<H>:<B>:<D>:<G>:<V>
//!   b <endian l|B> <type> <flags> <serial> <path> <iface> <member> <errname> <reply_serial|-> <dest> <sender> <via 0|1> <body...>
//!                                              build through the public Builder, re-parse   -> OK|<hex>|<nfds>|<obs of reparsed>|<H>:<B> of built|<typed body>
//!   s <hex> <hex> ...                          raw messages written by the peer of a p2p connection, then EOF
//!                                                                                          -> items seen on a MessageStream, e.g. M1,M2,E:io,N
use std::io::Write;
use std::num::NonZeroU32;
use std::os::fd::{AsFd, AsRawFd, OwnedFd};
use std::os::unix::fs::MetadataExt;
use std::os::unix::net::UnixStream;
use std::panic::{catch_unwind, AssertUnwindSafe};

use hcommon::{hex, unhex};
use zbus::export::ordered_stream::OrderedStreamExt;
use zbus::message::{Builder, Flags, Message};
use zvariant::serialized::{Context, Data};
use zvariant::{Endian, Fd, Signature, Structure, BE, LE};

fn guard<F: FnOnce() -> String>(f: F) -> String {
    catch_unwind(AssertUnwindSafe(f)).unwrap_or_else(|_| "P".to_string())
}

fn xs(o: Option<&str>) -> String {
    match o {
        Some(s) => format!("x{}", hex(s.as_bytes())),
        None => "-".into(),
    }
}

fn on<T: ToString>(o: Option<T>) -> String {
    o.map(|n| n.to_string()).unwrap_or_else(|| "-".into())
}

/// Every header accessor (this is where the cached field positions are re-validated).
fn hdr_dump(m: &Message) -> String {
    let h = m.header();
    let p = h.primary();
    format!(
        "e={},t={},f={},v={},bl={},sn={},p={},i={},m={},en={},rs={},d={},s={},g=x{},fd={}",
        p.endian_sig() as u8,
        p.msg_type() as u8,
        p.flags().bits(),
        p.protocol_version(),
        p.body_len(),
        p.serial_num().get(),
        xs(h.path().map(|x| x.as_str())),
        xs(h.interface().map(|x| x.as_str())),
        xs(h.member().map(|x| x.as_str())),
        xs(h.error_name().map(|x| x.as_str())),
        on(h.reply_serial().map(|n| n.get())),
        xs(h.destination().map(|x| x.as_str())),
        xs(h.sender().map(|x| x.as_str())),
        hex(h.signature().to_string().as_bytes()),
        on(h.unix_fds()),
    )
}

fn body_dump(m: &Message) -> String {
    let b = m.body();
    format!(
        "b{}/g{}/n{}",
        hex(b.data().bytes()),
        hex(b.signature().to_string().as_bytes()),
        m.data().fds().len()
    )
}

fn observe(m: &Message) -> String {
    let h = guard(|| hdr_dump(m));
    let b = guard(|| body_dump(m));
    let d = guard(|| format!("x{}", hex(m.to_string().as_bytes())));
    let g = guard(|| {
        let _ = format!("{:?}", m);
        "ok".into()
    });
    let v = guard(|| {
        let b = m.body();
        let sig = b.signature().clone();
        let _ = b.deserialize::<Structure>();
        // decode the body with the general decoder whatever its signature is (one-field struct wrapper)
        if !matches!(sig, Signature::Unit | Signature::Structure(_)) {
            let s2 = Signature::structure(vec![sig]);
            let _ = b.data().deserialize_for_dynamic_signature::<_, Structure>(&s2);
        }
        let _ = b.deserialize_unchecked::<&str>();
        let _ = b.len();
        "np".into()
    });
    format!("{h}:{b}:{d}:{g}:{v}")
}

fn parse_case(w: &[&str]) -> Option<String> {
    let bytes = match w.get(2).copied().unwrap_or("-") {
        "-" => vec![],
        h => unhex(h)?,
    };
    let endian = match *w.get(1)? {
        "l" => LE,
        "B" => BE,
        "a" => {
            if bytes.first() == Some(&b'B') {
                BE
            } else {
                LE
            }
        }
        _ => return None,
    };
    Some(guard_panic(|| {
        let data = Data::new(bytes, Context::new_dbus(endian, 0));
        match unsafe { Message::from_bytes(data) } {
            Err(_) => "ERR".to_string(),
            Ok(m) => format!("OK:{}", observe(&m)),
        }
    }))
}

fn guard_panic<F: FnOnce() -> String>(f: F) -> String {
    catch_unwind(AssertUnwindSafe(f)).unwrap_or_else(|_| "PANIC".to_string())
}

fn sx(t: &str) -> Option<Option<String>> {
    if t == "-" {
        return Some(None);
    }
    let b = unhex(t.strip_prefix('x')?)?;
    Some(Some(String::from_utf8(b).ok()?))
}

/// distinct files whose descriptors are put into bodies; identified by (st_dev, st_ino) after the round trip
fn file_table() -> Vec<std::fs::File> {
    ["/dev/null", "/dev/zero", "/proc/self/exe"].iter().map(|p| std::fs::File::open(p).unwrap()).collect()
}

fn file_index(f: &impl AsFd, table: &[std::fs::File]) -> String {
    for (i, t) in table.iter().enumerate() {
        if same_file(f, t) {
            return format!("f{}", i);
        }
    }
    "f?".into()
}

fn idx_args(args: &[&str]) -> Option<Vec<usize>> {
    let mut v = vec![];
    for a in args {
        let i: usize = a.parse().ok()?;
        if i > 2 {
            return None;
        }
        v.push(i);
    }
    Some(v)
}

fn devnull() -> std::fs::File {
    std::fs::File::open("/dev/null").unwrap()
}

fn same_file(a: &impl AsFd, b: &impl AsFd) -> bool {
    let fa = std::fs::File::from(a.as_fd().try_clone_to_owned().unwrap());
    let fb = std::fs::File::from(b.as_fd().try_clone_to_owned().unwrap());
    let (ma, mb) = (fa.metadata().unwrap(), fb.metadata().unwrap());
    ma.dev() == mb.dev() && ma.ino() == mb.ino() && a.as_fd().as_raw_fd() != b.as_fd().as_raw_fd()
}

fn build_case(w: &[&str]) -> Option<String> {
    if w.len() < 14 {
        return None;
    }
    let endian: Endian = match w[1] {
        "l" => LE,
        "B" => BE,
        _ => return None,
    };
    let ty: u8 = w[2].parse().ok()?;
    let flags: u8 = w[3].parse().ok()?;
    let serial = NonZeroU32::new(w[4].parse().ok()?)?;
    let path = sx(w[5])?;
    let iface = sx(w[6])?;
    let member = sx(w[7])?;
    let errname = sx(w[8])?;
    let rs: Option<u32> = if w[9] == "-" { None } else { Some(w[9].parse().ok()?) };
    let dest = sx(w[10])?;
    let sender = sx(w[11])?;
    let via = w[12] == "1";
    let body = &w[13..];
    if flags > 7 || (errname.is_some() != (ty == 3)) {
        return None;
    }
    let rs_nz = match rs {
        Some(n) => Some(NonZeroU32::new(n)?),
        None => None,
    };

    macro_rules! tryb {
        ($e:expr) => {
            match $e {
                Ok(v) => v,
                Err(_) => return Some("BERR".into()),
            }
        };
    }
    // the message replied to (types 2 and 3): serial = reply serial, sender = destination when that is a unique name
    let call_holder;
    let hdr_holder;
    let mut dest_done = false;
    let mut b: Builder<'_> = match ty {
        1 => tryb!(Message::method_call(path.clone()?, member.clone()?)),
        4 => tryb!(Message::signal(path.clone()?, iface.clone()?, member.clone()?)),
        2 | 3 => {
            let mut call = Message::method_call("/", "M").unwrap().endian(endian);
            if let Some(n) = rs_nz {
                call = call.serial(n);
            }
            if let Some(d) = &dest {
                if zbus_names::UniqueName::try_from(d.as_str()).is_ok() {
                    call = tryb!(call.sender(d.clone()));
                    dest_done = true;
                }
            }
            call_holder = call.build(&()).unwrap();
            hdr_holder = call_holder.header();
            let mut b = if ty == 2 {
                tryb!(Message::method_return(&hdr_holder))
            } else {
                tryb!(Message::error(&hdr_holder, errname.clone()?))
            };
            if rs_nz.is_none() {
                b = b.reply_serial(None);
            }
            b
        }
        _ => return None,
    };
    b = b.endian(endian).serial(serial);
    if let Some(p) = &path {
        b = tryb!(b.path(p.clone()));
    }
    if let Some(i) = &iface {
        b = tryb!(b.interface(i.clone()));
    }
    if let Some(m) = &member {
        b = tryb!(b.member(m.clone()));
    }
    if let (Some(d), false) = (&dest, dest_done) {
        b = tryb!(b.destination(d.clone()));
    }
    if let Some(s) = &sender {
        b = tryb!(b.sender(s.clone()));
    }
    if let (Some(n), true) = (rs_nz, ty == 1 || ty == 4) {
        b = b.reply_serial(Some(n));
    }
    for (bit, f) in [(1u8, Flags::NoReplyExpected), (2, Flags::NoAutoStart), (4, Flags::AllowInteractiveAuth)] {
        if flags & bit != 0 {
            b = tryb!(b.with_flags(f));
        }
    }
    let first;
    let first_hdr;
    if via {
        // round through Builder::from(Header): fields, flags, serial and endian are inherited
        first = tryb!(b.build(&("dropped", 7u32)));
        first_hdr = first.header();
        b = Builder::from(first_hdr);
    }

    let null = devnull();
    let files = file_table();
    let m: Message = match body[0] {
        "unit" => tryb!(b.build(&())),
        "s" => tryb!(b.build(&sx(body.get(1)?)??)),
        "u" => tryb!(b.build(&body.get(1)?.parse::<u32>().ok()?)),
        "su" => tryb!(b.build(&(sx(body.get(1)?)??, body.get(2)?.parse::<u32>().ok()?))),
        "as" => {
            let mut v = vec![];
            for t in &body[1..] {
                v.push(sx(t)??);
            }
            tryb!(b.build(&v))
        }
        "h" => tryb!(b.build(&Fd::from(&null))),
        "sh" => tryb!(b.build(&(sx(body.get(1)?)??, Fd::from(&null)))),
        // several typed descriptors, possibly the very same one more than once
        "hh" => {
            let ix = idx_args(&body[1..])?;
            if ix.len() != 2 {
                return None;
            }
            tryb!(b.build(&(Fd::from(&files[ix[0]]), Fd::from(&files[ix[1]]))))
        }
        "ah" => {
            let ix = idx_args(&body[1..])?;
            let v: Vec<Fd<'_>> = ix.iter().map(|i| Fd::from(&files[*i])).collect();
            tryb!(b.build(&v))
        }
        "hv" => {
            let ix = idx_args(&body[1..])?;
            if ix.len() != 2 {
                return None;
            }
            tryb!(b.build(&(Fd::from(&files[ix[0]]), zvariant::Value::from(Fd::from(&files[ix[1]])))))
        }
        "raw" => {
            let sig = sx(body.get(1)?)?.unwrap_or_default();
            let bytes = match *body.get(2)? {
                "-" => vec![],
                t => unhex(t.strip_prefix('x')?)?,
            };
            let n: usize = body.get(3)?.parse().ok()?;
            let fds: Vec<zvariant::OwnedFd> =
                (0..n).map(|_| zvariant::OwnedFd::from(OwnedFd::from(devnull()))).collect();
            tryb!(unsafe { b.build_raw_body(&bytes, sig.as_str(), fds) })
        }
        _ => return None,
    };

    let bytes = m.data().bytes().to_vec();
    let nfds = m.data().fds().len();
    let built = format!("{}:{}", guard(|| hdr_dump(&m)), guard(|| body_dump(&m)));
    // re-parse from the bytes (with duplicates of the fds, as a receiving socket would hand them over)
    let fds: Vec<OwnedFd> = m.data().fds().iter().map(|f| f.as_fd().try_clone_to_owned().unwrap()).collect();
    let data = Data::new_fds(bytes.clone(), Context::new_dbus(endian, 0), fds);
    let re = guard_panic(|| match unsafe { Message::from_bytes(data) } {
        Err(_) => "ERR".to_string(),
        Ok(r) => {
            let typed = guard(|| typed_body(&r, body[0], &null, &files));
            format!("OK:{}|{}", observe(&r), typed)
        }
    });
    Some(format!("OK|{}|{}|{}|{}", hex(&bytes), nfds, built, re))
}

fn typed_body(r: &Message, shape: &str, null: &std::fs::File, files: &[std::fs::File]) -> String {
    let b = r.body();
    let fdtok = |f: &Fd<'_>| if same_file(f, null) { "fd".to_string() } else { "otherfd".to_string() };
    match shape {
        "unit" => b.deserialize::<()>().map(|_| "()".to_string()).unwrap_or_else(|_| "DERR".into()),
        "s" => b.deserialize::<String>().map(|s| xs(Some(&s))).unwrap_or_else(|_| "DERR".into()),
        "u" => b.deserialize::<u32>().map(|n| n.to_string()).unwrap_or_else(|_| "DERR".into()),
        "su" => b
            .deserialize::<(String, u32)>()
            .map(|(s, n)| format!("{},{}", xs(Some(&s)), n))
            .unwrap_or_else(|_| "DERR".into()),
        "as" => b
            .deserialize::<Vec<String>>()
            .map(|v| {
                if v.is_empty() {
                    "-".to_string()
                } else {
                    v.iter().map(|s| xs(Some(s))).collect::<Vec<_>>().join(",")
                }
            })
            .unwrap_or_else(|_| "DERR".into()),
        "h" => b.deserialize::<Fd<'_>>().map(|f| fdtok(&f)).unwrap_or_else(|_| "DERR".into()),
        "sh" => b
            .deserialize::<(String, Fd<'_>)>()
            .map(|(s, f)| format!("{},{}", xs(Some(&s)), fdtok(&f)))
            .unwrap_or_else(|_| "DERR".into()),
        "hh" => b
            .deserialize::<(Fd<'_>, Fd<'_>)>()
            .map(|(x, y)| format!("{},{}", file_index(&x, files), file_index(&y, files)))
            .unwrap_or_else(|_| "DERR".into()),
        "ah" => b
            .deserialize::<Vec<Fd<'_>>>()
            .map(|v| {
                if v.is_empty() {
                    "-".to_string()
                } else {
                    v.iter().map(|f| file_index(f, files)).collect::<Vec<_>>().join(",")
                }
            })
            .unwrap_or_else(|_| "DERR".into()),
        "hv" => b
            .deserialize::<(Fd<'_>, zvariant::Value<'_>)>()
            .map(|(x, v)| match v {
                zvariant::Value::Fd(y) => format!("{},{}", file_index(&x, files), file_index(&y, files)),
                _ => "notfd".to_string(),
            })
            .unwrap_or_else(|_| "DERR".into()),
        _ => "-".into(),
    }
}

fn stream_case(w: &[&str]) -> Option<String> {
    let mut msgs = vec![];
    for t in &w[1..] {
        msgs.push(unhex(t)?);
    }
    // a hang is only believed when it happens twice, the second time with a three times longer timeout
    let first = stream_once(msgs.clone(), 3000);
    if first != "HANG" {
        return Some(first);
    }
    Some(stream_once(msgs, 9000))
}

fn stream_once(msgs: Vec<Vec<u8>>, timeout_ms: u64) -> String {
    // The connection is driven on its own thread: if the socket-reader task panics, zbus' executor thread dies and
    // the stream never ends; that is reported as HANG after a generous timeout (normal cases finish in milliseconds).
    let (tx, rx) = std::sync::mpsc::channel::<String>();
    std::thread::spawn(move || {
        let r: zbus::Result<String> = zbus::block_on(async move {
            let (a, mut peer) = UnixStream::pair()?;
            let guid = zbus::Guid::generate();
            let conn = zbus::connection::Builder::authenticated_socket(async_io::Async::new(a)?, guid)?
                .p2p()
                .build()
                .await?;
            let mut stream = zbus::MessageStream::from(&conn);
            for m in &msgs {
                peer.write_all(m)?;
            }
            peer.flush()?;
            drop(peer); // EOF after the last message: the stream always ends, no timeouts needed
            let mut out: Vec<String> = vec![];
            loop {
                match stream.next().await {
                    None => {
                        out.push("N".into());
                        break;
                    }
                    Some(Ok(m)) => out.push(format!("M{}", m.primary_header().serial_num())),
                    Some(Err(zbus::Error::InputOutput(_))) => out.push("E:io".into()),
                    Some(Err(_)) => out.push("E:msg".into()),
                }
                if out.len() > 64 {
                    break;
                }
            }
            Ok(out.join(","))
        });
        let _ = tx.send(r.unwrap_or_else(|_| "SETUPERR".into()));
    });
    match rx.recv_timeout(std::time::Duration::from_millis(timeout_ms)) {
        Ok(s) => s,
        Err(_) => "HANG".into(),
    }
}

fn main() {
    if std::env::var_os("HMSG_PANICLOC").is_some() {
        // debugging aid: where did a panic (possibly on another thread) come from
        let line = std::io::stdin().lines().next().unwrap().unwrap();
        std::panic::set_hook(Box::new(|i| eprintln!("panic at {:?} on thread {:?}\n{}", i.location(), std::thread::current().name(), std::backtrace::Backtrace::force_capture())));
        let w: Vec<&str> = line.split(' ').filter(|x| !x.is_empty()).collect();
        println!("{:?}", match w[0] { "p" => parse_case(&w), "b" => build_case(&w), _ => stream_case(&w) });
        return;
    }
    hcommon::run(|line| {
        let w: Vec<&str> = line.split(' ').filter(|x| !x.is_empty()).collect();
        let r = match w.first().copied() {
            Some("p") => parse_case(&w),
            Some("b") => build_case(&w),
            Some("s") => stream_case(&w),
            _ => None,
        };
        r.unwrap_or_else(|| "BADCASE".into())
    });
}
