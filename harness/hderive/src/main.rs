//! C09 harness: Rust types generated from shape descriptions (src/gen_types.rs, written by props/C09.py from the
//! same descriptions the Coq theorems quantify over) are compiled against /repo's zvariant + zvariant_derive.
//!   <cfg> <idx> <pos> | <shape tokens> | <value tokens>
//! prints  S=<T::SIGNATURE>;L=<to_bytes LE>;B=<to_bytes BE>;V=<LE bytes read back as a dynamic Value under SIGNATURE>;R=<typed round trip>
use serde::{de::DeserializeOwned, Serialize};
use std::panic::{catch_unwind, AssertUnwindSafe};
use zvariant::serialized::{Context, Data};
use zvariant::{Signature, Type, Value, BE, LE};

#[allow(dead_code, unused_imports, unused_variables, non_camel_case_types, non_snake_case, unreachable_code, clippy::all)]
mod gen_types;

pub struct Toks<'a> {
    t: Vec<&'a str>,
    i: usize,
    pub bad: bool,
}
impl<'a> Toks<'a> {
    fn next(&mut self) -> &'a str {
        let r = self.t.get(self.i).copied();
        self.i += 1;
        match r {
            Some(x) => x,
            None => {
                self.bad = true;
                "0"
            }
        }
    }
    fn num<T: std::str::FromStr + Default>(&mut self) -> T {
        match self.next().parse::<T>() {
            Ok(x) => x,
            Err(_) => {
                self.bad = true;
                T::default()
            }
        }
    }
    pub fn done(&self) -> bool {
        !self.bad && self.i == self.t.len()
    }
    pub fn n(&mut self) -> usize { self.num() }
    pub fn bool(&mut self) -> bool { self.num::<u64>() != 0 }
    pub fn u8(&mut self) -> u8 { self.num() }
    pub fn i8(&mut self) -> i8 { self.num() }
    pub fn i16(&mut self) -> i16 { self.num() }
    pub fn u16(&mut self) -> u16 { self.num() }
    pub fn i32(&mut self) -> i32 { self.num() }
    pub fn u32(&mut self) -> u32 { self.num() }
    pub fn i64(&mut self) -> i64 { self.num() }
    pub fn u64(&mut self) -> u64 { self.num() }
    pub fn usize(&mut self) -> usize { self.num::<u64>() as usize }
    pub fn isize(&mut self) -> isize { self.num::<i64>() as isize }
    pub fn f64(&mut self) -> f64 {
        match u64::from_str_radix(self.next(), 16) {
            Ok(b) => f64::from_bits(b),
            Err(_) => {
                self.bad = true;
                0.0
            }
        }
    }
    /// the value is given by its f64 image (exactly representable as f32 by construction of the cases)
    pub fn f32(&mut self) -> f32 {
        let d = self.f64();
        let f = d as f32;
        if (f as f64).to_bits() != d.to_bits() {
            self.bad = true;
        }
        f
    }
    pub fn string(&mut self) -> String {
        let t = self.next();
        let b = if t == "-" { Some(vec![]) } else { hcommon::unhex(t) };
        match b.and_then(|b| String::from_utf8(b).ok()) {
            Some(s) => s,
            None => {
                self.bad = true;
                String::new()
            }
        }
    }
    pub fn ch(&mut self) -> char {
        let s = self.string();
        let mut it = s.chars();
        match (it.next(), it.next()) {
            (Some(c), None) => c,
            _ => {
                self.bad = true;
                'x'
            }
        }
    }
}

fn hext(b: &[u8]) -> String {
    if b.is_empty() { "-".into() } else { hcommon::hex(b) }
}
fn sig_tok(s: &Signature) -> String {
    let t = s.to_string();
    if t.is_empty() { "-".into() } else { t }
}

/// text form of a dynamic value, shared with coq/theories/DBus/Val.v (val_text) and harness/hz
fn show(v: &Value<'_>, out: &mut Vec<String>) {
    match v {
        Value::U8(x) => out.extend(["y".into(), x.to_string()]),
        Value::Bool(x) => out.extend(["b".into(), (*x as u8).to_string()]),
        Value::I16(x) => out.extend(["n".into(), x.to_string()]),
        Value::U16(x) => out.extend(["q".into(), x.to_string()]),
        Value::I32(x) => out.extend(["i".into(), x.to_string()]),
        Value::U32(x) => out.extend(["u".into(), x.to_string()]),
        Value::I64(x) => out.extend(["x".into(), x.to_string()]),
        Value::U64(x) => out.extend(["t".into(), x.to_string()]),
        Value::F64(x) => out.extend(["d".into(), format!("{:016x}", x.to_bits())]),
        Value::Str(s) => out.extend(["s".into(), hext(s.as_bytes())]),
        Value::ObjectPath(s) => out.extend(["o".into(), hext(s.as_bytes())]),
        Value::Signature(s) => out.extend(["g".into(), sig_tok(s)]),
        Value::Fd(_) => out.extend(["h".into(), "?".into()]),
        Value::Value(x) => {
            out.push("v".into());
            show(x, out)
        }
        Value::Array(a) => {
            out.extend(["a".into(), sig_tok(a.element_signature()), a.len().to_string()]);
            for x in a.iter() {
                show(x, out)
            }
        }
        Value::Dict(d) => {
            let (ks, vs) = match d.signature() {
                Signature::Dict { key, value } => (key.signature().clone(), value.signature().clone()),
                _ => unreachable!(),
            };
            let mut entries: Vec<(Vec<String>, Vec<String>)> = vec![];
            for (k, v) in d.iter() {
                let (mut a, mut b) = (vec![], vec![]);
                show(k, &mut a);
                show(v, &mut b);
                entries.push((a, b));
            }
            entries.sort_by(|x, y| x.0.join(" ").as_bytes().cmp(y.0.join(" ").as_bytes()));
            out.extend(["e".into(), sig_tok(&ks), sig_tok(&vs), entries.len().to_string()]);
            for (a, b) in entries {
                out.extend(a);
                out.extend(b);
            }
        }
        Value::Structure(s) => {
            out.extend(["r".into(), s.fields().len().to_string()]);
            for x in s.fields() {
                show(x, out)
            }
        }
    }
}

fn err_tok(e: &zvariant::Error) -> String {
    match e {
        zvariant::Error::MaxDepthExceeded(_) => "ERR:D".into(),
        _ => "ERR".into(),
    }
}

/// The bytes, preceded by the header of a VARIANT carrying the declared signature, read by zvariant's dynamic
/// decoder; the header is placed so that the value starts at a position congruent to `pos` modulo 8.
fn read_back(sig: &str, pos: usize, b: &[u8]) -> String {
    if sig.is_empty() || sig.len() > 255 {
        return "-".into();
    }
    let q = ((pos % 8) + 264 - (sig.len() + 2)) % 8;
    let mut data = vec![sig.len() as u8];
    data.extend_from_slice(sig.as_bytes());
    data.push(0);
    data.extend_from_slice(b);
    let total = data.len();
    let d = Data::new(data, Context::new_dbus(LE, q));
    match catch_unwind(AssertUnwindSafe(|| d.deserialize::<Value>().map(|(v, n)| {
        let mut out = vec![];
        show(&v, &mut out);
        (out.join(" "), n)
    }))) {
        Ok(Ok((t, n))) => if n == total { t } else { "ERR:LEN".into() },
        Ok(Err(_)) => "ERR".into(),
        Err(_) => "PANIC".into(),
    }
}

pub fn observe<T>(v: &T, pos: usize) -> String
where
    T: Type + Serialize + DeserializeOwned + PartialEq,
{
    let sig = T::SIGNATURE.to_string();
    let enc = |c: Context| catch_unwind(AssertUnwindSafe(|| zvariant::to_bytes(c, v)));
    let le = enc(Context::new_dbus(LE, pos));
    let be = enc(Context::new_dbus(BE, pos));
    let tok = |r: &std::thread::Result<zvariant::Result<Data<'static, 'static>>>| match r {
        Ok(Ok(d)) => hext(d.bytes()),
        Ok(Err(e)) => err_tok(e),
        Err(_) => "PANIC".into(),
    };
    let (vv, rr) = match &le {
        Ok(Ok(d)) => {
            let vv = read_back(&sig, pos, d.bytes());
            let rr = match catch_unwind(AssertUnwindSafe(|| d.deserialize::<T>())) {
                Ok(Ok((y, n))) => if &y == v && n == d.bytes().len() { "T" } else { "F" },
                Ok(Err(_)) => "E",
                Err(_) => "P",
            };
            (vv, rr.to_string())
        }
        _ => ("-".to_string(), "-".to_string()),
    };
    format!("S={};L={};B={};V={};R={}", sig_tok(T::SIGNATURE), tok(&le), tok(&be), vv, rr)
}

fn main() {
    hcommon::run(|line| {
        let w: Vec<&str> = line.split(' ').filter(|x| !x.is_empty()).collect();
        if w.len() < 5 || w[3] != "|" {
            return "BADCASE".into();
        }
        let oaa = cfg!(feature = "oaa");
        if (w[0] == "o") != oaa {
            return "BADCASE".into();
        }
        let idx: usize = match w[1].parse() { Ok(i) => i, Err(_) => return "BADCASE".into() };
        let pos: usize = match w[2].parse() { Ok(p) => p, Err(_) => return "BADCASE".into() };
        let bar2 = match w[4..].iter().position(|x| *x == "|") { Some(i) => 4 + i, None => return "BADCASE".into() };
        let shape = w[4..bar2].join(" ");
        // the binary must have been generated from this very description
        if gen_types::SHAPES.get(idx).copied() != Some(shape.as_str()) {
            return "BADCASE".into();
        }
        let mut p = Toks { t: w[bar2 + 1..].to_vec(), i: 0, bad: false };
        match gen_types::run(idx, pos, &mut p) {
            Some(s) => s,
            None => "BADCASE".into(),
        }
    });
}
