//! hbus — C36 / C37: a real *bus* connection of zbus (no `.p2p()`) driven over an in-memory scripted fake bus.
//!
//! The socket is a custom `Socket`: what the connection writes is handed, message by message, to the fake bus
//! (`Bus::handle`), which answers synchronously into a byte queue served by `ReadHalf::recvmsg`. The fake bus plays the
//! SASL server (`OK <guid>`, waits for `BEGIN`), answers `Hello` with the unique name `:1.42`, `RequestName` /
//! `ReleaseName` / `GetNameOwner` as the script says, and records every `AddMatch` / `RemoveMatch` with its rule string.
//! The connection is built with `internal_executor(false)`: the harness ticks `conn.executor()` itself, on this one
//! thread, so every run is replayable.
//!
//! Case lines:
//!   N <p0|p1> <step>*                      C36 (names)
//!       q<i><f><r>[+<sig>]*  request_name_with_flags(name i, flags f) ; f = 0..7 (1 allow-replacement, 2 replace-existing,
//!                            4 do-not-queue) or `d` = plain `request_name` ; r = what the bus answers IF it is asked:
//!                            1 PrimaryOwner 2 InQueue 3 Exists 4 AlreadyOwner E error reply G reply code 9 ;
//!                            +<sig>: signals the bus sends right behind the reply, in the same write
//!       r<i><r>              release_name(name i) ; r = 1 Released 2 NonExistent 3 NotOwner (if asked)
//!       A<i> L<i>            genuine NameAcquired / NameLost (sender org.freedesktop.DBus)
//!       a<i> l<i>            forged: sender :1.66          b<i> m<i>   forged: no sender field at all
//!     after every step the executor runs until idle; with p1 the connection's view of both names is probed after every
//!     step (p0: only at the end): a further request_name_with_flags(name, DoNotQueue) which the bus, if asked, answers
//!     `Exists`: O = AlreadyOwner without asking the bus, Q = InQueue without asking, N = the bus was asked.
//!     Output: one token per step `<result>/<bus>/<views>` and a final `end/<views>`;
//!       result: P Q A (RequestNameReply) X (NameTaken) T F (release) E:<class> - (signal)
//!       bus: `-` not asked, else for q: `<name index><flags seen>`, for r: `<name index>`
//!   M <seed> <o|e> <op>*                   C37 (match rules)
//!       s<h>=<hex rule>[:<maxq>]   MessageStream::for_match_rule -> object h
//!       c<h>=<h0>                  clone of stream h0
//!       d<h>                       drop(object h)            x<h>   AsyncDrop::async_drop(object h)
//!       p<h>=<dest>,<path>,<iface> Proxy (CacheProperties::No)
//!       g<h>=<p>,<member|*>[,<arg0>]  receive_signal / receive_all_signals / receive_signal_with_args on proxy p
//!       j<h1>,<h2>=<p>,<m1>,<m2>   two receive_signal futures on proxy p polled alternately
//!       n<i> N<i>                  request_name_with_flags(name i, DoNotQueue) answered PrimaryOwner / release_name
//!       t<k>                       tick the executor k times       i   run the executor until idle
//!     seed drives how many executor ticks are interposed before each poll of the foreground future (0..2);
//!     o|e: GetNameOwner answers `:1.77` | error NameHasNoOwner.
//!     Output: one token per op `<ok|err|bad>[<events>]`, events = `A<hex rule>` / `R<hex rule>` joined by `,`, in the
//!     order the bus saw them.
use std::collections::{HashMap, VecDeque};
use std::future::Future;
use std::os::fd::{BorrowedFd, OwnedFd};
use std::pin::Pin;
use std::sync::atomic::{AtomicBool, Ordering};
use std::sync::{Arc, Mutex};
use std::task::{Context, Poll, Wake, Waker};

use async_trait::async_trait;
use enumflags2::BitFlags;
use zbus::connection::socket::{ReadHalf, Socket, Split, WriteHalf};
use zbus::connection::Builder;
use zbus::fdo::{RequestNameFlags, RequestNameReply};
use zbus::proxy::CacheProperties;
use zbus::{AsyncDrop, Connection, Message, MessageStream};

const GUID: &str = "0123456789abcdef0123456789abcdef";
const UNIQUE: &str = ":1.42";
const NAMES: [&str; 2] = ["org.zbus.A", "org.zbus.B"];
const DRIVER: &str = "org.freedesktop.DBus";

// ------------------------------------------------------------------ the fake bus
#[derive(Clone, Copy, Debug, PartialEq)]
enum SigKind {
    Genuine,
    ForgedPeer,
    ForgedNoSender,
}

#[derive(Default)]
struct Bus {
    inq: VecDeque<u8>,
    rwaker: Option<Waker>,
    sasl: Vec<u8>,
    begun: bool,
    // script for the next calls
    probe: bool,
    req_reply: char,
    rel_reply: u32,
    post: Vec<(SigKind, bool, usize)>,
    gno_owner: bool,
    // records
    req_seen: Option<(String, u32)>,
    rel_seen: Option<String>,
    events: Vec<String>,
    unexpected: Vec<String>,
}

fn signal_msg(kind: SigKind, acquired: bool, name: &str) -> Message {
    let b = Message::signal("/org/freedesktop/DBus", DRIVER, if acquired { "NameAcquired" } else { "NameLost" })
        .unwrap()
        .destination(UNIQUE)
        .unwrap();
    let b = match kind {
        SigKind::Genuine => b.sender(DRIVER).unwrap(),
        SigKind::ForgedPeer => b.sender(":1.66").unwrap(),
        SigKind::ForgedNoSender => b,
    };
    b.build(&(name,)).unwrap()
}

impl Bus {
    fn push(&mut self, bytes: &[u8]) {
        self.inq.extend(bytes.iter().copied());
        if let Some(w) = self.rwaker.take() {
            w.wake();
        }
    }
    fn push_msg(&mut self, m: &Message) {
        let d = m.data();
        let b: &[u8] = &d;
        let v = b.to_vec();
        self.push(&v);
    }
    fn reply<B: serde::Serialize + zvariant::DynamicType>(&mut self, call: &Message, body: &B) {
        let m = Message::method_return(&call.header()).unwrap().sender(DRIVER).unwrap().build(body).unwrap();
        self.push_msg(&m);
    }
    fn reply_err(&mut self, call: &Message, name: &str) {
        let m = Message::error(&call.header(), name).unwrap().sender(DRIVER).unwrap().build(&("scripted",)).unwrap();
        self.push_msg(&m);
    }

    /// SASL phase: raw bytes. `\0AUTH ...\r\n` -> OK, `NEGOTIATE_UNIX_FD` -> ERROR, `BEGIN` -> the rest is messages.
    fn feed_raw(&mut self, buf: &[u8]) {
        self.sasl.extend_from_slice(buf);
        loop {
            if self.begun {
                if self.sasl.len() < 16 {
                    return;
                }
                let rest = std::mem::take(&mut self.sasl);
                let endian = if rest[0] == b'B' { zvariant::Endian::Big } else { zvariant::Endian::Little };
                let data = zvariant::serialized::Data::new(rest, zvariant::serialized::Context::new_dbus(endian, 0));
                let m = unsafe { Message::from_bytes(data) }.expect("Hello message");
                self.handle(&m);
                return;
            }
            let pos = match self.sasl.windows(2).position(|w| w == b"\r\n") {
                Some(p) => p,
                None => return,
            };
            let line: Vec<u8> = self.sasl.drain(..pos + 2).collect();
            let line = &line[..line.len() - 2];
            let line: &[u8] = if line.first() == Some(&0) { &line[1..] } else { line };
            if line.starts_with(b"AUTH") {
                let s = format!("OK {}\r\n", GUID);
                self.push(s.as_bytes());
            } else if line.starts_with(b"NEGOTIATE_UNIX_FD") {
                self.push(b"ERROR\r\n");
            } else if line.starts_with(b"BEGIN") {
                self.begun = true;
            } else {
                self.push(b"ERROR\r\n");
            }
        }
    }

    fn handle(&mut self, m: &Message) {
        let hdr = m.header();
        if m.message_type() != zbus::message::Type::MethodCall {
            self.unexpected.push("non-call".into());
            return;
        }
        let member = hdr.member().map(|x| x.to_string()).unwrap_or_default();
        let dest_ok = hdr.destination().map(|d| d.as_str() == DRIVER).unwrap_or(false);
        if !dest_ok {
            self.unexpected.push(format!("dest:{}", member));
            self.reply_err(m, "org.freedesktop.DBus.Error.ServiceUnknown");
            return;
        }
        match member.as_str() {
            "Hello" => self.reply(m, &(UNIQUE,)),
            "AddMatch" | "RemoveMatch" => {
                let rule: String = m.body().deserialize().unwrap_or_else(|_| "?".into());
                self.events.push(format!(
                    "{}{}",
                    if member == "AddMatch" { "A" } else { "R" },
                    hcommon::hex(rule.as_bytes())
                ));
                self.reply(m, &());
            }
            "RequestName" => {
                let (name, flags): (String, u32) = m.body().deserialize().unwrap_or_else(|_| ("?".into(), 99));
                if self.probe {
                    self.req_seen = Some((name, flags));
                    self.reply(m, &3u32);
                    return;
                }
                self.req_seen = Some((name, flags));
                match self.req_reply {
                    '1' => self.reply(m, &1u32),
                    '2' => self.reply(m, &2u32),
                    '3' => self.reply(m, &3u32),
                    '4' => self.reply(m, &4u32),
                    'E' => self.reply_err(m, "org.freedesktop.DBus.Error.AccessDenied"),
                    _ => self.reply(m, &9u32),
                }
                let post = std::mem::take(&mut self.post);
                for (k, acq, i) in post {
                    let s = signal_msg(k, acq, NAMES[i]);
                    self.push_msg(&s);
                }
            }
            "ReleaseName" => {
                let name: String = m.body().deserialize().unwrap_or_else(|_| "?".into());
                self.rel_seen = Some(name);
                let r = self.rel_reply;
                self.reply(m, &r);
            }
            "GetNameOwner" => {
                if self.gno_owner {
                    self.reply(m, &(":1.77",));
                } else {
                    self.reply_err(m, "org.freedesktop.DBus.Error.NameHasNoOwner");
                }
            }
            other => {
                self.unexpected.push(format!("call:{}", other));
                self.reply_err(m, "org.freedesktop.DBus.Error.UnknownMethod");
            }
        }
    }
}

type Sh = Arc<Mutex<Bus>>;

#[derive(Debug)]
struct RH(Sh);
#[derive(Debug)]
struct WH(Sh);
impl std::fmt::Debug for Bus {
    fn fmt(&self, f: &mut std::fmt::Formatter<'_>) -> std::fmt::Result {
        f.write_str("Bus")
    }
}

struct RecvFut<'a> {
    sh: &'a Sh,
    buf: &'a mut [u8],
}
impl Future for RecvFut<'_> {
    type Output = std::io::Result<(usize, Vec<OwnedFd>)>;
    fn poll(self: Pin<&mut Self>, cx: &mut Context<'_>) -> Poll<Self::Output> {
        let this = self.get_mut();
        let mut g = this.sh.lock().unwrap();
        if g.inq.is_empty() {
            g.rwaker = Some(cx.waker().clone());
            return Poll::Pending;
        }
        let n = this.buf.len().min(g.inq.len());
        for i in 0..n {
            this.buf[i] = g.inq.pop_front().unwrap();
        }
        Poll::Ready(Ok((n, vec![])))
    }
}

#[async_trait]
impl ReadHalf for RH {
    async fn recvmsg(&mut self, buf: &mut [u8]) -> std::io::Result<(usize, Vec<OwnedFd>)> {
        RecvFut { sh: &self.0, buf }.await
    }
}

#[async_trait]
impl WriteHalf for WH {
    async fn send_message(&mut self, msg: &Message) -> zbus::Result<()> {
        self.0.lock().unwrap().handle(msg);
        Ok(())
    }
    async fn sendmsg(&mut self, buf: &[u8], _fds: &[BorrowedFd<'_>]) -> std::io::Result<usize> {
        self.0.lock().unwrap().feed_raw(buf);
        Ok(buf.len())
    }
    async fn close(&mut self) -> std::io::Result<()> {
        Ok(())
    }
}

struct Sock(Sh);
impl Socket for Sock {
    type ReadHalf = RH;
    type WriteHalf = WH;
    fn split(self) -> Split<RH, WH> {
        Split::new(RH(self.0.clone()), WH(self.0))
    }
}

// ------------------------------------------------------------------ the deterministic driver
struct Flag(AtomicBool);
impl Wake for Flag {
    fn wake(self: Arc<Self>) {
        self.0.store(true, Ordering::SeqCst);
    }
    fn wake_by_ref(self: &Arc<Self>) {
        self.0.store(true, Ordering::SeqCst);
    }
}

/// Run one runnable task of the connection's executor; false if nothing is runnable.
fn tick(conn: &Connection) -> bool {
    let flag = Arc::new(Flag(AtomicBool::new(false)));
    let w = Waker::from(flag);
    let mut cx = Context::from_waker(&w);
    let fut = conn.executor().tick();
    let mut fut = std::pin::pin!(fut);
    fut.as_mut().poll(&mut cx).is_ready()
}

fn idle(conn: &Connection) -> bool {
    for _ in 0..100_000 {
        if !tick(conn) {
            return true;
        }
    }
    false
}

struct Sched(u64);
impl Sched {
    fn next(&mut self, m: u64) -> u64 {
        // numerical recipes LCG
        self.0 = self.0.wrapping_mul(6364136223846793005).wrapping_add(1442695040888963407);
        (self.0 >> 33) % m
    }
}

/// Poll `f` to completion, ticking the connection's executor (if any) in between. `pre` = how many ticks are interposed
/// before each poll. Err = the future is pending, nobody woke it and the executor has nothing to run.
fn drive<F: Future>(conn: Option<&Connection>, sched: &mut Option<&mut Sched>, f: F) -> Result<F::Output, &'static str> {
    let mut f = std::pin::pin!(f);
    let flag = Arc::new(Flag(AtomicBool::new(true)));
    let w = Waker::from(flag.clone());
    let mut cx = Context::from_waker(&w);
    for _ in 0..200_000u32 {
        if let (Some(c), Some(s)) = (conn, sched.as_mut()) {
            for _ in 0..s.next(3) {
                tick(c);
            }
        }
        flag.0.store(false, Ordering::SeqCst);
        if let Poll::Ready(v) = f.as_mut().poll(&mut cx) {
            return Ok(v);
        }
        let ticked = match conn {
            Some(c) => tick(c),
            None => false,
        };
        if !ticked && !flag.0.load(Ordering::SeqCst) {
            return Err("HANG");
        }
    }
    Err("HANG")
}

fn connect(gno_owner: bool) -> Result<(Connection, Sh), String> {
    let sh: Sh = Arc::new(Mutex::new(Bus { gno_owner, req_reply: '3', rel_reply: 2, ..Default::default() }));
    let fut = Builder::socket(Sock(sh.clone())).internal_executor(false).build();
    match drive(None, &mut None, fut) {
        Err(h) => Err(format!("BUILD-{}", h)),
        Ok(Err(e)) => Err(format!("BUILD-ERR:{}", err_class(&e))),
        Ok(Ok(c)) => {
            if !c.is_bus() || c.unique_name().map(|u| u.as_str()) != Some(UNIQUE) {
                return Err("BUILD-NOTBUS".into());
            }
            idle(&c);
            Ok((c, sh))
        }
    }
}

fn err_class(e: &zbus::Error) -> &'static str {
    match e {
        zbus::Error::NameTaken => "taken",
        zbus::Error::MethodError(..) => "method",
        zbus::Error::InputOutput(_) => "io",
        zbus::Error::Variant(_) => "variant",
        zbus::Error::InvalidReply => "reply",
        zbus::Error::FDO(_) => "fdo",
        zbus::Error::Names(_) => "names",
        _ => "other",
    }
}

// ------------------------------------------------------------------ C36
fn view(conn: &Connection, sh: &Sh, i: usize) -> String {
    {
        let mut g = sh.lock().unwrap();
        g.probe = true;
        g.req_seen = None;
    }
    let r = drive(Some(conn), &mut None, conn.request_name_with_flags(NAMES[i], RequestNameFlags::DoNotQueue.into()));
    idle(conn);
    let mut g = sh.lock().unwrap();
    g.probe = false;
    let asked = g.req_seen.take();
    match (r, asked) {
        (Err(h), _) => h.into(),
        (Ok(Ok(RequestNameReply::AlreadyOwner)), None) => "O".into(),
        (Ok(Ok(RequestNameReply::InQueue)), None) => "Q".into(),
        (Ok(Err(zbus::Error::NameTaken)), Some((n, f))) if n == NAMES[i] && f == 4 => "N".into(),
        (Ok(x), a) => format!("?{:?}:{:?}", x.map_err(|e| err_class(&e)), a),
    }
}

fn views(conn: &Connection, sh: &Sh) -> String {
    format!("{}{}", view(conn, sh, 0), view(conn, sh, 1))
}

fn parse_sig(t: &str) -> Option<(SigKind, bool, usize)> {
    let b = t.as_bytes();
    if b.len() != 2 {
        return None;
    }
    let i = match b[1] {
        b'0' => 0,
        b'1' => 1,
        _ => return None,
    };
    Some(match b[0] {
        b'A' => (SigKind::Genuine, true, i),
        b'L' => (SigKind::Genuine, false, i),
        b'a' => (SigKind::ForgedPeer, true, i),
        b'l' => (SigKind::ForgedPeer, false, i),
        b'b' => (SigKind::ForgedNoSender, true, i),
        b'm' => (SigKind::ForgedNoSender, false, i),
        _ => return None,
    })
}

fn name_idx(n: &str) -> String {
    match NAMES.iter().position(|x| *x == n) {
        Some(i) => i.to_string(),
        None => "?".into(),
    }
}

fn names_case(w: &[&str]) -> String {
    if w.len() < 2 {
        return "BADCASE".into();
    }
    let every = match w[1] {
        "p1" => true,
        "p0" => false,
        _ => return "BADCASE".into(),
    };
    // parse first, so that a malformed line never runs half way
    for st in &w[2..] {
        let b = st.as_bytes();
        let ok = match b.first() {
            Some(b'q') => {
                let parts: Vec<&str> = st.split('+').collect();
                let h = parts[0].as_bytes();
                h.len() == 4
                    && (h[1] == b'0' || h[1] == b'1')
                    && (h[2] == b'd' || (b'0'..=b'7').contains(&h[2]))
                    && b"1234EG".contains(&h[3])
                    && parts[1..].iter().all(|p| parse_sig(p).is_some())
            }
            Some(b'r') => b.len() == 3 && (b[1] == b'0' || b[1] == b'1') && b"123".contains(&b[2]),
            Some(_) => parse_sig(st).is_some(),
            None => false,
        };
        if !ok {
            return "BADCASE".into();
        }
    }
    let (conn, sh) = match connect(true) {
        Ok(x) => x,
        Err(e) => return e,
    };
    let mut out: Vec<String> = vec![];
    for st in &w[2..] {
        let b = st.as_bytes();
        let (res, bus): (String, String) = match b[0] {
            b'q' => {
                let parts: Vec<&str> = st.split('+').collect();
                let h = parts[0].as_bytes();
                let i = (h[1] - b'0') as usize;
                {
                    let mut g = sh.lock().unwrap();
                    g.req_reply = h[3] as char;
                    g.req_seen = None;
                    g.post = parts[1..].iter().map(|p| parse_sig(p).unwrap()).collect();
                }
                let r = if h[2] == b'd' {
                    drive(Some(&conn), &mut None, conn.request_name(NAMES[i])).map(|r| r.map(|_| None))
                } else {
                    let flags = BitFlags::<RequestNameFlags>::from_bits((h[2] - b'0') as u32).unwrap();
                    drive(Some(&conn), &mut None, conn.request_name_with_flags(NAMES[i], flags)).map(|r| r.map(Some))
                };
                let res = match r {
                    Err(hang) => hang.to_string(),
                    Ok(Ok(None)) => "U".into(),
                    Ok(Ok(Some(RequestNameReply::PrimaryOwner))) => "P".into(),
                    Ok(Ok(Some(RequestNameReply::InQueue))) => "Q".into(),
                    Ok(Ok(Some(RequestNameReply::AlreadyOwner))) => "A".into(),
                    Ok(Ok(Some(RequestNameReply::Exists))) => "?exists".into(),
                    Ok(Err(zbus::Error::NameTaken)) => "X".into(),
                    Ok(Err(e)) => format!("E:{}", err_class(&e)),
                };
                let mut g = sh.lock().unwrap();
                g.post.clear();
                let bus = match g.req_seen.take() {
                    None => "-".to_string(),
                    Some((n, f)) => format!("{}{}", name_idx(&n), f),
                };
                (res, bus)
            }
            b'r' => {
                let i = (b[1] - b'0') as usize;
                {
                    let mut g = sh.lock().unwrap();
                    g.rel_reply = (b[2] - b'0') as u32;
                    g.rel_seen = None;
                }
                let r = drive(Some(&conn), &mut None, conn.release_name(NAMES[i]));
                let res = match r {
                    Err(hang) => hang.to_string(),
                    Ok(Ok(true)) => "T".into(),
                    Ok(Ok(false)) => "F".into(),
                    Ok(Err(e)) => format!("E:{}", err_class(&e)),
                };
                let mut g = sh.lock().unwrap();
                let bus = match g.rel_seen.take() {
                    None => "-".to_string(),
                    Some(n) => name_idx(&n),
                };
                (res, bus)
            }
            _ => {
                let (k, acq, i) = parse_sig(st).unwrap();
                let m = signal_msg(k, acq, NAMES[i]);
                sh.lock().unwrap().push_msg(&m);
                ("-".into(), "-".into())
            }
        };
        if !idle(&conn) {
            return "LIVELOCK".into();
        }
        let v = if every { views(&conn, &sh) } else { "--".into() };
        out.push(format!("{}/{}/{}", res, bus, v));
    }
    out.push(format!("end/{}", views(&conn, &sh)));
    let g = sh.lock().unwrap();
    if !g.unexpected.is_empty() {
        out.push(format!("UNEXPECTED:{}", g.unexpected.join(";")));
    }
    out.join(" ")
}

// ------------------------------------------------------------------ C37
enum Obj {
    Stream(MessageStream),
    Sig(zbus::proxy::SignalStream<'static>),
    Proxy(zbus::Proxy<'static>),
}

fn take_events(sh: &Sh) -> String {
    let mut g = sh.lock().unwrap();
    let ev = std::mem::take(&mut g.events);
    ev.join(",")
}

async fn recv_sig(
    p: zbus::Proxy<'static>,
    member: String,
    arg0: Option<String>,
) -> zbus::Result<zbus::proxy::SignalStream<'static>> {
    if member == "*" {
        p.receive_all_signals().await
    } else if let Some(a) = arg0 {
        p.receive_signal_with_args(member, &[(0, a.as_str())]).await
    } else {
        p.receive_signal(member).await
    }
}

/// Poll two futures alternately (first a, then b, ...) until both are done, ticking in between.
fn drive2<A: Future, B: Future>(conn: &Connection, sched: &mut Sched, a: A, b: B) -> Result<(A::Output, B::Output), &'static str> {
    let mut a = std::pin::pin!(a);
    let mut b = std::pin::pin!(b);
    let flag = Arc::new(Flag(AtomicBool::new(true)));
    let w = Waker::from(flag.clone());
    let mut cx = Context::from_waker(&w);
    let (mut ra, mut rb) = (None, None);
    for _ in 0..200_000u32 {
        for _ in 0..sched.next(3) {
            tick(conn);
        }
        flag.0.store(false, Ordering::SeqCst);
        let first_a = sched.next(2) == 0;
        for k in 0..2 {
            if (k == 0) == first_a {
                if ra.is_none() {
                    if let Poll::Ready(v) = a.as_mut().poll(&mut cx) {
                        ra = Some(v);
                    }
                }
            } else if rb.is_none() {
                if let Poll::Ready(v) = b.as_mut().poll(&mut cx) {
                    rb = Some(v);
                }
            }
        }
        if ra.is_some() && rb.is_some() {
            return Ok((ra.unwrap(), rb.unwrap()));
        }
        let ticked = tick(conn);
        if !ticked && !flag.0.load(Ordering::SeqCst) {
            return Err("HANG");
        }
    }
    Err("HANG")
}

fn matches_case(w: &[&str]) -> String {
    if w.len() < 3 {
        return "BADCASE".into();
    }
    let seed: u64 = match w[1].parse() {
        Ok(s) => s,
        Err(_) => return "BADCASE".into(),
    };
    let gno = match w[2] {
        "o" => true,
        "e" => false,
        _ => return "BADCASE".into(),
    };
    let (conn, sh) = match connect(gno) {
        Ok(x) => x,
        Err(e) => return e,
    };
    sh.lock().unwrap().events.clear();
    let mut sched = Sched(seed.wrapping_mul(2654435761).wrapping_add(12345));
    let mut objs: HashMap<u32, Obj> = HashMap::new();
    let mut out: Vec<String> = vec![];
    for op in &w[3..] {
        let (kind, rest) = op.split_at(1);
        let res: String = (|| -> Option<String> {
            Some(match kind {
                "s" => {
                    let (h, r) = rest.split_once('=')?;
                    let h: u32 = h.parse().ok()?;
                    let r = r.split('~').next()?; // `~<hex>` = the canonical form, for the model only
                    let (r, mq) = match r.split_once(':') {
                        Some((r, k)) => (r, Some(k.parse::<usize>().ok()?)),
                        None => (r, None),
                    };
                    let rule = String::from_utf8(hcommon::unhex(r)?).ok()?;
                    if objs.contains_key(&h) {
                        return None;
                    }
                    match drive(Some(&conn), &mut Some(&mut sched), MessageStream::for_match_rule(rule.as_str(), &conn, mq)) {
                        Err(hang) => hang.into(),
                        Ok(Ok(s)) => {
                            objs.insert(h, Obj::Stream(s));
                            "ok".into()
                        }
                        Ok(Err(_)) => "err".into(),
                    }
                }
                "c" => {
                    let (h, h0) = rest.split_once('=')?;
                    let (h, h0): (u32, u32) = (h.parse().ok()?, h0.parse().ok()?);
                    if objs.contains_key(&h) {
                        return None;
                    }
                    let c = match objs.get(&h0)? {
                        Obj::Stream(s) => s.clone(),
                        _ => return None,
                    };
                    objs.insert(h, Obj::Stream(c));
                    "ok".into()
                }
                "d" => {
                    let h: u32 = rest.parse().ok()?;
                    let o = objs.remove(&h)?;
                    drop(o);
                    "ok".into()
                }
                "x" => {
                    let h: u32 = rest.parse().ok()?;
                    match objs.remove(&h)? {
                        Obj::Stream(s) => drive(Some(&conn), &mut Some(&mut sched), s.async_drop()).map(|_| "ok").unwrap_or_else(|e| e).into(),
                        Obj::Sig(s) => drive(Some(&conn), &mut Some(&mut sched), s.async_drop()).map(|_| "ok").unwrap_or_else(|e| e).into(),
                        Obj::Proxy(_) => return None,
                    }
                }
                "p" => {
                    let (h, r) = rest.split_once('=')?;
                    let h: u32 = h.parse().ok()?;
                    let f: Vec<&str> = r.split(',').collect();
                    if f.len() != 3 || objs.contains_key(&h) {
                        return None;
                    }
                    let b = zbus::proxy::Builder::<zbus::Proxy<'static>>::new(&conn)
                        .destination(f[0].to_string())
                        .ok()?
                        .path(f[1].to_string())
                        .ok()?
                        .interface(f[2].to_string())
                        .ok()?
                        .cache_properties(CacheProperties::No);
                    match drive(Some(&conn), &mut Some(&mut sched), b.build()) {
                        Err(hang) => hang.into(),
                        Ok(Ok(p)) => {
                            objs.insert(h, Obj::Proxy(p));
                            "ok".into()
                        }
                        Ok(Err(_)) => "err".into(),
                    }
                }
                "g" => {
                    let (h, r) = rest.split_once('=')?;
                    let h: u32 = h.parse().ok()?;
                    let f: Vec<&str> = r.split(',').collect();
                    if f.len() < 2 || f.len() > 3 || objs.contains_key(&h) {
                        return None;
                    }
                    let p = match objs.get(&f[0].parse::<u32>().ok()?)? {
                        Obj::Proxy(p) => p.clone(),
                        _ => return None,
                    };
                    let fut = recv_sig(p, f[1].to_string(), f.get(2).map(|s| s.to_string()));
                    match drive(Some(&conn), &mut Some(&mut sched), fut) {
                        Err(hang) => hang.into(),
                        Ok(Ok(s)) => {
                            objs.insert(h, Obj::Sig(s));
                            "ok".into()
                        }
                        Ok(Err(_)) => "err".into(),
                    }
                }
                "j" => {
                    let (hs, r) = rest.split_once('=')?;
                    let (h1, h2) = hs.split_once(',')?;
                    let (h1, h2): (u32, u32) = (h1.parse().ok()?, h2.parse().ok()?);
                    let f: Vec<&str> = r.split(',').collect();
                    if f.len() != 3 || h1 == h2 || objs.contains_key(&h1) || objs.contains_key(&h2) {
                        return None;
                    }
                    let p = match objs.get(&f[0].parse::<u32>().ok()?)? {
                        Obj::Proxy(p) => p.clone(),
                        _ => return None,
                    };
                    let fa = recv_sig(p.clone(), f[1].to_string(), None);
                    let fb = recv_sig(p, f[2].to_string(), None);
                    match drive2(&conn, &mut sched, fa, fb) {
                        Err(hang) => hang.into(),
                        Ok((Ok(a), Ok(b))) => {
                            objs.insert(h1, Obj::Sig(a));
                            objs.insert(h2, Obj::Sig(b));
                            "ok".into()
                        }
                        Ok(_) => "err".into(),
                    }
                }
                "n" => {
                    let i: usize = rest.parse().ok()?;
                    if i > 1 {
                        return None;
                    }
                    sh.lock().unwrap().req_reply = '1';
                    match drive(Some(&conn), &mut Some(&mut sched), conn.request_name_with_flags(NAMES[i], RequestNameFlags::DoNotQueue.into())) {
                        Err(hang) => hang.into(),
                        Ok(Ok(_)) => "ok".into(),
                        Ok(Err(_)) => "err".into(),
                    }
                }
                "N" => {
                    let i: usize = rest.parse().ok()?;
                    if i > 1 {
                        return None;
                    }
                    sh.lock().unwrap().rel_reply = 1;
                    match drive(Some(&conn), &mut Some(&mut sched), conn.release_name(NAMES[i])) {
                        Err(hang) => hang.into(),
                        Ok(Ok(_)) => "ok".into(),
                        Ok(Err(_)) => "err".into(),
                    }
                }
                "t" => {
                    let k: u32 = rest.parse().ok()?;
                    for _ in 0..k {
                        tick(&conn);
                    }
                    "ok".into()
                }
                "i" => {
                    if !rest.is_empty() {
                        return None;
                    }
                    if idle(&conn) { "ok".into() } else { "LIVELOCK".into() }
                }
                _ => return None,
            })
        })()
        .unwrap_or_else(|| "bad".into());
        out.push(format!("{}[{}]", res, take_events(&sh)));
    }
    // the objects still alive are dropped with the connection; nothing is observed after the last op
    let g = sh.lock().unwrap();
    if !g.unexpected.is_empty() {
        out.push(format!("UNEXPECTED:{}", g.unexpected.join(";")));
    }
    drop(g);
    out.join(" ")
}

fn main() {
    hcommon::run(|line| {
        let w: Vec<&str> = line.split(' ').filter(|s| !s.is_empty()).collect();
        match w.first().copied() {
            Some("N") => names_case(&w),
            Some("M") => matches_case(&w),
            _ => "BADCASE".into(),
        }
    });
}
