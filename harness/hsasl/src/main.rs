//! C16 / C17: the real SASL handshake of zbus driven over a scripted socket (no patch to /repo).
//!
//! Case lines (tokens separated by one space):
//!   S <mech> <uid> <fdcap> <wmax> <obs> <chunks>            server side  (C16)
//!   C <mech> <guid> <fdcap> <flatpak> <wmax> <obs> <chunks> client side  (C17)
//! mech    E|A   mechanism set on the Builder (the socket's own default is then the *other* one)
//!         e|a   Builder unset, the socket's `auth_mechanism()` says EXTERNAL|ANONYMOUS
//! uid     `-` peer credentials unknown, else the decimal uid in the scripted `ConnectionCredentials`
//! guid    `-` no expected GUID, else 32 hex digits (only with obs = G: goes through `Builder::address(..guid=..)`)
//! fdcap   0|1   what the socket's `can_pass_unix_fd()` answers
//! flatpak 0|1   FLATPAK_ID set in the environment (non-pipelined NEGOTIATE_UNIX_FD path)
//! wmax    0 = `sendmsg` takes everything, k>0 = at most k bytes per call (partial writes)
//! obs     A  the read half overrides `receive_message` and records the leftover bytes/fds handed over
//!         B  default `receive_message`: the messages yielded by a `MessageStream` are recorded
//!         G  (client only) a real abstract unix socket, server thread writes the script in one `write`
//! chunks  `-` or comma separated `<hex>[@n]`: what successive `recvmsg` calls return, n fds attached (fd ids are
//!         numbered 0,1,.. in script order); a chunk larger than the caller's buffer is handed out in pieces; after
//!         the script: `Ok(0)` (EOF)
//!
//! Output: `DONE w=<hex written> fd=<0|1> tail=<hex> fds=<ids joined by .|->`  (G: `DONE w=.. fd=..`)
//!         `ERR:<H|G|IO|X> w=<hex>`   `PANIC w=<hex>`
//! tail = leftover handed to the message reader ++ bytes not yet read from the script (A), or the concatenated
//! bytes of the messages delivered by the stream (B). The client's own uid in `AUTH EXTERNAL <hex(uid)>` is
//! canonicalised to `40` (hex of "@").
use std::collections::VecDeque;
use std::future::Future;
use std::io::{Read, Write};
use std::os::fd::{AsFd, BorrowedFd, OwnedFd};
use std::os::unix::fs::MetadataExt;
use std::panic::{catch_unwind, AssertUnwindSafe};
use std::pin::Pin;
use std::sync::{Arc, Mutex};
use std::task::{Context, Poll, Waker};

use async_trait::async_trait;
use futures_core::Stream;
use zbus::connection::socket::{ReadHalf, Socket, Split, WriteHalf};
use zbus::connection::{AuthMechanism, Builder};
use zbus::fdo::ConnectionCredentials;
use zbus::{Connection, Message, MessageStream};

const SERVER_GUID: &str = "0123456789abcdef0123456789abcdef";

fn ino_of(fd: BorrowedFd<'_>) -> u64 {
    let dup = fd.try_clone_to_owned().expect("dup");
    std::fs::File::from(dup).metadata().map(|m| m.ino()).unwrap_or(0)
}

#[derive(Debug, Default)]
struct Shared {
    script: VecDeque<(Vec<u8>, Vec<OwnedFd>)>,
    inos: Vec<u64>, // fd id -> inode
    written: Vec<u8>,
    mute: bool, // the fd-capability probe must not pollute `written`
    handed: Option<(Vec<u8>, Vec<u64>)>,
}

#[derive(Debug)]
struct Sock {
    sh: Arc<Mutex<Shared>>,
    fdcap: bool,
    uid: Option<u32>,
    mech: AuthMechanism,
    wmax: usize,
    record: bool,
}
#[derive(Debug)]
struct RecRead {
    sh: Arc<Mutex<Shared>>,
    fdcap: bool,
    uid: Option<u32>,
    mech: AuthMechanism,
}
#[derive(Debug)]
struct PlainRead(RecRead);
#[derive(Debug)]
struct Wr {
    sh: Arc<Mutex<Shared>>,
    fdcap: bool,
    wmax: usize,
}

fn scripted_recv(sh: &Arc<Mutex<Shared>>, buf: &mut [u8]) -> std::io::Result<(usize, Vec<OwnedFd>)> {
    let mut g = sh.lock().unwrap();
    match g.script.pop_front() {
        None => Ok((0, vec![])),
        Some((bytes, fds)) => {
            if bytes.len() <= buf.len() {
                buf[..bytes.len()].copy_from_slice(&bytes);
                Ok((bytes.len(), fds))
            } else {
                let n = buf.len();
                buf.copy_from_slice(&bytes[..n]);
                g.script.push_front((bytes[n..].to_vec(), vec![]));
                Ok((n, fds))
            }
        }
    }
}

fn creds(uid: Option<u32>) -> ConnectionCredentials {
    match uid {
        Some(u) => ConnectionCredentials::default().set_unix_user_id(u),
        None => ConnectionCredentials::default(),
    }
}

#[async_trait]
impl ReadHalf for RecRead {
    async fn receive_message(
        &mut self,
        _seq: u64,
        already_received_bytes: &mut Vec<u8>,
        already_received_fds: &mut Vec<OwnedFd>,
    ) -> zbus::Result<Message> {
        let mut g = self.sh.lock().unwrap();
        if g.handed.is_none() {
            let inos = already_received_fds.iter().map(|f| ino_of(f.as_fd())).collect();
            g.handed = Some((already_received_bytes.clone(), inos));
        }
        Err(zbus::Error::InputOutput(Arc::new(std::io::Error::new(
            std::io::ErrorKind::UnexpectedEof,
            "end of observation",
        ))))
    }
    async fn recvmsg(&mut self, buf: &mut [u8]) -> std::io::Result<(usize, Vec<OwnedFd>)> {
        scripted_recv(&self.sh, buf)
    }
    fn can_pass_unix_fd(&self) -> bool {
        self.fdcap
    }
    async fn peer_credentials(&mut self) -> std::io::Result<ConnectionCredentials> {
        Ok(creds(self.uid))
    }
    fn auth_mechanism(&self) -> AuthMechanism {
        self.mech
    }
}

#[async_trait]
impl ReadHalf for PlainRead {
    async fn recvmsg(&mut self, buf: &mut [u8]) -> std::io::Result<(usize, Vec<OwnedFd>)> {
        scripted_recv(&self.0.sh, buf)
    }
    fn can_pass_unix_fd(&self) -> bool {
        self.0.fdcap
    }
    async fn peer_credentials(&mut self) -> std::io::Result<ConnectionCredentials> {
        Ok(creds(self.0.uid))
    }
    fn auth_mechanism(&self) -> AuthMechanism {
        self.0.mech
    }
}

#[async_trait]
impl WriteHalf for Wr {
    async fn sendmsg(&mut self, buffer: &[u8], _fds: &[BorrowedFd<'_>]) -> std::io::Result<usize> {
        let n = if self.wmax == 0 { buffer.len() } else { buffer.len().min(self.wmax) };
        let mut g = self.sh.lock().unwrap();
        if !g.mute {
            g.written.extend_from_slice(&buffer[..n]);
        }
        Ok(n)
    }
    async fn close(&mut self) -> std::io::Result<()> {
        Ok(())
    }
    fn can_pass_unix_fd(&self) -> bool {
        self.fdcap
    }
}

struct RecSock(Sock);
struct PlainSock(Sock);
impl Socket for RecSock {
    type ReadHalf = RecRead;
    type WriteHalf = Wr;
    fn split(self) -> Split<RecRead, Wr> {
        let s = self.0;
        Split::new(
            RecRead { sh: s.sh.clone(), fdcap: s.fdcap, uid: s.uid, mech: s.mech },
            Wr { sh: s.sh, fdcap: s.fdcap, wmax: s.wmax },
        )
    }
}
impl Socket for PlainSock {
    type ReadHalf = PlainRead;
    type WriteHalf = Wr;
    fn split(self) -> Split<PlainRead, Wr> {
        let s = self.0;
        Split::new(
            PlainRead(RecRead { sh: s.sh.clone(), fdcap: s.fdcap, uid: s.uid, mech: s.mech }),
            Wr { sh: s.sh, fdcap: s.fdcap, wmax: s.wmax },
        )
    }
}

fn poll_once<F: Future + ?Sized>(f: Pin<&mut F>) -> Poll<F::Output> {
    let mut cx = Context::from_waker(Waker::noop());
    f.poll(&mut cx)
}

/// Run one runnable task of the connection's executor; false if nothing is runnable.
fn tick(conn: &Connection) -> bool {
    let fut = conn.executor().tick();
    let mut fut = std::pin::pin!(fut);
    poll_once(fut.as_mut()).is_ready()
}

fn err_class(e: &zbus::Error) -> &'static str {
    match e {
        zbus::Error::Handshake(_) => "H",
        zbus::Error::InvalidGUID => "G",
        zbus::Error::InputOutput(_) => "IO",
        _ => "X",
    }
}

fn new_fd() -> OwnedFd {
    OwnedFd::from(std::os::unix::net::UnixDatagram::unbound().expect("socket"))
}

/// Is fd passing enabled on the built connection? `Connection::send` refuses a message carrying
/// fds with `Error::Unsupported` exactly when `cap_unix_fd` is false.
fn probe_fd_cap(conn: &Connection) -> (bool, Vec<u8>) {
    let fd = zvariant::Fd::from(new_fd());
    let msg = Message::signal("/p", "a.b", "M").unwrap().build(&(fd,)).unwrap();
    let bytes = msg.data().to_vec();
    let r = zbus::block_on(conn.send(&msg));
    (!matches!(r, Err(zbus::Error::Unsupported)), bytes)
}

fn parse_mech(t: &str) -> Option<(Option<AuthMechanism>, AuthMechanism)> {
    Some(match t {
        "E" => (Some(AuthMechanism::External), AuthMechanism::Anonymous),
        "A" => (Some(AuthMechanism::Anonymous), AuthMechanism::External),
        "e" => (None, AuthMechanism::External),
        "a" => (None, AuthMechanism::Anonymous),
        _ => return None,
    })
}

fn parse_chunks(t: &str, sh: &mut Shared) -> Option<()> {
    if t == "-" {
        return Some(());
    }
    for c in t.split(',') {
        let (h, n) = match c.split_once('@') {
            Some((h, n)) => (h, n.parse::<usize>().ok()?),
            None => (c, 0),
        };
        let bytes = hcommon::unhex(h)?;
        let mut fds = vec![];
        for _ in 0..n {
            let fd = new_fd();
            sh.inos.push(ino_of(fd.as_fd()));
            fds.push(fd);
        }
        sh.script.push_back((bytes, fds));
    }
    Some(())
}

fn ids(sh: &Shared, inos: &[u64]) -> Vec<String> {
    inos.iter()
        .map(|i| match sh.inos.iter().position(|x| x == i) {
            Some(k) => k.to_string(),
            None => "?".to_string(),
        })
        .collect()
}

fn fmt_ids(v: &[String]) -> String {
    if v.is_empty() { "-".into() } else { v.join(".") }
}

/// The client writes its own effective uid; render it as "@" so that case lines do not depend on who runs the check.
fn canon_written(w: &[u8]) -> Vec<u8> {
    let uid = unsafe_geteuid().to_string();
    let pat = [b"AUTH EXTERNAL ".as_slice(), hcommon::hex(uid.as_bytes()).as_bytes(), b"\r\n"].concat();
    if let Some(p) = w.windows(pat.len()).position(|x| x == pat.as_slice()) {
        let mut out = w[..p].to_vec();
        out.extend_from_slice(b"AUTH EXTERNAL 40\r\n");
        out.extend_from_slice(&w[p + pat.len()..]);
        out
    } else {
        w.to_vec()
    }
}

fn unsafe_geteuid() -> u32 {
    // /proc/self is owned by the effective uid of the process
    std::fs::metadata("/proc/self").map(|m| m.uid()).unwrap_or(0)
}

enum Side {
    Server { uid: Option<u32> },
    Client { flatpak: bool },
}

fn after_build(
    res: zbus::Result<Connection>,
    sh: &Arc<Mutex<Shared>>,
    obs: &str,
    client: bool,
) -> String {
    let wr = |sh: &Arc<Mutex<Shared>>| {
        let w = sh.lock().unwrap().written.clone();
        hcommon::hex(&if client { canon_written(&w) } else { w })
    };
    let conn = match res {
        Err(e) => return format!("ERR:{} w={}", err_class(&e), wr(sh)),
        Ok(c) => c,
    };
    let w = wr(sh);
    sh.lock().unwrap().mute = true;
    let (cap, _) = probe_fd_cap(&conn);
    let (tail, fds): (Vec<u8>, Vec<String>) = if obs == "A" {
        let mut n = 0;
        while sh.lock().unwrap().handed.is_none() && n < 64 && tick(&conn) {
            n += 1;
        }
        let mut g = sh.lock().unwrap();
        let (mut bytes, inos) = match g.handed.take() {
            Some(x) => x,
            None => return format!("NOHANDOFF w={}", w),
        };
        let mut fd_ids = ids(&g, &inos);
        let rest: Vec<(Vec<u8>, Vec<OwnedFd>)> = g.script.drain(..).collect();
        for (b, f) in rest {
            bytes.extend_from_slice(&b);
            let i: Vec<u64> = f.iter().map(|x| ino_of(x.as_fd())).collect();
            fd_ids.extend(ids(&g, &i));
        }
        (bytes, fd_ids)
    } else {
        // B: default receive_message, collect what the stream yields until it ends with an error
        let mut stream = MessageStream::from(&conn);
        let mut bytes = vec![];
        let mut fd_ids = vec![];
        let mut guard = 0;
        loop {
            guard += 1;
            if guard > 4096 {
                break;
            }
            let mut s = Pin::new(&mut stream);
            match poll_once(std::pin::pin!(std::future::poll_fn(|cx| s.as_mut().poll_next(cx))).as_mut()) {
                Poll::Ready(Some(Ok(m))) => {
                    bytes.extend_from_slice(m.data());
                    let g = sh.lock().unwrap();
                    let i: Vec<u64> = m.data().fds().iter().map(|f| ino_of(f.as_fd())).collect();
                    fd_ids.extend(ids(&g, &i));
                }
                Poll::Ready(Some(Err(_))) | Poll::Ready(None) => break,
                Poll::Pending => {
                    if !tick(&conn) {
                        break;
                    }
                }
            }
        }
        (bytes, fd_ids)
    };
    format!("DONE w={} fd={} tail={} fds={}", w, cap as u8, hcommon::hex(&tail), fmt_ids(&fds))
}

fn run_scripted(side: Side, mech_t: &str, fdcap: &str, wmax: &str, obs: &str, chunks: &str) -> String {
    let (bmech, smech) = match parse_mech(mech_t) {
        Some(x) => x,
        None => return "BADCASE".into(),
    };
    let fdcap = match fdcap {
        "0" => false,
        "1" => true,
        _ => return "BADCASE".into(),
    };
    let wmax: usize = match wmax.parse() {
        Ok(x) => x,
        Err(_) => return "BADCASE".into(),
    };
    if obs != "A" && obs != "B" {
        return "BADCASE".into();
    }
    let mut shared = Shared::default();
    if parse_chunks(chunks, &mut shared).is_none() {
        return "BADCASE".into();
    }
    let sh = Arc::new(Mutex::new(shared));
    let (uid, client) = match &side {
        Side::Server { uid } => (*uid, false),
        Side::Client { .. } => (None, true),
    };
    let sock = Sock { sh: sh.clone(), fdcap, uid, mech: smech, wmax, record: obs == "A" };
    let record = sock.record;
    if let Side::Client { flatpak } = &side {
        if *flatpak {
            std::env::set_var("FLATPAK_ID", "org.zv.Test");
        } else {
            std::env::remove_var("FLATPAK_ID");
        }
    }
    let sh2 = sh.clone();
    let r = catch_unwind(AssertUnwindSafe(move || {
        let mut b = if record { Builder::socket(RecSock(sock)) } else { Builder::socket(PlainSock(sock)) };
        if let Side::Server { .. } = side {
            b = match b.server(SERVER_GUID) {
                Ok(b) => b,
                Err(_) => return "BADGUID".to_string(),
            };
        }
        b = b.p2p().internal_executor(false);
        if let Some(m) = bmech {
            b = b.auth_mechanism(m);
        }
        let res = zbus::block_on(b.build());
        after_build(res, &sh2, obs, client)
    }));
    match r {
        Ok(s) => s,
        Err(_) => {
            let w = match sh.lock() {
                Ok(g) => g.written.clone(),
                Err(p) => p.into_inner().written.clone(),
            };
            format!("PANIC w={}", hcommon::hex(&if client { canon_written(&w) } else { w }))
        }
    }
}

static COUNTER: std::sync::atomic::AtomicUsize = std::sync::atomic::AtomicUsize::new(0);

/// Client against a real abstract unix socket, expected GUID passed through the address.
fn run_real(mech_t: &str, guid: &str, flatpak: bool, chunks: &str) -> String {
    use std::os::linux::net::SocketAddrExt;
    use std::os::unix::net::{SocketAddr, UnixListener};
    // a real unix socket says EXTERNAL itself: "a" (socket says ANONYMOUS) cannot be scripted here
    let (bmech, _) = match parse_mech(mech_t) {
        Some(x) if mech_t != "a" => x,
        _ => return "BADCASE".into(),
    };
    let mut script = vec![];
    if chunks != "-" {
        for c in chunks.split(',') {
            match hcommon::unhex(c) {
                Some(b) => script.extend_from_slice(&b),
                None => return "BADCASE".into(),
            }
        }
    }
    let n = COUNTER.fetch_add(1, std::sync::atomic::Ordering::SeqCst);
    let name = format!("zv-hsasl-{}-{}", std::process::id(), n);
    let addr = SocketAddr::from_abstract_name(name.as_bytes()).expect("abstract name");
    let listener = UnixListener::bind_addr(&addr).expect("bind");
    let th = std::thread::spawn(move || -> Vec<u8> {
        let (mut s, _) = listener.accept().expect("accept");
        let _ = s.set_read_timeout(Some(std::time::Duration::from_secs(5)));
        let _ = s.write_all(&script);
        let mut got = vec![];
        let mut buf = [0u8; 4096];
        loop {
            match s.read(&mut buf) {
                Ok(0) | Err(_) => break,
                Ok(k) => got.extend_from_slice(&buf[..k]),
            }
        }
        got
    });
    if flatpak {
        std::env::set_var("FLATPAK_ID", "org.zv.Test");
    } else {
        std::env::remove_var("FLATPAK_ID");
    }
    let a = if guid == "-" {
        format!("unix:abstract={}", name)
    } else {
        format!("unix:abstract={},guid={}", name, guid)
    };
    let r = catch_unwind(AssertUnwindSafe(|| {
        let mut b = match Builder::address(a.as_str()) {
            Ok(b) => b,
            Err(_) => return ("BADCASE".to_string(), vec![]),
        };
        b = b.p2p().internal_executor(false);
        if let Some(m) = bmech {
            b = b.auth_mechanism(m);
        }
        match zbus::block_on(b.build()) {
            Err(e) => (format!("ERR:{}", err_class(&e)), vec![]),
            Ok(conn) => {
                let (cap, probe) = probe_fd_cap(&conn);
                drop(conn);
                (format!("DONE fd={}", cap as u8), if cap { probe } else { vec![] })
            }
        }
    }));
    let (head, probe) = match r {
        Ok(x) => x,
        Err(_) => ("PANIC".to_string(), vec![]),
    };
    let mut got = th.join().unwrap_or_default();
    if !probe.is_empty() && got.ends_with(&probe) {
        got.truncate(got.len() - probe.len());
    }
    let w = hcommon::hex(&canon_written(&got));
    match head.split_once(' ') {
        Some((h, rest)) => format!("{} w={} {}", h, w, rest),
        None => format!("{} w={}", head, w),
    }
}

fn main() {
    hcommon::run(|line| {
        let w: Vec<&str> = line.split(' ').filter(|x| !x.is_empty()).collect();
        match w.as_slice() {
            ["S", mech, uid, fdcap, wmax, obs, chunks] => {
                let uid = if *uid == "-" {
                    None
                } else {
                    match uid.parse::<u32>() {
                        Ok(u) => Some(u),
                        Err(_) => return "BADCASE".into(),
                    }
                };
                run_scripted(Side::Server { uid }, mech, fdcap, wmax, obs, chunks)
            }
            ["C", mech, guid, fdcap, flatpak, wmax, obs, chunks] => {
                let flatpak = *flatpak == "1";
                if *obs == "G" {
                    run_real(mech, guid, flatpak, chunks)
                } else if *guid != "-" {
                    "BADCASE".into()
                } else {
                    run_scripted(Side::Client { flatpak }, mech, fdcap, wmax, obs, chunks)
                }
            }
            _ => "BADCASE".into(),
        }
    });
}
