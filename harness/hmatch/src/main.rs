//! C21 / C22: match rules.
//!
//! Case lines (tokens separated by one space, every string hex-encoded UTF-8):
//!   `m <rule ops> / <message fields>`  -> `T` / `F` (MatchRule::matches), `ERR` if matches() fails,
//!                                         `BERR` if a builder operation of the rule is refused
//!   `s <rule ops>`                     -> `BERR` | `S:<hex of rule.to_string()>;<reparse>`
//!   `p <hex string>`                   -> `ERR` | `S:<hex of parsed.to_string()>;<reparse>`
//!        where <reparse> = MatchRule::try_from(that string): `EQ` (equal rule) | `NE:<hex of its to_string()>` | `ERR`
//! Rule ops (applied in order through zbus::match_rule::Builder):
//!   ty=<1..4> sn=<hex> if=<hex> mb=<hex> pa=<hex> pn=<hex> de=<hex> ar=<idx>:<hex> ap=<idx>:<hex>
//!   ns=<hex> aa=<hex> (add_arg) aq=<hex> (add_arg_path)
//! Message fields: ty=<1..4> sn= if= mb= pa= de=  and body arguments in order:
//!   bs=<hex> string, bo=<hex> object path, bu=<dec> u32, by=<dec> byte, bv=<hex> variant(string), bp=<hex> variant(object path),
//!   bg=<hex> signature, bl=<hex> array [string], bt=<hex> struct (string, u32)
use hcommon::{hex, unhex};
use std::num::NonZeroU32;
use zbus::message::{Message, Type};
use zbus::MatchRule;
use zvariant::{Array, ObjectPath, Signature, StructureBuilder, Value};

fn hs(h: &str) -> Option<String> {
    String::from_utf8(unhex(h)?).ok()
}

fn ty(s: &str) -> Option<Type> {
    Some(match s {
        "1" => Type::MethodCall,
        "2" => Type::MethodReturn,
        "3" => Type::Error,
        "4" => Type::Signal,
        _ => return None,
    })
}

enum B {
    Bad,
    Refused,
    Rule(MatchRule<'static>),
}

fn build_rule(ops: &[&str]) -> B {
    let mut b = MatchRule::builder();
    for op in ops {
        let (k, v) = match op.split_once('=') {
            Some(x) => x,
            None => return B::Bad,
        };
        macro_rules! s {
            ($h:expr) => {
                match hs($h) {
                    Some(x) => x,
                    None => return B::Bad,
                }
            };
        }
        macro_rules! step {
            ($e:expr) => {
                match $e {
                    Ok(x) => x,
                    Err(_) => return B::Refused,
                }
            };
        }
        b = match k {
            "ty" => match ty(v) {
                Some(t) => b.msg_type(t),
                None => return B::Bad,
            },
            "sn" => step!(b.sender(s!(v))),
            "if" => step!(b.interface(s!(v))),
            "mb" => step!(b.member(s!(v))),
            "pa" => step!(b.path(s!(v))),
            "pn" => step!(b.path_namespace(s!(v))),
            "de" => step!(b.destination(s!(v))),
            "ns" => step!(b.arg0ns(s!(v))),
            "aa" => step!(b.add_arg(s!(v))),
            "aq" => step!(b.add_arg_path(s!(v))),
            "ar" | "ap" => {
                let (i, h) = match v.split_once(':') {
                    Some(x) => x,
                    None => return B::Bad,
                };
                let i: u8 = match i.parse() {
                    Ok(i) => i,
                    Err(_) => return B::Bad,
                };
                if k == "ar" {
                    step!(b.arg(i, s!(h)))
                } else {
                    step!(b.arg_path(i, s!(h)))
                }
            }
            _ => return B::Bad,
        };
    }
    B::Rule(b.build())
}

fn build_msg(fields: &[&str]) -> Option<Message> {
    let mut t = None;
    let (mut sn, mut ifc, mut mb, mut pa, mut de) = (None, None, None, None, None);
    let mut body: Vec<Value<'static>> = vec![];
    for f in fields {
        let (k, v) = f.split_once('=')?;
        match k {
            "ty" => t = Some(ty(v)?),
            "sn" => sn = Some(hs(v)?),
            "if" => ifc = Some(hs(v)?),
            "mb" => mb = Some(hs(v)?),
            "pa" => pa = Some(hs(v)?),
            "de" => de = Some(hs(v)?),
            "bs" => body.push(Value::from(hs(v)?)),
            "bo" => body.push(Value::from(ObjectPath::try_from(hs(v)?).ok()?)),
            "bu" => body.push(Value::from(v.parse::<u32>().ok()?)),
            "by" => body.push(Value::from(v.parse::<u8>().ok()?)),
            "bv" => body.push(Value::Value(Box::new(Value::from(hs(v)?)))),
            "bp" => body.push(Value::Value(Box::new(Value::from(ObjectPath::try_from(hs(v)?).ok()?)))),
            "bg" => body.push(Value::from(Signature::try_from(hs(v)?.as_str()).ok()?)),
            "bl" => body.push(Value::from(Array::from(vec![hs(v)?]))),
            "bt" => body.push(Value::from(
                StructureBuilder::new().add_field(hs(v)?).add_field(7u32).build().ok()?,
            )),
            _ => return None,
        }
    }
    let t = t?;
    let mut b = match t {
        Type::MethodCall => Message::method_call(pa.take()?, mb.take()?).ok()?,
        Type::Signal => Message::signal(pa.take()?, ifc.take()?, mb.take()?).ok()?,
        Type::MethodReturn | Type::Error => {
            // the message replied to has no sender, so the reply starts without a destination
            let call = Message::method_call("/r", "R")
                .ok()?
                .serial(NonZeroU32::new(7)?)
                .build(&())
                .ok()?;
            let h = call.header();
            if t == Type::Error {
                Message::error(&h, "org.zbus.verif.Error").ok()?
            } else {
                Message::method_return(&h).ok()?
            }
        }
    };
    if let Some(x) = sn {
        b = b.sender(x).ok()?;
    }
    if let Some(x) = ifc {
        b = b.interface(x).ok()?;
    }
    if let Some(x) = mb {
        b = b.member(x).ok()?;
    }
    if let Some(x) = pa {
        b = b.path(x).ok()?;
    }
    if let Some(x) = de {
        b = b.destination(x).ok()?;
    }
    if body.is_empty() {
        b.build(&()).ok()
    } else {
        let mut sb = StructureBuilder::new();
        for v in body {
            sb = sb.append_field(v);
        }
        b.build(&sb.build().ok()?).ok()
    }
}

fn reparse(rule: &MatchRule<'_>, s: &str) -> String {
    match MatchRule::try_from(s) {
        Ok(r2) => {
            if &r2 == rule {
                "EQ".to_string()
            } else {
                format!("NE:{}", hex(r2.to_string().as_bytes()))
            }
        }
        Err(_) => "ERR".to_string(),
    }
}

fn case(line: &str) -> String {
    let w: Vec<&str> = line.split(' ').filter(|x| !x.is_empty()).collect();
    match w.first().copied() {
        Some("m") => {
            let cut = match w.iter().position(|x| *x == "/") {
                Some(i) => i,
                None => return "BADCASE".into(),
            };
            let rule = match build_rule(&w[1..cut]) {
                B::Bad => return "BADCASE".into(),
                B::Refused => return "BERR".into(),
                B::Rule(r) => r,
            };
            let msg = match build_msg(&w[cut + 1..]) {
                Some(m) => m,
                None => return "BADCASE".into(),
            };
            match rule.matches(&msg) {
                Ok(true) => "T".into(),
                Ok(false) => "F".into(),
                Err(_) => "ERR".into(),
            }
        }
        Some("s") => {
            let rule = match build_rule(&w[1..]) {
                B::Bad => return "BADCASE".into(),
                B::Refused => return "BERR".into(),
                B::Rule(r) => r,
            };
            let s = rule.to_string();
            format!("S:{};{}", hex(s.as_bytes()), reparse(&rule, &s))
        }
        Some("p") => {
            let s = match w.get(1).map(|h| hs(h)).unwrap_or(Some(String::new())) {
                Some(s) => s,
                None => return "BADCASE".into(),
            };
            match MatchRule::try_from(s.as_str()) {
                Ok(r) => {
                    let s2 = r.to_string();
                    format!("S:{};{}", hex(s2.as_bytes()), reparse(&r, &s2))
                }
                Err(_) => "ERR".into(),
            }
        }
        _ => "BADCASE".into(),
    }
}

fn main() {
    hcommon::run(case);
}
