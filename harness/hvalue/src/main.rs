//! C08 harness: dynamic-value laws and std-type conversions on the real zvariant (default features).
//!
//! Case lines
//!   law <v> <v> <v>          three values in the prefix syntax below
//!   conv <type> <x>          a std value of the Rust type named by the signature-like <type>
//! Value syntax (no spaces):
//!   y<dec> b0|b1 n<sdec> q<dec> i<sdec> u<dec> x<sdec> t<dec> d<16 hex digits of the bits>
//!   s<hex>;  g<signature>;  o<hex>;  v<value>  a<elemsig>[v,v,..]  e<ksig>|<vsig>[k=v,..]  r(v,v,..)  h<idx>
//! Std-value syntax: the leaves as above, V<value> for a Value, [x,..] Vec, <k=v,..> HashMap, (x,..) tuple.
//! Containers are built through the public API (Array::new/append, Dict::new/append, StructureBuilder), a
//! constructor error prints ERR:build.
use std::collections::hash_map::DefaultHasher;
use std::collections::HashMap;
use std::hash::{Hash, Hasher};
use std::os::fd::{AsRawFd, BorrowedFd, RawFd};

use zvariant::serialized::Context;
use zvariant::{Array, Dict, Fd, ObjectPath, Signature, StructureBuilder, Value, LE};

type V = Value<'static>;

static mut FDS: Vec<RawFd> = Vec::new();

fn fds() -> &'static Vec<RawFd> {
    #[allow(static_mut_refs)]
    unsafe {
        &FDS
    }
}

enum PErr {
    Bad,
    Build,
}

struct P<'a> {
    b: &'a [u8],
    i: usize,
}

impl<'a> P<'a> {
    fn peek(&self) -> Option<u8> {
        self.b.get(self.i).copied()
    }
    fn eat(&mut self, c: u8) -> Result<(), PErr> {
        if self.peek() == Some(c) {
            self.i += 1;
            Ok(())
        } else {
            Err(PErr::Bad)
        }
    }
    fn next(&mut self) -> Result<u8, PErr> {
        let c = self.peek().ok_or(PErr::Bad)?;
        self.i += 1;
        Ok(c)
    }
    fn dec(&mut self) -> Result<u64, PErr> {
        let st = self.i;
        let mut n: u64 = 0;
        while let Some(c) = self.peek() {
            if c.is_ascii_digit() {
                n = n.checked_mul(10).and_then(|n| n.checked_add((c - b'0') as u64)).ok_or(PErr::Bad)?;
                self.i += 1;
            } else {
                break;
            }
        }
        if self.i == st {
            return Err(PErr::Bad);
        }
        Ok(n)
    }
    fn sdec(&mut self) -> Result<i64, PErr> {
        if self.peek() == Some(b'-') {
            self.i += 1;
            let n = self.dec()?;
            if n > (1u64 << 63) {
                return Err(PErr::Bad);
            }
            Ok((n as i128).wrapping_neg() as i64)
        } else {
            let n = self.dec()?;
            i64::try_from(n).map_err(|_| PErr::Bad)
        }
    }
    fn until(&mut self, stop: &[u8]) -> Result<&'a [u8], PErr> {
        let st = self.i;
        while let Some(c) = self.peek() {
            if stop.contains(&c) {
                return Ok(&self.b[st..self.i]);
            }
            self.i += 1;
        }
        Err(PErr::Bad)
    }
    fn hexstr(&mut self) -> Result<String, PErr> {
        let h = self.until(b";")?;
        self.eat(b';')?;
        let bytes = hcommon::unhex(std::str::from_utf8(h).map_err(|_| PErr::Bad)?).ok_or(PErr::Bad)?;
        String::from_utf8(bytes).map_err(|_| PErr::Bad)
    }
    fn sig(&mut self, stop: &[u8]) -> Result<Signature, PErr> {
        let s = self.until(stop)?;
        let s = std::str::from_utf8(s).map_err(|_| PErr::Bad)?;
        Signature::try_from(s).map_err(|_| PErr::Bad)
    }
    fn f64bits(&mut self) -> Result<f64, PErr> {
        if self.i + 16 > self.b.len() {
            return Err(PErr::Bad);
        }
        let h = std::str::from_utf8(&self.b[self.i..self.i + 16]).map_err(|_| PErr::Bad)?;
        self.i += 16;
        Ok(f64::from_bits(u64::from_str_radix(h, 16).map_err(|_| PErr::Bad)?))
    }

    fn list<T>(&mut self, close: u8, mut item: impl FnMut(&mut Self) -> Result<T, PErr>) -> Result<Vec<T>, PErr> {
        let mut out = vec![];
        if self.peek() == Some(close) {
            self.i += 1;
            return Ok(out);
        }
        loop {
            out.push(item(self)?);
            match self.next()? {
                b',' => continue,
                c if c == close => return Ok(out),
                _ => return Err(PErr::Bad),
            }
        }
    }

    fn value(&mut self) -> Result<V, PErr> {
        let c = self.next()?;
        Ok(match c {
            b'y' => Value::U8(u8::try_from(self.dec()?).map_err(|_| PErr::Bad)?),
            b'b' => Value::Bool(match self.next()? {
                b'0' => false,
                b'1' => true,
                _ => return Err(PErr::Bad),
            }),
            b'n' => Value::I16(i16::try_from(self.sdec()?).map_err(|_| PErr::Bad)?),
            b'q' => Value::U16(u16::try_from(self.dec()?).map_err(|_| PErr::Bad)?),
            b'i' => Value::I32(i32::try_from(self.sdec()?).map_err(|_| PErr::Bad)?),
            b'u' => Value::U32(u32::try_from(self.dec()?).map_err(|_| PErr::Bad)?),
            b'x' => Value::I64(self.sdec()?),
            b't' => Value::U64(self.dec()?),
            b'd' => Value::F64(self.f64bits()?),
            b's' => Value::Str(self.hexstr()?.into()),
            b'g' => {
                let s = self.sig(b";")?;
                self.eat(b';')?;
                Value::Signature(s)
            }
            b'o' => Value::ObjectPath(ObjectPath::try_from(self.hexstr()?).map_err(|_| PErr::Bad)?),
            b'v' => Value::Value(Box::new(self.value()?)),
            b'a' => {
                let es = self.sig(b"[")?;
                self.eat(b'[')?;
                let items = self.list(b']', |p| p.value())?;
                let mut a = Array::new(&es);
                for it in items {
                    a.append(it).map_err(|_| PErr::Build)?;
                }
                Value::Array(a)
            }
            b'e' => {
                let ks = self.sig(b"|")?;
                self.eat(b'|')?;
                let vs = self.sig(b"[")?;
                self.eat(b'[')?;
                let items = self.list(b']', |p| {
                    let k = p.value()?;
                    p.eat(b'=')?;
                    let v = p.value()?;
                    Ok((k, v))
                })?;
                let mut d = Dict::new(&ks, &vs);
                for (k, v) in items {
                    d.append(k, v).map_err(|_| PErr::Build)?;
                }
                Value::Dict(d)
            }
            b'r' => {
                self.eat(b'(')?;
                let items = self.list(b')', |p| p.value())?;
                let mut sb = StructureBuilder::new();
                for it in items {
                    sb.push_value(it);
                }
                Value::Structure(sb.build().map_err(|_| PErr::Build)?)
            }
            b'h' => {
                let k = self.dec()? as usize;
                let raw = *fds().get(k).ok_or(PErr::Bad)?;
                Value::Fd(Fd::Borrowed(unsafe { BorrowedFd::borrow_raw(raw) }))
            }
            _ => return Err(PErr::Bad),
        })
    }
}

fn hexs(s: &str) -> String {
    hcommon::hex(s.as_bytes())
}

fn show(v: &Value<'_>, out: &mut String) {
    match v {
        Value::U8(x) => out.push_str(&format!("y{}", x)),
        Value::Bool(x) => out.push_str(if *x { "b1" } else { "b0" }),
        Value::I16(x) => out.push_str(&format!("n{}", x)),
        Value::U16(x) => out.push_str(&format!("q{}", x)),
        Value::I32(x) => out.push_str(&format!("i{}", x)),
        Value::U32(x) => out.push_str(&format!("u{}", x)),
        Value::I64(x) => out.push_str(&format!("x{}", x)),
        Value::U64(x) => out.push_str(&format!("t{}", x)),
        Value::F64(x) => out.push_str(&format!("d{:016x}", x.to_bits())),
        Value::Str(s) => out.push_str(&format!("s{};", hexs(s.as_str()))),
        Value::Signature(s) => out.push_str(&format!("g{};", s)),
        Value::ObjectPath(s) => out.push_str(&format!("o{};", hexs(s.as_str()))),
        Value::Value(x) => {
            out.push('v');
            show(x, out)
        }
        Value::Array(a) => {
            out.push_str(&format!("a{}[", a.element_signature()));
            for (i, e) in a.iter().enumerate() {
                if i > 0 {
                    out.push(',');
                }
                show(e, out);
            }
            out.push(']');
        }
        Value::Dict(d) => {
            match d.signature() {
                Signature::Dict { key, value } => out.push_str(&format!("e{}|{}[", key.signature(), value.signature())),
                _ => out.push_str("e?|?["),
            }
            for (i, (k, x)) in d.iter().enumerate() {
                if i > 0 {
                    out.push(',');
                }
                show(k, out);
                out.push('=');
                show(x, out);
            }
            out.push(']');
        }
        Value::Structure(s) => {
            out.push_str("r(");
            for (i, e) in s.fields().iter().enumerate() {
                if i > 0 {
                    out.push(',');
                }
                show(e, out);
            }
            out.push(')');
        }
        Value::Fd(fd) => match fds().iter().position(|r| *r == fd.as_raw_fd()) {
            Some(k) => out.push_str(&format!("h{}", k)),
            None => out.push_str("h?"),
        },
    }
}

fn shows(v: &Value<'_>) -> String {
    let mut s = String::new();
    show(v, &mut s);
    s
}

fn hash_of(v: &Value<'_>) -> u64 {
    let mut h = DefaultHasher::new();
    v.hash(&mut h);
    h.finish()
}

fn tf(b: bool) -> char {
    if b {
        'T'
    } else {
        'F'
    }
}

fn ordc(o: std::cmp::Ordering) -> char {
    match o {
        std::cmp::Ordering::Less => 'L',
        std::cmp::Ordering::Equal => 'E',
        std::cmp::Ordering::Greater => 'G',
    }
}

/// the signature actually written in front of the value when it is encoded as a variant
/// (used for values with descriptors, whose decoded copy carries dup'ed numbers)
fn encoded_sig_matches(v: &V) -> char {
    match zvariant::to_bytes(Context::new_dbus(LE, 0), v) {
        Ok(data) => {
            let b = data.bytes();
            if b.is_empty() {
                return 'F';
            }
            let n = b[0] as usize;
            if b.len() < 2 + n {
                return 'F';
            }
            tf(&b[1..1 + n] == v.value_signature().to_string().as_bytes() && b[1 + n] == 0)
        }
        Err(_) => 'E',
    }
}

/// encode as a variant, decode the bytes as a variant again: the same value comes back iff what was written is
/// described by the signature that was written in front of it
fn encodes_as_reported(v: &V) -> char {
    match zvariant::to_bytes(Context::new_dbus(LE, 0), v) {
        Ok(data) => match data.deserialize::<Value<'_>>() {
            Ok((back, _)) => tf(shows(&back) == shows(v)),
            Err(_) => 'F',
        },
        Err(_) => 'F',
    }
}

fn contains_fd(v: &Value<'_>) -> bool {
    match v {
        Value::Fd(_) => true,
        Value::Value(x) => contains_fd(x),
        Value::Array(a) => a.iter().any(contains_fd),
        Value::Dict(d) => d.iter().any(|(k, x)| contains_fd(k) || contains_fd(x)),
        Value::Structure(s) => s.fields().iter().any(contains_fd),
        _ => false,
    }
}

fn law(rest: &str) -> String {
    let words: Vec<&str> = rest.split(' ').filter(|w| !w.is_empty()).collect();
    if words.len() != 3 {
        return "BADCASE".into();
    }
    let mut vals: Vec<V> = vec![];
    for w in &words {
        let mut p = P { b: w.as_bytes(), i: 0 };
        match p.value() {
            Ok(v) if p.i == w.len() => vals.push(v),
            Ok(_) | Err(PErr::Bad) => return "BADCASE".into(),
            Err(PErr::Build) => return "ERR:build".into(),
        }
    }
    let mut eq = String::new();
    let mut pc = String::new();
    let mut cm = String::new();
    for a in &vals {
        for b in &vals {
            eq.push(tf(a == b));
            pc.push(match a.partial_cmp(b) {
                Some(o) => ordc(o),
                None => 'N',
            });
            cm.push(ordc(a.cmp(b)));
        }
    }
    let hs: Vec<u64> = vals.iter().map(hash_of).collect();
    let hseq: String = [(0, 1), (0, 2), (1, 2)].iter().map(|(i, j)| tf(hs[*i] == hs[*j])).collect();
    let sg: Vec<String> = vals.iter().map(|v| v.value_signature().to_string()).collect();
    let mut cl = String::new();
    let mut ow = String::new();
    let mut en = String::new();
    for v in &vals {
        match v.try_clone() {
            Ok(c) => {
                cl.push(tf(&c == v));
                cl.push(tf(shows(&c) == shows(v)));
                cl.push(tf(c.value_signature() == v.value_signature()));
            }
            Err(_) => cl.push_str("EEE"),
        }
        match v.try_to_owned() {
            Ok(o) => {
                let inner: &Value<'_> = &o;
                ow.push(tf(inner == v));
                ow.push(tf(shows(inner) == shows(v)));
                ow.push(tf(inner.value_signature() == v.value_signature()));
                match o.try_clone() {
                    Ok(oc) => ow.push(tf(oc == o)),
                    Err(_) => ow.push('E'),
                }
            }
            Err(_) => ow.push_str("EEEE"),
        }
        en.push(if contains_fd(v) { encoded_sig_matches(v) } else { encodes_as_reported(v) });
    }
    format!(
        "eq={} pc={} cm={} hs={} sg={},{},{} cl={} ow={} en={} pr={},{},{}",
        eq,
        pc,
        cm,
        hseq,
        sg[0],
        sg[1],
        sg[2],
        cl,
        ow,
        en,
        shows(&vals[0]),
        shows(&vals[1]),
        shows(&vals[2])
    )
}

// ---------------------------------------------------------------------------------------------
// std-type conversions

trait Sv: Sized {
    fn parse(p: &mut P<'_>) -> Result<Self, PErr>;
    fn print(&self, out: &mut String);
}

macro_rules! sv_leaf {
    ($t:ty, $variant:ident) => {
        impl Sv for $t {
            fn parse(p: &mut P<'_>) -> Result<Self, PErr> {
                match p.value()? {
                    Value::$variant(x) => Ok(x.into()),
                    _ => Err(PErr::Bad),
                }
            }
            fn print(&self, out: &mut String) {
                show(&Value::$variant(self.clone().into()), out)
            }
        }
    };
}
sv_leaf!(u8, U8);
sv_leaf!(bool, Bool);
sv_leaf!(i16, I16);
sv_leaf!(u16, U16);
sv_leaf!(i32, I32);
sv_leaf!(u32, U32);
sv_leaf!(i64, I64);
sv_leaf!(u64, U64);
sv_leaf!(f64, F64);
sv_leaf!(String, Str);
sv_leaf!(Signature, Signature);
sv_leaf!(ObjectPath<'static>, ObjectPath);

impl Sv for V {
    fn parse(p: &mut P<'_>) -> Result<Self, PErr> {
        p.eat(b'V')?;
        p.value()
    }
    fn print(&self, out: &mut String) {
        out.push('V');
        show(self, out)
    }
}

impl<T: Sv> Sv for Vec<T> {
    fn parse(p: &mut P<'_>) -> Result<Self, PErr> {
        p.eat(b'[')?;
        p.list(b']', |p| T::parse(p))
    }
    fn print(&self, out: &mut String) {
        out.push('[');
        for (i, e) in self.iter().enumerate() {
            if i > 0 {
                out.push(',');
            }
            e.print(out);
        }
        out.push(']');
    }
}

impl<K: Sv + Ord + Hash + Eq, T: Sv> Sv for HashMap<K, T> {
    fn parse(p: &mut P<'_>) -> Result<Self, PErr> {
        p.eat(b'<')?;
        let items = p.list(b'>', |p| {
            let k = K::parse(p)?;
            p.eat(b'=')?;
            let v = T::parse(p)?;
            Ok((k, v))
        })?;
        let n = items.len();
        let m: HashMap<K, T> = items.into_iter().collect();
        if m.len() != n {
            return Err(PErr::Bad); // the case must list distinct keys
        }
        Ok(m)
    }
    fn print(&self, out: &mut String) {
        let mut es: Vec<(&K, &T)> = self.iter().collect();
        es.sort_by(|a, b| a.0.cmp(b.0));
        out.push('<');
        for (i, (k, v)) in es.iter().enumerate() {
            if i > 0 {
                out.push(',');
            }
            k.print(out);
            out.push('=');
            v.print(out);
        }
        out.push('>');
    }
}

macro_rules! sv_tuple {
    ($($n:tt $t:ident),+) => {
        impl<$($t: Sv),+> Sv for ($($t,)+) {
            fn parse(p: &mut P<'_>) -> Result<Self, PErr> {
                p.eat(b'(')?;
                let r = ($(
                    {
                        if $n > 0 { p.eat(b',')?; }
                        $t::parse(p)?
                    },
                )+);
                p.eat(b')')?;
                Ok(r)
            }
            fn print(&self, out: &mut String) {
                out.push('(');
                $(
                    if $n > 0 { out.push(','); }
                    self.$n.print(out);
                )+
                out.push(')');
            }
        }
    };
}
sv_tuple!(0 A);
sv_tuple!(0 A, 1 B);
sv_tuple!(0 A, 1 B, 2 C);
sv_tuple!(0 A, 1 B, 2 C, 3 D);

fn roundtrip<T>(text: &str) -> String
where
    T: Sv + Into<V> + TryFrom<V>,
{
    let mut p = P { b: text.as_bytes(), i: 0 };
    let x = match T::parse(&mut p) {
        Ok(x) if p.i == text.len() => x,
        Ok(_) | Err(PErr::Bad) => return "BADCASE".into(),
        Err(PErr::Build) => return "ERR:build".into(),
    };
    // what the implementation understood the case to be (the oracle compares the result with this, not with the case text)
    let mut input = String::new();
    x.print(&mut input);
    let v: V = x.into();
    let vt = shows(&v);
    let sg = v.value_signature().to_string();
    let en = encodes_as_reported(&v);
    match T::try_from(v) {
        Ok(b) => {
            let mut s = String::new();
            b.print(&mut s);
            format!("{} {} {} {} OK:{}", vt, sg, en, input, s)
        }
        Err(_) => format!("{} {} {} {} ERR", vt, sg, en, input),
    }
}

type Op = ObjectPath<'static>;

macro_rules! conv_table {
    ($ty:expr, $text:expr; $($name:literal => $t:ty),+ $(,)?) => {
        match $ty {
            $($name => roundtrip::<$t>($text),)+
            _ => "BADCASE".to_string(),
        }
    };
}

pub const CONV_TYPES: &[&str] = &[
    "y", "b", "n", "q", "i", "u", "x", "t", "d", "s", "g", "o", "v", "ay", "ab", "an", "aq", "ai", "au", "ax", "at", "ad", "as", "ag", "ao",
    "av", "aay", "aas", "aav", "a(ys)", "aa{sy}", "a{sy}", "a{ys}", "a{sv}", "a{us}", "a{xd}", "a{oay}", "a{sas}", "a{s(yd)}", "a{bv}",
    "a{na{sv}}", "a{qg}", "a{ty}", "a{is}", "(y)", "(ys)", "(idb)", "(say)", "(v)", "(vv)", "((yq)x)", "(sa{sv})", "(tu(sd)g)", "(oav)",
    "a(v)", "a{s(v)}", "((v))",
];

fn conv(rest: &str) -> String {
    let mut it = rest.splitn(2, ' ');
    let ty = it.next().unwrap_or("");
    let text = it.next().unwrap_or("").trim();
    conv_table!(ty, text;
        "y" => u8, "b" => bool, "n" => i16, "q" => u16, "i" => i32, "u" => u32, "x" => i64, "t" => u64, "d" => f64,
        "s" => String, "g" => Signature, "o" => Op, "v" => V,
        "ay" => Vec<u8>, "ab" => Vec<bool>, "an" => Vec<i16>, "aq" => Vec<u16>, "ai" => Vec<i32>, "au" => Vec<u32>,
        "ax" => Vec<i64>, "at" => Vec<u64>, "ad" => Vec<f64>, "as" => Vec<String>, "ag" => Vec<Signature>, "ao" => Vec<Op>,
        "av" => Vec<V>, "aay" => Vec<Vec<u8>>, "aas" => Vec<Vec<String>>, "aav" => Vec<Vec<V>>, "a(ys)" => Vec<(u8, String)>,
        "aa{sy}" => Vec<HashMap<String, u8>>,
        "a{sy}" => HashMap<String, u8>, "a{ys}" => HashMap<u8, String>, "a{sv}" => HashMap<String, V>, "a{us}" => HashMap<u32, String>,
        "a{xd}" => HashMap<i64, f64>, "a{oay}" => HashMap<Op, Vec<u8>>, "a{sas}" => HashMap<String, Vec<String>>,
        "a{s(yd)}" => HashMap<String, (u8, f64)>, "a{bv}" => HashMap<bool, V>, "a{na{sv}}" => HashMap<i16, HashMap<String, V>>,
        "a{qg}" => HashMap<u16, Signature>, "a{ty}" => HashMap<u64, u8>, "a{is}" => HashMap<i32, String>,
        "(y)" => (u8,), "(ys)" => (u8, String), "(idb)" => (i32, f64, bool), "(say)" => (String, Vec<u8>), "(v)" => (V,),
        "(vv)" => (V, V), "((yq)x)" => ((u8, u16), i64), "(sa{sv})" => (String, HashMap<String, V>),
        "(tu(sd)g)" => (u64, u32, (String, f64), Signature), "(oav)" => (Op, Vec<V>),
        "a(v)" => Vec<(V,)>, "a{s(v)}" => HashMap<String, (V,)>, "((v))" => ((V,),),
    )
}

fn main() {
    // eight descriptors for `h<idx>`, ascending raw numbers so that idx order = raw order
    let mut raws: Vec<RawFd> = vec![];
    for _ in 0..8 {
        let f = std::fs::File::open("/dev/null").expect("open /dev/null");
        raws.push(std::os::fd::IntoRawFd::into_raw_fd(f));
    }
    raws.sort();
    unsafe {
        FDS = raws;
    }
    hcommon::run(|line| {
        let line = line.trim_end();
        if let Some(rest) = line.strip_prefix("law ") {
            law(rest)
        } else if let Some(rest) = line.strip_prefix("conv ") {
            conv(rest)
        } else {
            "BADCASE".to_string()
        }
    });
}
