//! hproxy — C31 (properties cache) and C32 (signal stream owner tracking): the real `zbus::Proxy` over a
//! *bus* connection whose peer is a scripted fake bus living in this process (no patch to /repo).
//!
//! The connection is `Builder::authenticated_socket(FakeSock, guid).internal_executor(false)` WITHOUT `.p2p()`, so
//! `Connection::is_bus()` holds and `AddMatch` / `GetNameOwner` / owner tracking are live. The harness ticks the
//! connection's executor itself: after every batch of incoming messages it runs all tasks to quiescence, so a
//! case is deterministic and replayable.
//!
//! Case lines (tokens separated by one space):
//!   S <dest> <pi> <pm> <script>             C32: `proxy.receive_signal(member)` / `receive_all_signals()`
//!   P <dest> <pi> <mode> <unc> <script>     C31: cache of interface <pi>, mode Y (CacheProperties::Yes, build()
//!                                           waits for the cache) | L (Lazily: property streams start the cache)
//! dest   `w` well-known name org.zv.Svc | `u<k>` unique name :1.<k>
//! pi     interface id of the proxy (table below); pm  `-` (all signals) or a member id
//! unc    `-` or digits: ids of the properties passed to `uncached_properties`
//! script batches joined by `/`; a batch is `[!]ev,ev,...` or `[!]-` (empty); `!` = the consumer polls its
//!        stream(s) after the batch (it always does after the last one). All messages of a batch become readable
//!        at once; then every task runs until nothing is runnable.
//! ev     R            method return with empty body for the oldest unanswered call
//!        Ro<k>        ... carrying the unique name :1.<k>   (GetNameOwner)
//!        Rs<k=v;..>   ... carrying the a{sv} snapshot       (GetAll)
//!        Re           error reply
//!        g<snd>.<path>.<iface>.<member>.<body>   a signal; snd `-` = no sender field, 0 = org.freedesktop.DBus,
//!                     k = :1.<k>; body: e = empty | n<name><old><new> = (sss) NameOwnerChanged arguments
//!                     (name 0 = org.zv.Svc, 1 = org.zv.Other; old/new `-` = "") | p<ifc>:<k=v;..>:<k;..> =
//!                     (sa{sv}as) PropertiesChanged arguments | b = (u) a body of the wrong type
//! ids    path 0 /zv/obj 1 /zv/other 2 /org/freedesktop/DBus; iface 0 org.zv.Iface 1 org.zv.Other
//!        2 org.freedesktop.DBus.Properties 3 org.freedesktop.DBus; member 0 Sig 1 Other 2 PropertiesChanged
//!        3 NameOwnerChanged; property k = "P<k>", values u32
//! Events are numbered 1.. over the whole script; a yielded signal is printed as its event number.
//!
//! Output: one token per batch joined by `;`, then ` calls=<members of the calls made, joined by .>`
//!   S:  <w|r|E>:<yielded event numbers joined by . | - | _ (not polled)>
//!   P:  <w|r|E|->:<P0.P1.P2.P3 cached values, - = none>:<s0|s1|s3 = value seen when the PropertyStream of
//!       P0/P1/P3 yielded, n = yielded with no cached value, - = nothing yielded, _ = not polled / no stream yet>
//!   NOCALL  an `R` event found no unanswered call (the script is not a possible bus history)
use std::collections::{HashMap, VecDeque};
use std::future::Future;
use std::num::NonZeroU32;
use std::os::fd::{BorrowedFd, OwnedFd};
use std::panic::{catch_unwind, AssertUnwindSafe};
use std::pin::Pin;
use std::sync::atomic::{AtomicBool, Ordering};
use std::sync::{Arc, Mutex};
use std::task::{Context, Poll, Wake, Waker};

use async_trait::async_trait;
use futures_core::Stream;
use zbus::connection::socket::{ReadHalf, Socket, Split, WriteHalf};
use zbus::connection::Builder;
use zbus::message::{Message, Type};
use zbus::proxy::{CacheProperties, PropertyStream, SignalStream};
use zbus::{Connection, Proxy};
use zvariant::{OwnedValue, Value};

const GUID: &str = "0123456789abcdef0123456789abcdef";
const DRIVER: &str = "org.freedesktop.DBus";
const PATHS: [&str; 3] = ["/zv/obj", "/zv/other", "/org/freedesktop/DBus"];
const IFACES: [&str; 4] = ["org.zv.Iface", "org.zv.Other", "org.freedesktop.DBus.Properties", "org.freedesktop.DBus"];
const MEMBERS: [&str; 4] = ["Sig", "Other", "PropertiesChanged", "NameOwnerChanged"];
const WKNAMES: [&str; 2] = ["org.zv.Svc", "org.zv.Other"];
const PROPS: [&str; 5] = ["P0", "P1", "P2", "P3", "P4"];
const SERIAL_BASE: u32 = 1_000_000;

fn uname(k: u8) -> String {
    if k == 0 { DRIVER.to_string() } else { format!(":1.{}", k) }
}

// ------------------------------------------------------------------ the fake bus
#[derive(Default)]
struct Bus {
    to_client: VecDeque<u8>,
    read_waker: Option<Waker>,
    from_client: Vec<u8>,
    pending: VecDeque<Message>,
    calls: Vec<String>,
}

impl Bus {
    fn push(&mut self, m: &Message) {
        self.to_client.extend(m.data().iter().copied());
    }
    fn wake(&mut self) {
        if let Some(w) = self.read_waker.take() {
            w.wake();
        }
    }
    /// parse whole messages out of what the client wrote
    fn absorb(&mut self) {
        loop {
            let b = &self.from_client;
            if b.len() < 16 {
                return;
            }
            let u32at = |o: usize| u32::from_le_bytes([b[o], b[o + 1], b[o + 2], b[o + 3]]) as usize;
            let body = u32at(4);
            let fields = u32at(12);
            let total = 16 + ((fields + 7) & !7) + body;
            if b.len() < total {
                return;
            }
            let bytes: Vec<u8> = self.from_client.drain(..total).collect();
            let ctx = zvariant::serialized::Context::new_dbus(zvariant::LE, 0);
            let data = zvariant::serialized::Data::new(bytes, ctx);
            let msg = match unsafe { Message::from_bytes(data) } {
                Ok(m) => m,
                Err(_) => continue,
            };
            if msg.message_type() != Type::MethodCall {
                continue;
            }
            let member = msg.header().member().map(|m| m.to_string()).unwrap_or_default();
            if member == "RemoveMatch" {
                // answered at once, not part of the script (only sent when a stream is dropped)
                let r = Message::method_return(&msg.header()).unwrap().sender(DRIVER).unwrap().build(&()).unwrap();
                self.push(&r);
                self.wake();
                continue;
            }
            self.calls.push(member);
            self.pending.push_back(msg);
        }
    }
}

#[derive(Debug)]
struct RdHalf(Arc<Mutex<Bus>>);
#[derive(Debug)]
struct WrHalf(Arc<Mutex<Bus>>);
struct FakeSock(Arc<Mutex<Bus>>);

impl std::fmt::Debug for Bus {
    fn fmt(&self, f: &mut std::fmt::Formatter<'_>) -> std::fmt::Result {
        f.write_str("Bus")
    }
}

#[async_trait]
impl ReadHalf for RdHalf {
    async fn recvmsg(&mut self, buf: &mut [u8]) -> std::io::Result<(usize, Vec<OwnedFd>)> {
        let bus = self.0.clone();
        std::future::poll_fn(move |cx| {
            let mut g = bus.lock().unwrap();
            if g.to_client.is_empty() {
                g.read_waker = Some(cx.waker().clone());
                return Poll::Pending;
            }
            let n = buf.len().min(g.to_client.len());
            for (i, x) in g.to_client.drain(..n).enumerate() {
                buf[i] = x;
            }
            Poll::Ready(Ok((n, vec![])))
        })
        .await
    }
    fn can_pass_unix_fd(&self) -> bool {
        false
    }
}

#[async_trait]
impl WriteHalf for WrHalf {
    async fn sendmsg(&mut self, buffer: &[u8], _fds: &[BorrowedFd<'_>]) -> std::io::Result<usize> {
        let mut g = self.0.lock().unwrap();
        g.from_client.extend_from_slice(buffer);
        g.absorb();
        Ok(buffer.len())
    }
    async fn close(&mut self) -> std::io::Result<()> {
        Ok(())
    }
    fn can_pass_unix_fd(&self) -> bool {
        false
    }
}

impl Socket for FakeSock {
    type ReadHalf = RdHalf;
    type WriteHalf = WrHalf;
    fn split(self) -> Split<RdHalf, WrHalf> {
        Split::new(RdHalf(self.0.clone()), WrHalf(self.0))
    }
}

// ------------------------------------------------------------------ script
#[derive(Clone, Debug)]
enum Payload {
    Plain,
    Owner(u8),
    Err,
    Snap(Vec<(u8, u32)>),
}
#[derive(Clone, Debug)]
enum Body {
    Empty,
    Noc { name: u8, old: Option<u8>, new: Option<u8> },
    Props { ifc: u8, ch: Vec<(u8, u32)>, inv: Vec<u8> },
    Bad,
}
#[derive(Clone, Debug)]
enum Ev {
    Reply(Payload),
    Sig { snd: Option<u8>, path: u8, iface: u8, member: u8, body: Body },
}
struct Batch {
    poll: bool,
    evs: Vec<Ev>,
}

fn digit(c: char, max: u8) -> Option<u8> {
    let d = c.to_digit(10)? as u8;
    if d <= max { Some(d) } else { None }
}
fn opt_digit(c: char) -> Option<Option<u8>> {
    if c == '-' { Some(None) } else { Some(Some(digit(c, 9)?)) }
}
fn parse_kv(s: &str) -> Option<Vec<(u8, u32)>> {
    let mut out = vec![];
    if s.is_empty() {
        return Some(out);
    }
    for e in s.split(';') {
        let (k, v) = e.split_once('=')?;
        let mut kc = k.chars();
        let kd = digit(kc.next()?, 4)?;
        if kc.next().is_some() {
            return None;
        }
        out.push((kd, v.parse::<u32>().ok()?));
    }
    Some(out)
}
fn parse_keys(s: &str) -> Option<Vec<u8>> {
    let mut out = vec![];
    if s.is_empty() {
        return Some(out);
    }
    for e in s.split(';') {
        let mut kc = e.chars();
        out.push(digit(kc.next()?, 4)?);
        if kc.next().is_some() {
            return None;
        }
    }
    Some(out)
}
fn parse_body(s: &str) -> Option<Body> {
    let mut c = s.chars();
    match c.next()? {
        'e' if s.len() == 1 => Some(Body::Empty),
        'b' if s.len() == 1 => Some(Body::Bad),
        'n' => {
            let name = digit(c.next()?, 1)?;
            let old = opt_digit(c.next()?)?;
            let new = opt_digit(c.next()?)?;
            if c.next().is_some() {
                return None;
            }
            Some(Body::Noc { name, old, new })
        }
        'p' => {
            let parts: Vec<&str> = s[1..].split(':').collect();
            if parts.len() != 3 {
                return None;
            }
            let mut ic = parts[0].chars();
            let ifc = digit(ic.next()?, 3)?;
            if ic.next().is_some() {
                return None;
            }
            Some(Body::Props { ifc, ch: parse_kv(parts[1])?, inv: parse_keys(parts[2])? })
        }
        _ => None,
    }
}
fn parse_ev(s: &str) -> Option<Ev> {
    let mut c = s.chars();
    match c.next()? {
        'R' => {
            let rest = &s[1..];
            if rest.is_empty() {
                return Some(Ev::Reply(Payload::Plain));
            }
            let mut rc = rest.chars();
            match rc.next()? {
                'o' => {
                    let k = digit(rc.next()?, 9)?;
                    if rc.next().is_some() {
                        return None;
                    }
                    Some(Ev::Reply(Payload::Owner(k)))
                }
                'e' if rest.len() == 1 => Some(Ev::Reply(Payload::Err)),
                's' => Some(Ev::Reply(Payload::Snap(parse_kv(&rest[1..])?))),
                _ => None,
            }
        }
        'g' => {
            let parts: Vec<&str> = s[1..].splitn(5, '.').collect();
            if parts.len() != 5 {
                return None;
            }
            let one = |p: &str| -> Option<char> {
                let mut c = p.chars();
                let x = c.next()?;
                if c.next().is_some() { None } else { Some(x) }
            };
            Some(Ev::Sig {
                snd: opt_digit(one(parts[0])?)?,
                path: digit(one(parts[1])?, 2)?,
                iface: digit(one(parts[2])?, 3)?,
                member: digit(one(parts[3])?, 3)?,
                body: parse_body(parts[4])?,
            })
        }
        _ => None,
    }
}
fn parse_script(s: &str) -> Option<Vec<Batch>> {
    let mut out = vec![];
    for b in s.split('/') {
        let (poll, rest) = match b.strip_prefix('!') {
            Some(r) => (true, r),
            None => (false, b),
        };
        let mut evs = vec![];
        if rest != "-" {
            for e in rest.split(',') {
                evs.push(parse_ev(e)?);
            }
        }
        if evs.iter().filter(|e| matches!(e, Ev::Reply(_))).count() > 1 {
            return None; // a reply can only follow a call made after the previous reply was processed
        }
        out.push(Batch { poll, evs });
    }
    Some(out)
}

fn kv_map(l: &[(u8, u32)]) -> HashMap<&'static str, Value<'static>> {
    let mut m = HashMap::new();
    for (k, v) in l {
        m.insert(PROPS[*k as usize], Value::U32(*v));
    }
    m
}

fn build_signal(idx: u32, snd: Option<u8>, path: u8, iface: u8, member: u8, body: &Body) -> Message {
    let mut b = Message::signal(PATHS[path as usize], IFACES[iface as usize], MEMBERS[member as usize])
        .unwrap()
        .serial(NonZeroU32::new(SERIAL_BASE + idx).unwrap());
    let s;
    if let Some(k) = snd {
        s = uname(k);
        b = b.sender(s.as_str()).unwrap();
    }
    let opt = |o: &Option<u8>| o.map(uname).unwrap_or_default();
    match body {
        Body::Empty => b.build(&()).unwrap(),
        Body::Bad => b.build(&(42u32,)).unwrap(),
        Body::Noc { name, old, new } => b.build(&(WKNAMES[*name as usize], opt(old), opt(new))).unwrap(),
        Body::Props { ifc, ch, inv } => {
            let inv: Vec<&str> = inv.iter().map(|k| PROPS[*k as usize]).collect();
            b.build(&(IFACES[*ifc as usize], kv_map(ch), inv)).unwrap()
        }
    }
}

/// Err(()) = no unanswered call
fn build_reply(bus: &mut Bus, p: &Payload) -> Result<Message, ()> {
    let call = bus.pending.pop_front().ok_or(())?;
    let hdr = call.header();
    let ret = || Message::method_return(&hdr).unwrap().sender(DRIVER).unwrap();
    Ok(match p {
        Payload::Plain => ret().build(&()).unwrap(),
        Payload::Owner(k) => ret().build(&(uname(*k),)).unwrap(),
        Payload::Snap(l) => ret().build(&(kv_map(l),)).unwrap(),
        Payload::Err => Message::error(&hdr, "org.zv.Error.Scripted")
            .unwrap()
            .sender(DRIVER)
            .unwrap()
            .build(&("scripted error",))
            .unwrap(),
    })
}

// ------------------------------------------------------------------ deterministic driver
struct Flag(AtomicBool);
impl Wake for Flag {
    fn wake(self: Arc<Self>) {
        self.0.store(true, Ordering::SeqCst);
    }
}

fn poll_with<F: Future + ?Sized>(f: Pin<&mut F>, flag: &Arc<Flag>) -> Poll<F::Output> {
    let w = Waker::from(flag.clone());
    let mut cx = Context::from_waker(&w);
    f.poll(&mut cx)
}

fn tick(conn: &Connection, flag: &Arc<Flag>) -> bool {
    let fut = conn.executor().tick();
    let mut fut = std::pin::pin!(fut);
    poll_with(fut.as_mut(), flag).is_ready()
}

type BoxFut<T> = Pin<Box<dyn Future<Output = T>>>;

/// run every task, and the consumer's own pending future, until nothing can move
fn settle<T>(conn: &Connection, flag: &Arc<Flag>, main: &mut Option<BoxFut<T>>, done: &mut Option<T>) {
    for _ in 0..100_000 {
        let mut moved = false;
        while tick(conn, flag) {
            moved = true;
        }
        if let Some(f) = main.as_mut() {
            flag.0.store(false, Ordering::SeqCst);
            if let Poll::Ready(v) = poll_with(f.as_mut(), flag) {
                *done = Some(v);
                *main = None;
                moved = true;
            }
            if flag.0.load(Ordering::SeqCst) {
                moved = true;
            }
        }
        if !moved {
            return;
        }
    }
    panic!("no quiescence");
}

fn connect() -> (Connection, Arc<Mutex<Bus>>) {
    let bus = Arc::new(Mutex::new(Bus::default()));
    let conn = zbus::block_on(
        Builder::authenticated_socket(FakeSock(bus.clone()), GUID).unwrap().internal_executor(false).build(),
    )
    .expect("connection");
    assert!(conn.is_bus());
    (conn, bus)
}

/// make the events of a batch readable; Err = NOCALL
fn feed(bus: &Arc<Mutex<Bus>>, evs: &[Ev], next_idx: &mut u32) -> Result<(), ()> {
    let mut g = bus.lock().unwrap();
    for e in evs {
        *next_idx += 1;
        let m = match e {
            Ev::Reply(p) => build_reply(&mut g, p)?,
            Ev::Sig { snd, path, iface, member, body } => build_signal(*next_idx, *snd, *path, *iface, *member, body),
        };
        g.push(&m);
    }
    g.wake();
    Ok(())
}

fn parse_dest(s: &str) -> Option<String> {
    if s == "w" {
        return Some(WKNAMES[0].to_string());
    }
    let k = s.strip_prefix('u')?;
    let mut c = k.chars();
    let d = digit(c.next()?, 9)?;
    if c.next().is_some() || d == 0 {
        return None;
    }
    Some(uname(d))
}

fn calls_of(bus: &Arc<Mutex<Bus>>) -> String {
    let g = bus.lock().unwrap();
    if g.calls.is_empty() { "-".into() } else { g.calls.join(".") }
}

// ------------------------------------------------------------------ C32
fn run_s(dest: &str, pi: &str, pm: &str, script: &str) -> String {
    let dest = match parse_dest(dest) {
        Some(d) => d,
        None => return "BADCASE".into(),
    };
    let pi = match pi.chars().next().and_then(|c| digit(c, 3)) {
        Some(p) if pi.len() == 1 => p,
        _ => return "BADCASE".into(),
    };
    let pm: Option<u8> = if pm == "-" {
        None
    } else {
        match pm.chars().next().and_then(|c| digit(c, 3)) {
            Some(m) if pm.len() == 1 => Some(m),
            _ => return "BADCASE".into(),
        }
    };
    let batches = match parse_script(script) {
        Some(b) => b,
        None => return "BADCASE".into(),
    };
    let (conn, bus) = connect();
    let flag = Arc::new(Flag(AtomicBool::new(false)));
    let proxy: Proxy<'static> = zbus::block_on(
        zbus::proxy::Builder::<Proxy<'static>>::new(&conn)
            .destination(dest)
            .unwrap()
            .path(PATHS[0])
            .unwrap()
            .interface(IFACES[pi as usize])
            .unwrap()
            .cache_properties(CacheProperties::No)
            .build(),
    )
    .expect("proxy");
    let p2 = proxy.clone();
    let mut main: Option<BoxFut<zbus::Result<SignalStream<'static>>>> = Some(Box::pin(async move {
        match pm {
            Some(m) => p2.receive_signal(MEMBERS[m as usize]).await,
            None => p2.receive_all_signals().await,
        }
    }));
    let mut done: Option<zbus::Result<SignalStream<'static>>> = None;
    let mut out: Vec<String> = vec![];
    let mut idx = 0u32;
    settle(&conn, &flag, &mut main, &mut done);
    let nb = batches.len();
    for (bi, b) in batches.iter().enumerate() {
        if feed(&bus, &b.evs, &mut idx).is_err() {
            return "NOCALL".into();
        }
        settle(&conn, &flag, &mut main, &mut done);
        let st = match &done {
            None => "w",
            Some(Ok(_)) => "r",
            Some(Err(_)) => "E",
        };
        let mut ys = "_".to_string();
        if b.poll || bi + 1 == nb {
            if let Some(Ok(stream)) = done.as_mut() {
                let mut got: Vec<String> = vec![];
                for _ in 0..10_000 {
                    let r = {
                        let w = Waker::from(flag.clone());
                        let mut cx = Context::from_waker(&w);
                        Pin::new(&mut *stream).poll_next(&mut cx)
                    };
                    match r {
                        Poll::Ready(Some(m)) => {
                            let s = m.primary_header().serial_num().get();
                            got.push(if s > SERIAL_BASE { (s - SERIAL_BASE).to_string() } else { "?".into() });
                        }
                        Poll::Ready(None) => {
                            got.push("END".into());
                            break;
                        }
                        Poll::Pending => break,
                    }
                }
                // polling may have made tasks runnable (it does not: receivers only pop), run them anyway
                let mut none: Option<BoxFut<()>> = None;
                let mut nd = None;
                settle(&conn, &flag, &mut none, &mut nd);
                ys = if got.is_empty() { "-".into() } else { got.join(".") };
            }
        }
        out.push(format!("{}:{}", st, ys));
    }
    let calls = calls_of(&bus);
    // do not let destructors talk to the bus after the case
    std::mem::forget(done);
    std::mem::forget(main);
    format!("{} calls={}", out.join(";"), calls)
}

// ------------------------------------------------------------------ C31
const STREAM_PROPS: [usize; 3] = [0, 1, 3];

fn run_p(dest: &str, pi: &str, mode: &str, unc: &str, script: &str) -> String {
    let dest = match parse_dest(dest) {
        Some(d) => d,
        None => return "BADCASE".into(),
    };
    let pi = match pi.chars().next().and_then(|c| digit(c, 3)) {
        Some(p) if pi.len() == 1 => p,
        _ => return "BADCASE".into(),
    };
    if mode != "Y" && mode != "L" {
        return "BADCASE".into();
    }
    let mut uncached: Vec<&'static str> = vec![];
    if unc != "-" {
        for c in unc.chars() {
            match digit(c, 4) {
                Some(k) => uncached.push(PROPS[k as usize]),
                None => return "BADCASE".into(),
            }
        }
    }
    let batches = match parse_script(script) {
        Some(b) => b,
        None => return "BADCASE".into(),
    };
    let (conn, bus) = connect();
    let flag = Arc::new(Flag(AtomicBool::new(false)));
    let unc_static: &'static [&'static str] = Box::leak(uncached.into_boxed_slice());
    let builder = zbus::proxy::Builder::<Proxy<'static>>::new(&conn)
        .destination(dest)
        .unwrap()
        .path(PATHS[0])
        .unwrap()
        .interface(IFACES[pi as usize])
        .unwrap()
        .uncached_properties(unc_static)
        .cache_properties(if mode == "Y" { CacheProperties::Yes } else { CacheProperties::Lazily });
    let mut main: Option<BoxFut<zbus::Result<Proxy<'static>>>> = Some(Box::pin(builder.build()));
    let mut done: Option<zbus::Result<Proxy<'static>>> = None;
    let mut streams: Vec<PropertyStream<'static, OwnedValue>> = vec![];
    let mut out: Vec<String> = vec![];
    let mut idx = 0u32;
    let mk_streams = |p: &Proxy<'static>, streams: &mut Vec<PropertyStream<'static, OwnedValue>>| {
        for k in STREAM_PROPS {
            streams.push(zbus::block_on(p.receive_property_changed::<OwnedValue>(PROPS[k])));
        }
    };
    settle(&conn, &flag, &mut main, &mut done);
    if let (Some(Ok(p)), true) = (&done, streams.is_empty()) {
        mk_streams(p, &mut streams);
        let mut none: Option<BoxFut<()>> = None;
        let mut nd = None;
        settle(&conn, &flag, &mut none, &mut nd);
    }
    let nb = batches.len();
    for (bi, b) in batches.iter().enumerate() {
        if feed(&bus, &b.evs, &mut idx).is_err() {
            return "NOCALL".into();
        }
        settle(&conn, &flag, &mut main, &mut done);
        let st = if mode == "L" {
            "-"
        } else {
            match &done {
                None => "w",
                Some(Ok(_)) => "r",
                Some(Err(_)) => "E",
            }
        };
        let mut cache = vec!["-".to_string(); 4];
        let mut ss = "_".to_string();
        if let Some(Ok(p)) = &done {
            for k in 0..4 {
                if let Some(v) = p.cached_property_raw(PROPS[k]) {
                    cache[k] = match &*v {
                        Value::U32(x) => x.to_string(),
                        _ => "?".into(),
                    };
                }
            }
            let fresh = streams.is_empty();
            if fresh {
                mk_streams(p, &mut streams);
            }
            if b.poll || bi + 1 == nb {
                let mut toks = vec![];
                for (si, s) in streams.iter_mut().enumerate() {
                    let name = PROPS[STREAM_PROPS[si]];
                    let mut got: Vec<String> = vec![];
                    for _ in 0..100 {
                        let r = {
                            let w = Waker::from(flag.clone());
                            let mut cx = Context::from_waker(&w);
                            Pin::new(&mut *s).poll_next(&mut cx)
                        };
                        match r {
                            Poll::Ready(Some(_)) => got.push(match p.cached_property_raw(name) {
                                Some(v) => match &*v {
                                    Value::U32(x) => x.to_string(),
                                    _ => "?".into(),
                                },
                                None => "n".into(),
                            }),
                            Poll::Ready(None) => {
                                got.push("END".into());
                                break;
                            }
                            Poll::Pending => break,
                        }
                    }
                    toks.push(if got.is_empty() { "-".to_string() } else { got.join(".") });
                }
                ss = toks.join("|");
            }
        }
        out.push(format!("{}:{}:{}", st, cache.join("."), ss));
    }
    let calls = calls_of(&bus);
    std::mem::forget(streams);
    std::mem::forget(done);
    std::mem::forget(main);
    format!("{} calls={}", out.join(";"), calls)
}

fn main() {
    hcommon::run(|line| {
        let w: Vec<&str> = line.split(' ').filter(|x| !x.is_empty()).collect();
        let r = catch_unwind(AssertUnwindSafe(|| match w.as_slice() {
            ["S", dest, pi, pm, script] => run_s(dest, pi, pm, script),
            ["P", dest, pi, mode, unc, script] => run_p(dest, pi, mode, unc, script),
            _ => "BADCASE".into(),
        }));
        match r {
            Ok(s) => s,
            Err(_) => "PANIC".into(),
        }
    });
}
