//! C23: D-Bus addresses, `Display` and `FromStr` of `zbus::Address` (Linux build: unix, tcp, nonce-tcp,
//! unixexec, vsock).
//!
//! Case lines
//!   `v <fields>`      build the address value through the public constructors, format it, parse the
//!                     string back.  Output `OK:<fields of the parsed value>:<T|F parsed == original>;<hex of the string>`
//!                     or `ERR;<hex of the string>`.
//!   `p <hex string>`  parse the string.  Output `OK:<fields>;<hex of Display of the parsed value>;<T|F|E>`
//!                     (last flag: does Display re-parse to an equal value) or `ERR;;`.
//! `<fields>` = `<transport>/<key>=<hex of raw value>,...` in Display order, e.g.
//!   `unix/path=2f746d70,guid=30..`, `nonce-tcp/noncefile=..,host=..,port=<hex of decimal>,bind=..,family=<hex of ipv4>`,
//!   `vsock/cid=..,port=..`, `unixexec/path=..,argv0=..,argv1=..`.
//! Every error is printed as `ERR` (which error, and in which order the checks run, is not part of the property).
use std::ffi::OsString;
use std::os::unix::ffi::{OsStrExt, OsStringExt};
use std::path::PathBuf;
use std::str::FromStr;
use zbus::address::transport::{Tcp, TcpTransportFamily, Transport, Unix, UnixSocket, Unixexec, Vsock};
use zbus::Address;

fn kv(out: &mut Vec<String>, k: &str, v: &[u8]) {
    out.push(format!("{}={}", k, hcommon::hex(v)));
}

fn fields(a: &Address) -> String {
    let mut out = Vec::new();
    let name;
    match a.transport() {
        Transport::Unix(u) => {
            name = "unix";
            match u.path() {
                UnixSocket::File(p) => kv(&mut out, "path", p.as_os_str().as_bytes()),
                UnixSocket::Abstract(p) => kv(&mut out, "abstract", p.as_bytes()),
                UnixSocket::Dir(p) => kv(&mut out, "dir", p.as_os_str().as_bytes()),
                UnixSocket::TmpDir(p) => kv(&mut out, "tmpdir", p.as_os_str().as_bytes()),
                _ => return "UNKNOWN".into(),
            }
        }
        Transport::Tcp(t) => {
            name = if t.nonce_file().is_some() { "nonce-tcp" } else { "tcp" };
            if let Some(n) = t.nonce_file() {
                kv(&mut out, "noncefile", n);
            }
            kv(&mut out, "host", t.host().as_bytes());
            kv(&mut out, "port", t.port().to_string().as_bytes());
            if let Some(b) = t.bind() {
                kv(&mut out, "bind", b.as_bytes());
            }
            match t.family() {
                Some(TcpTransportFamily::Ipv4) => kv(&mut out, "family", b"ipv4"),
                Some(TcpTransportFamily::Ipv6) => kv(&mut out, "family", b"ipv6"),
                None => {}
            }
        }
        Transport::Vsock(v) => {
            name = "vsock";
            kv(&mut out, "cid", v.cid().to_string().as_bytes());
            kv(&mut out, "port", v.port().to_string().as_bytes());
        }
        Transport::Unixexec(x) => {
            name = "unixexec";
            kv(&mut out, "path", x.path().as_os_str().as_bytes());
            if let Some(a0) = x.arg0() {
                kv(&mut out, "argv0", a0.as_bytes());
            }
            for (i, a) in x.args().iter().enumerate() {
                kv(&mut out, &format!("argv{}", i + 1), a.as_bytes());
            }
        }
        _ => return "UNKNOWN".into(),
    }
    if let Some(g) = a.guid() {
        kv(&mut out, "guid", g.as_str().as_bytes());
    }
    format!("{}/{}", name, out.join(","))
}


/// Build an address value from `<transport>/<k>=<hex>,...` through the public API only.
fn build(spec: &str) -> Option<Address> {
    let (name, rest) = spec.split_once('/')?;
    let mut items: Vec<(String, Vec<u8>)> = Vec::new();
    if !rest.is_empty() {
        for it in rest.split(',') {
            let (k, v) = it.split_once('=')?;
            items.push((k.to_string(), hcommon::unhex(v)?));
        }
    }
    let get = |k: &str| items.iter().find(|(kk, _)| kk == k).map(|(_, v)| v.clone());
    let s = |v: Vec<u8>| String::from_utf8(v).ok();
    let os = |v: Vec<u8>| OsString::from_vec(v);
    let transport = match name {
        "unix" => {
            let (k, v) = items.first()?.clone();
            let sock = match k.as_str() {
                "path" => UnixSocket::File(PathBuf::from(os(v))),
                "abstract" => UnixSocket::Abstract(os(v)),
                "dir" => UnixSocket::Dir(PathBuf::from(os(v))),
                "tmpdir" => UnixSocket::TmpDir(PathBuf::from(os(v))),
                _ => return None,
            };
            Transport::Unix(Unix::new(sock))
        }
        "tcp" | "nonce-tcp" => {
            let host = s(get("host")?)?;
            let port: u16 = s(get("port")?)?.parse().ok()?;
            let fam = match get("family") {
                None => None,
                Some(f) if f == b"ipv4" => Some(TcpTransportFamily::Ipv4),
                Some(f) if f == b"ipv6" => Some(TcpTransportFamily::Ipv6),
                _ => return None,
            };
            let bind = match get("bind") {
                None => None,
                Some(b) => Some(s(b)?),
            };
            Transport::Tcp(Tcp::new(&host, port).set_family(fam).set_bind(bind).set_nonce_file(get("noncefile")))
        }
        "vsock" => {
            let cid: u32 = s(get("cid")?)?.parse().ok()?;
            let port: u32 = s(get("port")?)?.parse().ok()?;
            Transport::Vsock(Vsock::new(cid, port))
        }
        "unixexec" => {
            let path = PathBuf::from(os(get("path")?));
            let arg0 = get("argv0").map(os);
            let mut args = Vec::new();
            let mut i = 1;
            while let Some(a) = get(&format!("argv{}", i)) {
                args.push(os(a));
                i += 1;
            }
            Transport::Unixexec(Unixexec::new(path, arg0, args))
        }
        _ => return None,
    };
    let mut a = Address::new(transport);
    if let Some(g) = get("guid") {
        let g = zbus::Guid::try_from(s(g)?).ok()?;
        a = a.set_guid(g).ok()?;
    }
    Some(a)
}

fn main() {
    hcommon::run(|line| {
        let w: Vec<&str> = line.split(' ').filter(|x| !x.is_empty()).collect();
        if w.is_empty() {
            return "BADCASE".into();
        }
        match w[0] {
            "v" => {
                let a = match w.get(1).and_then(|s| build(s)) {
                    Some(a) => a,
                    None => return "BADCASE".into(),
                };
                let shown = a.to_string();
                let back = match Address::from_str(&shown) {
                    Ok(b) => format!("OK:{}:{}", fields(&b), hcommon::tf(b == a)),
                    Err(_) => "ERR".to_string(),
                };
                format!("{};{}", back, hcommon::hex(shown.as_bytes()))
            }
            "p" => {
                let bytes = match hcommon::unhex(w.get(1).copied().unwrap_or("")) {
                    Some(b) => b,
                    None => return "BADCASE".into(),
                };
                let s = match String::from_utf8(bytes) {
                    Ok(s) => s,
                    Err(_) => return "BADCASE".into(),
                };
                match Address::from_str(&s) {
                    Ok(a) => {
                        let shown = a.to_string();
                        let rt = match Address::from_str(&shown) {
                            Ok(b) => hcommon::tf(b == a),
                            Err(_) => "E".to_string(),
                        };
                        format!("OK:{};{};{}", fields(&a), hcommon::hex(shown.as_bytes()), rt)
                    }
                    Err(_) => "ERR;;".to_string(),
                }
            }
            _ => "BADCASE".into(),
        }
    });
}
