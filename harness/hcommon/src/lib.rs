//! Shared line-protocol runner for the harness binaries: one case per stdin line, one result per
//! stdout line; a panic inside a case is caught and printed as `PANIC`.
use std::io::{BufRead, Write};
use std::panic::{catch_unwind, AssertUnwindSafe};

pub fn hex(b: &[u8]) -> String {
    let mut s = String::with_capacity(b.len() * 2);
    for x in b {
        s.push_str(&format!("{:02x}", x));
    }
    s
}

pub fn unhex(s: &str) -> Option<Vec<u8>> {
    if s.len() % 2 != 0 {
        return None;
    }
    let b = s.as_bytes();
    let v = |c: u8| -> Option<u8> {
        match c {
            b'0'..=b'9' => Some(c - b'0'),
            b'a'..=b'f' => Some(c - b'a' + 10),
            b'A'..=b'F' => Some(c - b'A' + 10),
            _ => None,
        }
    };
    let mut out = Vec::with_capacity(b.len() / 2);
    for i in (0..b.len()).step_by(2) {
        out.push(v(b[i])? * 16 + v(b[i + 1])?);
    }
    Some(out)
}

pub fn tf(b: bool) -> String {
    if b { "T".into() } else { "F".into() }
}

/// Run `f` on every stdin line. `f` returns the result token(s) for that case.
pub fn run<F: Fn(&str) -> String>(f: F) {
    std::panic::set_hook(Box::new(|_| {}));
    let stdin = std::io::stdin();
    let stdout = std::io::stdout();
    let mut out = std::io::BufWriter::new(stdout.lock());
    for line in stdin.lock().lines() {
        let line = match line {
            Ok(l) => l,
            Err(_) => break,
        };
        let r = catch_unwind(AssertUnwindSafe(|| f(&line)));
        let s = match r {
            Ok(s) => s,
            Err(_) => "PANIC".to_string(),
        };
        let _ = writeln!(out, "{}", s);
    }
    let _ = out.flush();
}
