//! GVariant codec harness (C05, and the GVariant halves of C02/C04/C07): zvariant's GVariant serializer and
//! deserializer driven by the text value syntax shared with coq/theories/C05/Val.v.
//!   ser g- <L|B> <pos> dyn|plain|typed:<name> <value tokens...>
//!   rt  g- <L|B> <pos> dyn|plain|typed:<name> <value tokens...>
//!   de  g- <L|B> <pos> <nfds> v <hex>  |  de g- <L|B> <pos> <nfds> s <sig> <hex>  |  de g- <L|B> <pos> <nfds> t:<name> <hex>
//! Value syntax = harness/hz plus  m <childsig> 0 | m <childsig> 1 <value>   (maybe),
//!   A <elemsig> <count> <value> (array of <count> copies)  and  S <n> (string of n 'a').
use std::collections::BTreeMap;
use std::os::fd::{AsRawFd, BorrowedFd, OwnedFd};
use zvariant::serialized::{Context, Data};
use zvariant::{Array, Dict, Fd, Maybe, ObjectPath, Signature, Str, Structure, StructureBuilder, Type, Value, BE, LE};

thread_local! {
    static FDS: Vec<OwnedFd> = (0..16).map(|i| {
        use std::os::fd::FromRawFd;
        let name = std::ffi::CString::new(format!("hgv{}", i)).unwrap();
        let fd = unsafe { libc::memfd_create(name.as_ptr(), 0) };
        assert!(fd >= 0);
        unsafe { OwnedFd::from_raw_fd(fd) }
    }).collect();
}

fn ino(raw: i32) -> u64 {
    let mut st: libc::stat = unsafe { std::mem::zeroed() };
    if unsafe { libc::fstat(raw, &mut st) } != 0 {
        return u64::MAX;
    }
    st.st_ino as u64
}
fn fd_raw(i: usize) -> i32 {
    FDS.with(|f| f[i % f.len()].as_raw_fd())
}
fn fd_index(raw: i32) -> Option<usize> {
    let x = ino(raw);
    FDS.with(|f| f.iter().position(|y| ino(y.as_raw_fd()) == x))
}

/// hex token; segments separated by '.', a segment `HEX*N` stands for N copies (long hostile inputs stay short lines)
fn hexs(t: &str) -> Option<Vec<u8>> {
    if t == "-" {
        return Some(vec![]);
    }
    let mut out = vec![];
    for seg in t.split('.') {
        match seg.split_once('*') {
            Some((h, n)) => {
                let b = hcommon::unhex(h)?;
                let n: usize = n.parse().ok()?;
                for _ in 0..n {
                    out.extend_from_slice(&b);
                }
            }
            None => out.extend(hcommon::unhex(seg)?),
        }
    }
    Some(out)
}
fn hext(b: &[u8]) -> String {
    if b.is_empty() { "-".into() } else { hcommon::hex(b) }
}
/// encoded bytes as printed by `ser`: in full up to 1024 bytes, otherwise length, Adler-32, first 16 and last 48 bytes
fn obs_bytes(b: &[u8]) -> String {
    if b.len() <= 1024 {
        return hext(b);
    }
    let (mut a, mut c) = (1u32, 0u32);
    for x in b {
        a = (a + *x as u32) % 65521;
        c = (c + a) % 65521;
    }
    format!("#{}.{}.{}.{}", b.len(), c * 65536 + a, hcommon::hex(&b[..16]), hcommon::hex(&b[b.len() - 48..]))
}
fn sig_of(t: &str) -> Option<Signature> {
    if t == "-" { Some(Signature::Unit) } else { Signature::try_from(t).ok() }
}
fn sig_tok(s: &Signature) -> String {
    let t = s.to_string();
    if t.is_empty() { "-".into() } else { t }
}

struct P<'a> {
    t: Vec<&'a str>,
    i: usize,
}
impl<'a> P<'a> {
    fn next(&mut self) -> Option<&'a str> {
        let r = self.t.get(self.i).copied();
        self.i += 1;
        r
    }
    fn value(&mut self) -> Option<Value<'static>> {
        let t = self.next()?;
        Some(match t {
            "y" => Value::U8(self.next()?.parse().ok()?),
            "b" => Value::Bool(self.next()?.parse::<u64>().ok()? != 0),
            "n" => Value::I16(self.next()?.parse().ok()?),
            "q" => Value::U16(self.next()?.parse().ok()?),
            "i" => Value::I32(self.next()?.parse().ok()?),
            "u" => Value::U32(self.next()?.parse().ok()?),
            "x" => Value::I64(self.next()?.parse().ok()?),
            "t" => Value::U64(self.next()?.parse().ok()?),
            "d" => Value::F64(f64::from_bits(u64::from_str_radix(self.next()?, 16).ok()?)),
            "s" => Value::Str(Str::from(String::from_utf8(hexs(self.next()?)?).ok()?)),
            "S" => Value::Str(Str::from("a".repeat(self.next()?.parse::<usize>().ok()?))),
            "o" => Value::ObjectPath(ObjectPath::from_string_unchecked(String::from_utf8(hexs(self.next()?)?).ok()?)),
            "g" => Value::Signature(sig_of(self.next()?)?),
            "h" => {
                let i: usize = self.next()?.parse().ok()?;
                let fd: BorrowedFd<'static> = unsafe { BorrowedFd::borrow_raw(fd_raw(i)) };
                Value::Fd(Fd::from(fd))
            }
            "v" => Value::Value(Box::new(self.value()?)),
            "m" => {
                let cs = sig_of(self.next()?)?;
                match self.next()? {
                    "0" => Value::Maybe(Maybe::nothing(&cs)),
                    "1" => {
                        let x = self.value()?;
                        if x.value_signature() != &cs {
                            return None;
                        }
                        Value::Maybe(Maybe::just(x))
                    }
                    _ => return None,
                }
            }
            "a" => {
                let es = sig_of(self.next()?)?;
                let n: usize = self.next()?.parse().ok()?;
                let mut a = Array::new(&es);
                for _ in 0..n {
                    a.append(self.value()?).ok()?;
                }
                Value::Array(a)
            }
            "A" => {
                let es = sig_of(self.next()?)?;
                let n: usize = self.next()?.parse().ok()?;
                let x = self.value()?;
                let mut a = Array::new(&es);
                for _ in 0..n {
                    a.append(x.try_clone().ok()?).ok()?;
                }
                Value::Array(a)
            }
            "e" => {
                let ks = sig_of(self.next()?)?;
                let vs = sig_of(self.next()?)?;
                let n: usize = self.next()?.parse().ok()?;
                let mut d = Dict::new(&ks, &vs);
                for _ in 0..n {
                    let k = self.value()?;
                    let v = self.value()?;
                    d.append(k, v).ok()?;
                }
                Value::Dict(d)
            }
            "r" => {
                let n: usize = self.next()?.parse().ok()?;
                let mut b = StructureBuilder::new();
                for _ in 0..n {
                    b = b.append_field(self.value()?);
                }
                Value::Structure(b.build().ok()?)
            }
            _ => return None,
        })
    }
}

fn show(v: &Value<'_>, out: &mut Vec<String>) {
    match v {
        Value::U8(x) => out.extend(["y".into(), x.to_string()]),
        Value::Bool(x) => out.extend(["b".into(), (*x as u8).to_string()]),
        Value::I16(x) => out.extend(["n".into(), x.to_string()]),
        Value::U16(x) => out.extend(["q".into(), x.to_string()]),
        Value::I32(x) => out.extend(["i".into(), x.to_string()]),
        Value::U32(x) => out.extend(["u".into(), x.to_string()]),
        Value::I64(x) => out.extend(["x".into(), x.to_string()]),
        Value::U64(x) => out.extend(["t".into(), x.to_string()]),
        Value::F64(x) => out.extend(["d".into(), format!("{:016x}", x.to_bits())]),
        Value::Str(s) => out.extend(["s".into(), hext(s.as_bytes())]),
        Value::ObjectPath(s) => out.extend(["o".into(), hext(s.as_bytes())]),
        Value::Signature(s) => out.extend(["g".into(), sig_tok(s)]),
        Value::Fd(f) => out.extend(["h".into(), fd_index(f.as_raw_fd()).map(|i| i.to_string()).unwrap_or("?".into())]),
        Value::Value(x) => {
            out.push("v".into());
            show(x, out)
        }
        Value::Maybe(m) => {
            let cs = match m.signature() {
                Signature::Maybe(c) => sig_tok(c.signature()),
                _ => "?".into(),
            };
            match m.inner() {
                None => out.extend(["m".into(), cs, "0".into()]),
                Some(x) => {
                    out.extend(["m".into(), cs, "1".into()]);
                    show(x, out)
                }
            }
        }
        Value::Array(a) => {
            out.extend(["a".into(), sig_tok(a.element_signature()), a.len().to_string()]);
            for x in a.iter() {
                show(x, out)
            }
        }
        Value::Dict(d) => {
            let (ks, vs) = match d.signature() {
                Signature::Dict { key, value } => (key.signature().clone(), value.signature().clone()),
                _ => unreachable!(),
            };
            let mut entries: Vec<(Vec<String>, Vec<String>)> = vec![];
            for (k, v) in d.iter() {
                let (mut a, mut b) = (vec![], vec![]);
                show(k, &mut a);
                show(v, &mut b);
                entries.push((a, b));
            }
            entries.sort_by(|x, y| x.0.join(" ").as_bytes().cmp(y.0.join(" ").as_bytes()));
            out.extend(["e".into(), sig_tok(&ks), sig_tok(&vs), entries.len().to_string()]);
            for (a, b) in entries {
                out.extend(a);
                out.extend(b);
            }
        }
        Value::Structure(s) => {
            out.extend(["r".into(), s.fields().len().to_string()]);
            for x in s.fields() {
                show(x, out)
            }
        }
    }
}
fn text(v: &Value<'_>) -> String {
    let mut o = vec![];
    show(v, &mut o);
    o.join(" ")
}

fn err_tok(e: &zvariant::Error) -> String {
    match e {
        zvariant::Error::MaxDepthExceeded(_) => "ERR:D".into(),
        _ => "ERR".into(),
    }
}

fn ctxt(e: &str, pos: usize) -> Context {
    if e == "B" { Context::new_gvariant(BE, pos) } else { Context::new_gvariant(LE, pos) }
}

fn ser_obs(r: zvariant::Result<Data<'static, 'static>>, z: zvariant::Result<zvariant::serialized::Size>) -> String {
    match (r, z) {
        (Ok(d), Ok(z)) => format!("OK:{}:{}:{}:{}", obs_bytes(d.bytes()), z.size(), d.fds().len(), z.num_fds()),
        (Err(e), _) => err_tok(&e),
        (_, Err(e)) => err_tok(&e),
    }
}

// ------------------------------------------------------------------ typed Rust values
trait Typed: Sized + serde::Serialize + for<'d> serde::Deserialize<'d> + Type + PartialEq {
    fn from_v(v: &Value<'_>) -> Option<Self>;
    fn to_v(&self) -> Value<'static>;
}
macro_rules! typed_basic {
    ($t:ty, $variant:ident) => {
        impl Typed for $t {
            fn from_v(v: &Value<'_>) -> Option<Self> {
                match v { Value::$variant(x) => Some(x.clone()), _ => None }
            }
            fn to_v(&self) -> Value<'static> { Value::$variant(self.clone()) }
        }
    };
}
typed_basic!(u8, U8);
typed_basic!(bool, Bool);
typed_basic!(i16, I16);
typed_basic!(u16, U16);
typed_basic!(i32, I32);
typed_basic!(u32, U32);
typed_basic!(i64, I64);
typed_basic!(u64, U64);
impl Typed for String {
    fn from_v(v: &Value<'_>) -> Option<Self> {
        match v { Value::Str(x) => Some(x.to_string()), _ => None }
    }
    fn to_v(&self) -> Value<'static> { Value::Str(Str::from(self.clone())) }
}
impl<T: Typed> Typed for Option<T> {
    fn from_v(v: &Value<'_>) -> Option<Self> {
        match v {
            Value::Maybe(m) => match m.inner() { None => Some(None), Some(x) => Some(Some(T::from_v(x)?)) },
            _ => None,
        }
    }
    fn to_v(&self) -> Value<'static> {
        match self {
            None => Value::Maybe(Maybe::nothing(T::SIGNATURE)),
            Some(x) => Value::Maybe(Maybe::just(x.to_v())),
        }
    }
}
impl<T: Typed> Typed for Vec<T> {
    fn from_v(v: &Value<'_>) -> Option<Self> {
        match v { Value::Array(a) => a.iter().map(T::from_v).collect(), _ => None }
    }
    fn to_v(&self) -> Value<'static> {
        let mut a = Array::new(T::SIGNATURE);
        for x in self {
            a.append(x.to_v()).unwrap();
        }
        Value::Array(a)
    }
}
impl<K: Typed + Ord, V: Typed> Typed for BTreeMap<K, V> {
    fn from_v(v: &Value<'_>) -> Option<Self> {
        match v {
            Value::Dict(d) => d.iter().map(|(k, x)| Some((K::from_v(k)?, V::from_v(x)?))).collect(),
            _ => None,
        }
    }
    fn to_v(&self) -> Value<'static> {
        let mut d = Dict::new(K::SIGNATURE, V::SIGNATURE);
        for (k, x) in self {
            d.append(k.to_v(), x.to_v()).unwrap();
        }
        Value::Dict(d)
    }
}
macro_rules! typed_tuple {
    ($($n:tt $name:ident),+) => {
        impl<$($name: Typed),+> Typed for ($($name,)+) {
            fn from_v(v: &Value<'_>) -> Option<Self> {
                match v {
                    Value::Structure(s) => {
                        let f = s.fields();
                        if f.len() != [$($n),+].len() { return None; }
                        Some(($($name::from_v(&f[$n])?,)+))
                    }
                    _ => None,
                }
            }
            fn to_v(&self) -> Value<'static> {
                let mut b = StructureBuilder::new();
                $( b = b.append_field(self.$n.to_v()); )+
                Value::Structure(b.build().unwrap())
            }
        }
    };
}
typed_tuple!(0 A);
typed_tuple!(0 A, 1 B);
typed_tuple!(0 A, 1 B, 2 C);

trait Op {
    fn run<T: Typed>(&self) -> String;
}
fn dispatch<O: Op>(name: &str, op: &O) -> String {
    type S = String;
    match name {
        "y" => op.run::<u8>(),
        "b" => op.run::<bool>(),
        "n" => op.run::<i16>(),
        "q" => op.run::<u16>(),
        "i" => op.run::<i32>(),
        "u" => op.run::<u32>(),
        "x" => op.run::<i64>(),
        "t" => op.run::<u64>(),
        "s" => op.run::<S>(),
        "mu" => op.run::<Option<u32>>(),
        "my" => op.run::<Option<u8>>(),
        "mb" => op.run::<Option<bool>>(),
        "ms" => op.run::<Option<S>>(),
        "mmu" => op.run::<Option<Option<u32>>>(),
        "mms" => op.run::<Option<Option<S>>>(),
        "mas" => op.run::<Option<Vec<S>>>(),
        "ay" => op.run::<Vec<u8>>(),
        "au" => op.run::<Vec<u32>>(),
        "ab" => op.run::<Vec<bool>>(),
        "ax" => op.run::<Vec<i64>>(),
        "as" => op.run::<Vec<S>>(),
        "aas" => op.run::<Vec<Vec<S>>>(),
        "aay" => op.run::<Vec<Vec<u8>>>(),
        "ams" => op.run::<Vec<Option<S>>>(),
        "amu" => op.run::<Vec<Option<u32>>>(),
        "(su)" => op.run::<(S, u32)>(),
        "(us)" => op.run::<(u32, S)>(),
        "(ssy)" => op.run::<(S, S, u8)>(),
        "(uy)" => op.run::<(u32, u8)>(),
        "(yu)" => op.run::<(u8, u32)>(),
        "(s)" => op.run::<(S,)>(),
        "a(uy)" => op.run::<Vec<(u32, u8)>>(),
        "a(su)" => op.run::<Vec<(S, u32)>>(),
        "(asas)" => op.run::<(Vec<S>, Vec<S>)>(),
        "(ass)" => op.run::<(Vec<S>, S)>(),
        "(msmu)" => op.run::<(Option<S>, Option<u32>)>(),
        "(y(su)aas)" => op.run::<(u8, (S, u32), Vec<Vec<S>>)>(),
        "a{su}" => op.run::<BTreeMap<S, u32>>(),
        "a{us}" => op.run::<BTreeMap<u32, S>>(),
        "a{ss}" => op.run::<BTreeMap<S, S>>(),
        "a{uy}" => op.run::<BTreeMap<u32, u8>>(),
        "a{sas}" => op.run::<BTreeMap<S, Vec<S>>>(),
        "a{yms}" => op.run::<BTreeMap<u8, Option<S>>>(),
        _ => "BADCASE".into(),
    }
}

struct SerOp<'a>(Context, &'a Value<'a>);
impl Op for SerOp<'_> {
    fn run<T: Typed>(&self) -> String {
        match T::from_v(self.1) {
            Some(x) => ser_obs(zvariant::to_bytes(self.0, &x), zvariant::serialized_size(self.0, &x)),
            None => "BADCASE".into(),
        }
    }
}
struct RtOp<'a>(Context, &'a Value<'a>);
impl Op for RtOp<'_> {
    fn run<T: Typed>(&self) -> String {
        let x = match T::from_v(self.1) { Some(x) => x, None => return "BADCASE".into() };
        match zvariant::to_bytes(self.0, &x) {
            Ok(d) => match d.deserialize::<T>() {
                Ok((y, n)) => format!("OK:{}:{}:{}", d.bytes().len(), n, hcommon::tf(y == x)),
                Err(e) => format!("DE{}", err_tok(&e)),
            },
            Err(e) => err_tok(&e),
        }
    }
}
struct DeOp<'a>(Context, &'a [u8]);
impl Op for DeOp<'_> {
    fn run<T: Typed>(&self) -> String {
        let d = Data::new(self.1.to_vec(), self.0);
        match d.deserialize::<T>() {
            Ok((y, n)) => {
                let c = self.0;
                let r = match std::panic::catch_unwind(std::panic::AssertUnwindSafe(|| zvariant::to_bytes(c, &y))) {
                    Ok(Ok(_)) => "Rok",
                    Ok(Err(_)) => "Rerr",
                    Err(_) => "Rpanic",
                };
                format!("OK:{}:{}:{}", n, text(&y.to_v()), r)
            }
            Err(e) => err_tok(&e),
        }
    }
}

/// serialize a dynamic value with its own signature (what a struct field / array element does)
fn plain_bytes(c: Context, v: &Value<'_>) -> (zvariant::Result<Data<'static, 'static>>, zvariant::Result<zvariant::serialized::Size>) {
    macro_rules! go {
        ($x:expr) => {
            (zvariant::to_bytes_for_signature(c, v.value_signature(), $x), plain_size(c, v))
        };
    }
    match v {
        Value::U8(x) => go!(x),
        Value::Bool(x) => go!(x),
        Value::I16(x) => go!(x),
        Value::U16(x) => go!(x),
        Value::I32(x) => go!(x),
        Value::U32(x) => go!(x),
        Value::I64(x) => go!(x),
        Value::U64(x) => go!(x),
        Value::F64(x) => go!(x),
        Value::Str(x) => go!(x),
        Value::Signature(x) => go!(x),
        Value::ObjectPath(x) => go!(x),
        Value::Value(x) => go!(&**x),
        Value::Array(x) => go!(x),
        Value::Dict(x) => go!(x),
        Value::Structure(x) => go!(x),
        Value::Maybe(x) => go!(x),
        Value::Fd(x) => go!(x),
    }
}
/// the size pass for `plain`: only types with a DynamicType impl have one; others report the written length
fn plain_size(c: Context, v: &Value<'_>) -> zvariant::Result<zvariant::serialized::Size> {
    match v {
        Value::Array(x) => zvariant::serialized_size(c, x),
        Value::Structure(x) => zvariant::serialized_size(c, x),
        Value::Value(x) => zvariant::serialized_size(c, &**x),
        Value::U8(x) => zvariant::serialized_size(c, x),
        Value::Bool(x) => zvariant::serialized_size(c, x),
        Value::I16(x) => zvariant::serialized_size(c, x),
        Value::U16(x) => zvariant::serialized_size(c, x),
        Value::I32(x) => zvariant::serialized_size(c, x),
        Value::U32(x) => zvariant::serialized_size(c, x),
        Value::I64(x) => zvariant::serialized_size(c, x),
        Value::U64(x) => zvariant::serialized_size(c, x),
        Value::F64(x) => zvariant::serialized_size(c, x),
        Value::Str(x) => zvariant::serialized_size(c, x),
        Value::Signature(x) => zvariant::serialized_size(c, x),
        Value::ObjectPath(x) => zvariant::serialized_size(c, x),
        Value::Fd(x) => zvariant::serialized_size(c, x),
        // Dict and Maybe have no DynamicType impl: use the write pass for the size as well
        _ => {
            let d = zvariant::to_bytes_for_signature(c, v.value_signature(), &PlainRef(v))?;
            Ok(zvariant::serialized::Size::new(d.bytes().len(), c).set_num_fds(d.fds().len() as u32))
        }
    }
}
struct PlainRef<'a>(&'a Value<'a>);
impl serde::Serialize for PlainRef<'_> {
    fn serialize<S: serde::Serializer>(&self, s: S) -> Result<S::Ok, S::Error> {
        match self.0 {
            Value::Dict(x) => x.serialize(s),
            Value::Maybe(x) => x.serialize(s),
            _ => Err(serde::ser::Error::custom("unsupported")),
        }
    }
}

fn parse_value(toks: Vec<&str>) -> Option<Value<'static>> {
    let mut p = P { t: toks, i: 0 };
    match p.value() {
        Some(v) if p.i == p.t.len() => Some(v),
        _ => None,
    }
}

fn run_ser(c: Context, mode: &str, toks: Vec<&str>) -> String {
    let v = match parse_value(toks) { Some(v) => v, None => return "BADCASE".into() };
    match mode {
        "dyn" => ser_obs(zvariant::to_bytes(c, &v), zvariant::serialized_size(c, &v)),
        "plain" => {
            let (r, z) = plain_bytes(c, &v);
            ser_obs(r, z)
        }
        m if m.starts_with("typed:") => dispatch(&m[6..], &SerOp(c, &v)),
        _ => "BADCASE".into(),
    }
}

fn same(y: &Value<'_>, v: &Value<'_>) -> bool {
    let t = text(v);
    let has_nan = t.split(' ').collect::<Vec<_>>().windows(2).any(|w| {
        w[0] == "d" && u64::from_str_radix(w[1], 16).map(|b| f64::from_bits(b).is_nan()).unwrap_or(false)
    });
    text(y) == t && (has_nan || y == v)
}

/// rt: encode, decode the produced bytes (with the produced fds), compare with the original.
fn run_rt(c: Context, mode: &str, toks: Vec<&str>) -> String {
    let v = match parse_value(toks) { Some(v) => v, None => return "BADCASE".into() };
    match mode {
        "dyn" => match zvariant::to_bytes(c, &v) {
            Ok(d) => match d.deserialize::<Value>() {
                Ok((y, n)) => {
                    let y = remap_fds(y);
                    format!("OK:{}:{}:{}", d.bytes().len(), n, hcommon::tf(same(&y, &v)))
                }
                Err(e) => format!("DE{}", err_tok(&e)),
            },
            Err(e) => err_tok(&e),
        },
        "plain" => {
            // decoded through a Structure whose signature is the value's own (a non-struct signature is wrapped)
            let (r, _) = plain_bytes(c, &v);
            match r {
                Ok(d) => match d.deserialize_for_dynamic_signature::<_, Structure>(v.value_signature()) {
                    Ok((y, n)) => {
                        let y = remap_fds(Value::Structure(y));
                        let w = match &v {
                            Value::Structure(_) => v.try_clone().unwrap(),
                            _ => Value::Structure(StructureBuilder::new().append_field(v.try_clone().unwrap()).build().unwrap()),
                        };
                        format!("OK:{}:{}:{}", d.bytes().len(), n, hcommon::tf(same(&y, &w)))
                    }
                    Err(e) => format!("DE{}", err_tok(&e)),
                },
                Err(e) => err_tok(&e),
            }
        }
        m if m.starts_with("typed:") => dispatch(&m[6..], &RtOp(c, &v)),
        _ => "BADCASE".into(),
    }
}

fn reenc<T: serde::Serialize + zvariant::DynamicType>(c: Context, v: &T) -> &'static str {
    match std::panic::catch_unwind(std::panic::AssertUnwindSafe(|| zvariant::to_bytes(c, v))) {
        Ok(Ok(_)) => "Rok",
        Ok(Err(_)) => "Rerr",
        Err(_) => "Rpanic",
    }
}

fn run_de(c: Context, nf: usize, rest: &[&str]) -> String {
    let fds: Vec<OwnedFd> = FDS.with(|f| (0..nf).map(|i| f[i % f.len()].try_clone().unwrap()).collect());
    match rest {
        ["v", h] => {
            let b = match hexs(h) { Some(b) => b, None => return "BADCASE".into() };
            let d = Data::new_fds(b, c, fds);
            match d.deserialize::<Value>() {
                Ok((v, n)) => {
                    let v = remap_fds(v);
                    format!("OK:{}:v {}:{}", n, text(&v), reenc(c, &v))
                }
                Err(e) => err_tok(&e),
            }
        }
        ["s", g, h] => {
            let b = match hexs(h) { Some(b) => b, None => return "BADCASE".into() };
            let sig = match sig_of(g) { Some(s) => s, None => return "ERR".into() };
            let d = Data::new_fds(b, c, fds);
            match d.deserialize_for_dynamic_signature::<_, Structure>(&sig) {
                Ok((s, n)) => {
                    let v = remap_fds(Value::Structure(s));
                    let r = match &v { Value::Structure(s) => reenc(c, s), _ => "Rerr" };
                    format!("OK:{}:{}:{}", n, text(&v), r)
                }
                Err(e) => err_tok(&e),
            }
        }
        [t, h] if t.starts_with("t:") => {
            let b = match hexs(h) { Some(b) => b, None => return "BADCASE".into() };
            dispatch(&t[2..], &DeOp(c, &b))
        }
        _ => "BADCASE".into(),
    }
}

/// Decoded `Value::Fd`s carry raw numbers of the Data's own descriptors; map them back to the shared table.
fn remap_fds(v: Value<'_>) -> Value<'static> {
    fn go(v: &Value<'_>) -> Value<'static> {
        match v {
            Value::Fd(f) => {
                let i = fd_index(f.as_raw_fd()).unwrap_or(0);
                let fd: BorrowedFd<'static> = unsafe { BorrowedFd::borrow_raw(fd_raw(i)) };
                Value::Fd(Fd::from(fd))
            }
            Value::Value(x) => Value::Value(Box::new(go(x))),
            Value::Maybe(m) => match m.inner() {
                None => {
                    let cs = match m.signature() { Signature::Maybe(c) => c.signature().clone(), _ => unreachable!() };
                    Value::Maybe(Maybe::nothing(&cs))
                }
                Some(x) => Value::Maybe(Maybe::just(go(x))),
            },
            Value::Array(a) => {
                let mut n = Array::new(a.element_signature());
                for x in a.iter() {
                    n.append(go(x)).unwrap();
                }
                Value::Array(n)
            }
            Value::Dict(m) => {
                let (ks, vs) = match m.signature() {
                    Signature::Dict { key, value } => (key.signature().clone(), value.signature().clone()),
                    _ => unreachable!(),
                };
                let mut n = Dict::new(&ks, &vs);
                for (k, x) in m.iter() {
                    n.append(go(k), go(x)).unwrap();
                }
                Value::Dict(n)
            }
            Value::Structure(s) => {
                let mut b = StructureBuilder::new();
                for x in s.fields() {
                    b = b.append_field(go(x));
                }
                Value::Structure(b.build().unwrap())
            }
            other => other.try_to_owned().unwrap().into(),
        }
    }
    go(&v)
}

/// Run `f` in a forked child and return what it returns; "ABORT" if the child dies from a signal.
fn forked<F: FnOnce() -> String>(f: F) -> String {
    unsafe {
        let mut fds = [0i32; 2];
        if libc::pipe(fds.as_mut_ptr()) != 0 {
            return "BADCASE".into();
        }
        let pid = libc::fork();
        if pid < 0 {
            return "BADCASE".into();
        }
        if pid == 0 {
            libc::close(fds[0]);
            // the runtime's "has overflowed its stack" message must not reach the result stream
            let devnull = libc::open(b"/dev/null\0".as_ptr() as *const libc::c_char, libc::O_WRONLY);
            if devnull >= 0 {
                libc::dup2(devnull, 2);
            }
            let r = match std::panic::catch_unwind(std::panic::AssertUnwindSafe(f)) {
                Ok(s) => s,
                Err(_) => "PANIC".to_string(),
            };
            let b = r.as_bytes();
            let mut off = 0;
            while off < b.len() {
                let n = libc::write(fds[1], b[off..].as_ptr() as *const libc::c_void, b.len() - off);
                if n <= 0 {
                    break;
                }
                off += n as usize;
            }
            libc::_exit(0);
        }
        libc::close(fds[1]);
        let mut out = Vec::new();
        let mut buf = [0u8; 4096];
        loop {
            let n = libc::read(fds[0], buf.as_mut_ptr() as *mut libc::c_void, buf.len());
            if n <= 0 {
                break;
            }
            out.extend_from_slice(&buf[..n as usize]);
        }
        libc::close(fds[0]);
        let mut status = 0i32;
        libc::waitpid(pid, &mut status, 0);
        if libc::WIFEXITED(status) && libc::WEXITSTATUS(status) == 0 {
            String::from_utf8_lossy(&out).into_owned()
        } else {
            "ABORT".into()
        }
    }
}

fn main() {
    hcommon::run(|line| {
        let w: Vec<&str> = line.split(' ').filter(|x| !x.is_empty()).collect();
        if w.len() < 5 {
            return "BADCASE".into();
        }
        let pos: usize = match w[3].parse() { Ok(p) => p, Err(_) => return "BADCASE".into() };
        let c = ctxt(w[2], pos);
        match w[0] {
            "ser" => run_ser(c, w[4], w[5..].to_vec()),
            "rt" => run_rt(c, w[4], w[5..].to_vec()),
            // deD / deK carry the generator's statement about the nesting depth of the encoded value (used by the model side)
            "de" | "deD" | "deK" => match w[4].parse::<usize>() {
                Ok(nf) => run_de(c, nf, &w[5..]),
                Err(_) => "BADCASE".into(),
            },
            // the same in a forked child: a stack overflow aborts the child only
            "xde" => match w[4].parse::<usize>() {
                Ok(nf) => forked(|| run_de(c, nf, &w[5..])),
                Err(_) => "BADCASE".into(),
            },
            _ => "BADCASE".into(),
        }
    });
}
