//! Mode X (C38): one scripted session over a real `Connection`, a fault injected at a chosen byte of the inbound
//! stream or at a chosen `sendmsg` call, every runnable thing polled by a seeded scheduler until nothing can move.
//!
//!   X <seed> <p|b> <fault> <rchunk> <wchunk> <phase>/<phase>/...
//!     p = p2p connection, b = bus connection (add_match performs an AddMatch round trip)
//!     fault:  n | r<pos><E|R> | w<call><E|R>      (E: reads see end-of-file, R: reads see ECONNRESET)
//!     phase:  comma separated ops, all started together, then the scheduler runs until quiescence
//!       c<id>                 start `call_method` number id (1..9)                                   -> a task
//!       t<sid>:<rule>[:q<n>][:h]   open a stream: rule `*` (MessageStream::from) | A | B | C  (for_match_rule, max_queued n,
//!                             `h` = the consumer starts paused)                                      -> a task
//!       e<n>                  emit a signal with an n byte body                                      -> a task
//!       u<sid>                un-pause the consumer of stream sid
//!       ir<id> ie<id>         release the (error) reply to call id          ia<sid>  release the AddMatch reply of stream sid
//!       is<A|B><F|G>:<n>      release a signal of interface v.A/v.B, member F/G, n byte body
//! Observation:  lens=..;costs=..;tasks=..;trace=..;rd=<bytes read>;wr=<sendmsg calls>;fp=<phase in which the transport failed | ->
//!   tasks: per task (in order of appearance)  C<id>=ok<k>|me<k>|io:<kind>|err:<class>|HANG
//!                                             S<sid>=<items joined by .>:<opening|open|ended|failed:<kind>>
//!                                             E=ok|io:<kind>|HANG
//!   trace: `|` phase start, `K<released bytes>` executor tick, `P<i>` poll of task i
use std::{
    future::Future,
    pin::Pin,
    sync::{Arc, Mutex},
    task::{Context, Poll, Wake, Waker},
};

use futures_core::Stream;
use zbus::{message::Message, MessageStream};
use zvariant::{serialized::Context as ZCtx, serialized::Data, Endian};

use crate::sock::{Kind, Sh, Shared, Sock, GUID};

struct Noop;
impl Wake for Noop {
    fn wake(self: Arc<Self>) {}
}
pub fn noop_waker() -> Waker {
    Waker::from(Arc::new(Noop))
}
pub fn poll_once<F: Future + ?Sized>(f: Pin<&mut F>) -> Poll<F::Output> {
    let w = noop_waker();
    let mut cx = Context::from_waker(&w);
    f.poll(&mut cx)
}

pub struct Lcg(pub u64);
impl Lcg {
    pub fn next(&mut self, n: usize) -> usize {
        self.0 = self.0.wrapping_mul(6364136223846793005).wrapping_add(1442695040888963407);
        ((self.0 >> 33) as usize) % n.max(1)
    }
}

pub fn io_kind(e: &std::io::Error) -> &'static str {
    use std::io::ErrorKind::*;
    match e.kind() {
        UnexpectedEof => "eof",
        ConnectionReset => "reset",
        ConnectionAborted => "aborted",
        BrokenPipe => "pipe",
        _ => "other",
    }
}

pub fn seq_of(m: &Message) -> u64 {
    let d = format!("{:?}", m.recv_position());
    d.chars().filter(|c| c.is_ascii_digit()).collect::<String>().parse().unwrap_or(0)
}

pub fn err_tok(e: &zbus::Error) -> String {
    match e {
        zbus::Error::InputOutput(io) => format!("io:{}", io_kind(io)),
        zbus::Error::MethodError(_, _, m) => format!("me{}", seq_of(m).wrapping_sub(1)),
        zbus::Error::ExcessData => "err:excess".into(),
        zbus::Error::Variant(_) => "err:variant".into(),
        zbus::Error::InvalidReply => "err:invalidreply".into(),
        _ => "err:other".into(),
    }
}

type BoxFut<T> = Pin<Box<dyn Future<Output = T>>>;

enum TK {
    Call { id: usize, fut: Option<BoxFut<zbus::Result<Message>>>, out: Option<String> },
    Stream {
        sid: usize,
        open: Option<BoxFut<zbus::Result<MessageStream>>>,
        stream: Option<MessageStream>,
        items: Vec<String>,
        state: String,
        paused: bool,
        /// an ended stream is kept (dropping it would queue a RemoveMatch on a bus connection)
        ended: bool,
    },
    Emit { fut: Option<BoxFut<zbus::Result<()>>>, out: Option<String> },
}

impl TK {
    fn live(&self) -> bool {
        match self {
            TK::Call { fut, .. } => fut.is_some(),
            TK::Emit { fut, .. } => fut.is_some(),
            TK::Stream { open, stream, ended, .. } => open.is_some() || (stream.is_some() && !*ended),
        }
    }
    /// returns true when something observable happened
    fn poll(&mut self) -> bool {
        match self {
            TK::Call { fut, out, .. } => {
                if let Some(f) = fut.as_mut() {
                    if let Poll::Ready(r) = poll_once(f.as_mut()) {
                        *out = Some(match r {
                            Ok(m) => format!("ok{}", seq_of(&m).wrapping_sub(1)),
                            Err(e) => err_tok(&e),
                        });
                        *fut = None;
                        return true;
                    }
                }
                false
            }
            TK::Emit { fut, out } => {
                if let Some(f) = fut.as_mut() {
                    if let Poll::Ready(r) = poll_once(f.as_mut()) {
                        *out = Some(match r {
                            Ok(()) => "ok".into(),
                            Err(e) => err_tok(&e),
                        });
                        *fut = None;
                        return true;
                    }
                }
                false
            }
            TK::Stream { open, stream, items, state, paused, ended, .. } => {
                let mut progress = false;
                if *ended {
                    return false;
                }
                if let Some(f) = open.as_mut() {
                    match poll_once(f.as_mut()) {
                        Poll::Ready(Ok(s)) => {
                            *stream = Some(s);
                            *state = "open".into();
                            *open = None;
                            progress = true;
                        }
                        Poll::Ready(Err(e)) => {
                            *state = format!("failed:{}", err_tok(&e));
                            *open = None;
                            return true;
                        }
                        Poll::Pending => return false,
                    }
                }
                if *paused {
                    return progress;
                }
                if let Some(s) = stream.as_mut() {
                    loop {
                        let w = noop_waker();
                        let mut cx = Context::from_waker(&w);
                        match Pin::new(&mut *s).poll_next(&mut cx) {
                            Poll::Ready(Some(Ok(m))) => {
                                items.push(format!("m{}", seq_of(&m).wrapping_sub(1)));
                                progress = true;
                            }
                            Poll::Ready(Some(Err(e))) => {
                                items.push(format!("E{}", err_tok(&e).replace(':', "-")));
                                progress = true;
                            }
                            Poll::Ready(None) => {
                                *state = "ended".into();
                                *ended = true;
                                return true;
                            }
                            Poll::Pending => break,
                        }
                    }
                }
                progress
            }
        }
    }
}

fn rule_str(r: &str) -> Option<&'static str> {
    Some(match r {
        "A" => "type='signal',interface='v.A'",
        "B" => "type='signal',member='F'",
        "C" => "type='signal',interface='v.A',member='G'",
        _ => return None,
    })
}

fn out_message(st: &Shared, task: usize) -> Option<Message> {
    let s = st.starts.iter().find(|s| s.task == task)?;
    if st.out.len() < s.off + s.len {
        return None;
    }
    let bytes = st.out[s.off..s.off + s.len].to_vec();
    let data = Data::new(bytes, ZCtx::new_dbus(Endian::Little, 0));
    unsafe { Message::from_bytes(data) }.ok()
}

pub fn run(w: &[&str]) -> String {
    if w.len() != 7 {
        return "BADCASE".into();
    }
    let seed: u64 = match w[1].parse() {
        Ok(s) => s,
        Err(_) => return "BADCASE".into(),
    };
    let bus = match w[2] {
        "p" => false,
        "b" => true,
        _ => return "BADCASE".into(),
    };
    let (rchunk, wchunk) = match (w[4].parse::<usize>(), w[5].parse::<usize>()) {
        (Ok(a), Ok(b)) if a >= 1 && b >= 1 => (a, b),
        _ => return "BADCASE".into(),
    };
    let f = w[3];
    let mut sh = Shared::new(Kind::Eof, rchunk, wchunk);
    if f != "n" {
        if f.len() < 3 {
            return "BADCASE".into();
        }
        sh.kind = match &f[f.len() - 1..] {
            "E" => Kind::Eof,
            "R" => Kind::Reset,
            _ => return "BADCASE".into(),
        };
        let n: usize = match f[1..f.len() - 1].parse() {
            Ok(n) => n,
            Err(_) => return "BADCASE".into(),
        };
        match &f[..1] {
            "r" => sh.rfault = Some(n),
            "w" => sh.wfault = Some(n),
            _ => return "BADCASE".into(),
        }
    }
    let shared: Sh = Arc::new(Mutex::new(sh));
    let b = zbus::connection::Builder::authenticated_socket(Sock(shared.clone()), GUID).unwrap();
    let b = if bus { b } else { b.p2p() };
    let mut bf = Box::pin(b.internal_executor(false).build());
    let conn = loop {
        // nothing in build() waits for the transport on an authenticated socket
        match poll_once(bf.as_mut()) {
            Poll::Ready(Ok(c)) => break c,
            Poll::Ready(Err(_)) => return "BUILD-ERR".into(),
            Poll::Pending => continue,
        }
    };
    drop(bf);
    let ex = conn.executor().clone();

    let mut rng = Lcg(seed.wrapping_mul(2654435761).wrapping_add(977));
    let mut tasks: Vec<TK> = vec![];
    let mut names: Vec<String> = vec![];
    let mut lens: Vec<usize> = vec![];
    let mut trace: Vec<String> = vec![];
    let mut bad = false;
    let mut polls: u64 = 0;
    // the phase (0-based) during which the transport failed: the first failed recvmsg or sendmsg
    let mut fault_phase: Option<usize> = None;

    for (phase_idx, phase) in w[6].split('/').enumerate() {
        trace.push("|".into());
        for op in phase.split(',').filter(|o| !o.is_empty()) {
            let (k, rest) = op.split_at(1);
            match k {
                "c" => {
                    let id: usize = match rest.parse() {
                        Ok(i) => i,
                        Err(_) => return "BADCASE".into(),
                    };
                    let c = conn.clone();
                    let fut: BoxFut<zbus::Result<Message>> = Box::pin(async move {
                        c.call_method(None::<&str>, "/p", Some("v.T"), format!("M{}", id), &()).await
                    });
                    names.push(format!("C{}", id));
                    tasks.push(TK::Call { id, fut: Some(fut), out: None });
                }
                "e" => {
                    let n: usize = match rest.parse() {
                        Ok(i) => i,
                        Err(_) => return "BADCASE".into(),
                    };
                    let c = conn.clone();
                    let fut: BoxFut<zbus::Result<()>> =
                        Box::pin(async move { c.emit_signal(None::<&str>, "/p", "v.T", "Sig", &(vec![7u8; n],)).await });
                    names.push("E".into());
                    tasks.push(TK::Emit { fut: Some(fut), out: None });
                }
                "t" => {
                    let parts: Vec<&str> = rest.split(':').collect();
                    if parts.len() < 2 {
                        return "BADCASE".into();
                    }
                    let sid: usize = match parts[0].parse() {
                        Ok(i) => i,
                        Err(_) => return "BADCASE".into(),
                    };
                    let mut cap = None;
                    let mut paused = false;
                    for p in &parts[2..] {
                        if *p == "h" {
                            paused = true;
                        } else if let Some(q) = p.strip_prefix('q') {
                            cap = q.parse::<usize>().ok();
                        } else {
                            return "BADCASE".into();
                        }
                    }
                    let c = conn.clone();
                    let open: BoxFut<zbus::Result<MessageStream>> = if parts[1] == "*" {
                        Box::pin(async move { Ok(MessageStream::from(&c)) })
                    } else {
                        let rs = match rule_str(parts[1]) {
                            Some(r) => r,
                            None => return "BADCASE".into(),
                        };
                        Box::pin(async move { MessageStream::for_match_rule(rs, &c, cap).await })
                    };
                    names.push(format!("S{}", sid));
                    tasks.push(TK::Stream { sid, open: Some(open), stream: None, items: vec![], state: "opening".into(), paused, ended: false });
                }
                "u" => {
                    let sid: usize = rest.parse().unwrap_or(usize::MAX);
                    for t in tasks.iter_mut() {
                        if let TK::Stream { sid: s, paused, .. } = t {
                            if *s == sid {
                                *paused = false;
                            }
                        }
                    }
                }
                "i" => {
                    let (kk, r2) = rest.split_at(1);
                    let m: Option<Message> = match kk {
                        "r" | "e" | "a" => {
                            let id: usize = r2.parse().unwrap_or(usize::MAX);
                            let ti = tasks.iter().position(|t| match t {
                                TK::Call { id: i, .. } => kk != "a" && *i == id,
                                TK::Stream { sid, .. } => kk == "a" && *sid == id,
                                _ => false,
                            });
                            let call = ti.and_then(|ti| out_message(&shared.lock().unwrap(), ti));
                            match call {
                                None => None,
                                Some(call) => {
                                    let hdr = call.header();
                                    let idx = lens.len() as u32;
                                    if kk == "e" {
                                        Message::error(&hdr, "v.Err").and_then(|b| b.build(&("boom",))).ok()
                                    } else if kk == "a" {
                                        Message::method_return(&hdr).and_then(|b| b.build(&())).ok()
                                    } else {
                                        Message::method_return(&hdr).and_then(|b| b.build(&(idx,))).ok()
                                    }
                                }
                            }
                        }
                        "s" => {
                            let (im, n) = match r2.split_once(':') {
                                Some(x) => x,
                                None => return "BADCASE".into(),
                            };
                            let n: usize = n.parse().unwrap_or(0);
                            if im.len() != 2 {
                                return "BADCASE".into();
                            }
                            Message::signal("/p", format!("v.{}", &im[..1]), &im[1..2])
                                .and_then(|b| b.build(&(vec![9u8; n],)))
                                .ok()
                        }
                        _ => return "BADCASE".into(),
                    };
                    match m {
                        Some(m) => {
                            let d = m.data();
                            lens.push(d.len());
                            shared.lock().unwrap().release(d.bytes());
                        }
                        None => {
                            // the call this answers was never written completely: nothing to release
                            lens.push(0);
                            bad = true;
                        }
                    }
                }
                _ => return "BADCASE".into(),
            }
        }
        // ---- run until quiescence: two consecutive sweeps (random order, random repeats) without progress
        let mut idle_sweeps = 0;
        while idle_sweeps < 2 {
            let mut cand: Vec<usize> = (0..tasks.len()).filter(|i| tasks[*i].live()).collect();
            cand.push(usize::MAX); // the executor
            let extra = rng.next(3);
            for _ in 0..extra {
                let c = cand[rng.next(cand.len())];
                cand.push(c);
            }
            for i in (1..cand.len()).rev() {
                let j = rng.next(i + 1);
                cand.swap(i, j);
            }
            let mut progress = false;
            for c in cand {
                polls += 1;
                if polls > 200_000 {
                    return "LIVELOCK".into();
                }
                let before = shared.lock().unwrap().activity;
                if c == usize::MAX {
                    let avail = shared.lock().unwrap().inb.len();
                    trace.push(format!("K{}", avail));
                    shared.lock().unwrap().cur_task = usize::MAX;
                    let mut t = Box::pin(ex.tick());
                    if poll_once(t.as_mut()).is_ready() {
                        progress = true;
                    }
                } else {
                    if !tasks[c].live() {
                        continue;
                    }
                    trace.push(format!("P{}", c));
                    shared.lock().unwrap().cur_task = c;
                    if tasks[c].poll() {
                        progress = true;
                    }
                }
                {
                    let st = shared.lock().unwrap();
                    if st.activity != before {
                        progress = true;
                    }
                    if fault_phase.is_none() && (st.broken || st.after_fault > 0) {
                        fault_phase = Some(phase_idx);
                    }
                }
            }
            idle_sweeps = if progress { 0 } else { idle_sweeps + 1 };
        }
    }

    let st = shared.lock().unwrap();
    let mut costs: Vec<String> = vec![];
    for (i, _) in tasks.iter().enumerate() {
        // cost of the first message a task wrote, in sendmsg calls (0 = it never wrote one completely)
        costs.push(match st.starts.iter().find(|s| s.task == i) {
            Some(s) => ((s.len + st.wchunk - 1) / st.wchunk).to_string(),
            None => "0".into(),
        });
    }
    let toks: Vec<String> = tasks
        .iter()
        .zip(names.iter())
        .map(|(t, n)| match t {
            TK::Call { out, .. } => format!("{}={}", n, out.clone().unwrap_or("HANG".into())),
            TK::Emit { out, .. } => format!("{}={}", n, out.clone().unwrap_or("HANG".into())),
            TK::Stream { items, state, .. } => {
                format!("{}={}:{}", n, if items.is_empty() { "-".to_string() } else { items.join(".") }, state)
            }
        })
        .collect();
    let j = |v: &Vec<usize>| if v.is_empty() { "-".to_string() } else { v.iter().map(|x| x.to_string()).collect::<Vec<_>>().join(".") };
    format!(
        "lens={};costs={};tasks={};trace={};rd={};wr={};fp={}{}",
        j(&lens),
        if costs.is_empty() { "-".to_string() } else { costs.join(".") },
        toks.join(","),
        trace.join(" "),
        st.rpos,
        st.wcalls,
        match fault_phase {
            Some(p) => p.to_string(),
            None => "-".to_string(),
        },
        if bad { ";unanswerable" } else { "" }
    )
}

/// `L ...same arguments as X...` — the session without a fault, only the sizes: `lens=..;costs=..`
pub fn probe(w: &[&str]) -> String {
    let o = run(w);
    o.split(";tasks=").next().unwrap_or("").to_string()
}
