//! hfail — harness for C38 (transport failures end pending work with errors, never hangs; mode `X`, probe `L`)
//! and C39 (dropping / shutting down a connection releases it; mode `D`).  See src/fault.rs and src/droprel.rs.
mod droprel;
mod fault;
mod sock;

fn main() {
    hcommon::run(|line| {
        let w: Vec<&str> = line.split(' ').filter(|x| !x.is_empty()).collect();
        match w.first().copied() {
            Some("X") => fault::run(&w),
            Some("L") => fault::probe(&w),
            Some("D") => droprel::run(&w),
            _ => "BADCASE".into(),
        }
    });
}
