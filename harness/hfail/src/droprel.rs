//! Mode D (C39) — filled in below.
pub fn run(_w: &[&str]) -> String {
    "BADCASE".into()
}
