//! Mode D (C39): who keeps a connection alive, and when the peer sees it go.
//!
//!   D <seed> <op>,<op>,...
//! One p2p `Connection` over the scripted socket, with an object server whose method `Slow(id)` stays in flight until
//! the harness releases it.  Handle 0 is the connection returned by `build()`.  Ops (after each one the executor and
//! the pending `graceful_shutdown` futures are polled in a seeded order until nothing moves):
//!   k<n>:<h>     handle n := clone of the Connection held by handle h (a Connection, a stream's or a proxy's connection)
//!   s<n>:<h>:<A|B|*>   handle n := MessageStream (for_match_rule / From<&Connection>) made from handle h's connection
//!   p<n>:<h>[:n|l|e]   handle n := Proxy with CacheProperties::No / Lazily (default) / Yes (eager: build() waits for the cache,
//!                the peer answers GetAll at once)
//!   c<n>         get_property("Val") on proxy n (polled once)          v<n>   receive_property_changed("Val") on proxy n, stream dropped at once
//!                (either starts the cache of a lazy proxy: PropertiesChanged subscription + GetAll call)
//!   a<n>         the peer answers the outstanding GetAll of proxy n (the cache is populated and keeps listening)
//!   g<n>:<p>[:s] handle n := SignalStream of proxy p (receive_all_signals, or receive_signal("Foo") with :s)
//!   b<n>:<h>     handle n := blocking::Proxy (a blocking::Connection plus an async Proxy)
//!   d<n>         drop handle n              D<n>       AsyncDrop::async_drop() of stream / signal-stream handle n
//!   G<n>         graceful_shutdown() on Connection handle n (consumes it)
//!   C<n>         close() on Connection handle n (consumes it)
//!   m<k>         the peer sends the method call Slow(k)          r<k>   handler k is released (it replies and ends)
//!   f<k>         the peer sends the method call Fast() (replies at once; reply id k)
//! Observation: snap=<one token per op>;events=<...>;ga=<GetAll calls the property caches made>
//!   snap token: `W`/`w` write half dropped / alive, `R`/`r` read half, then `+<n>` for every graceful_shutdown done
//!   events, in order: y<k> reply to call k written, o other message written, dw / dr half dropped, cl close(), gs<n>
use std::{
    collections::{BTreeMap, HashMap, HashSet},
    future::Future,
    pin::Pin,
    sync::{Arc, Mutex},
    task::{Context, Poll, Waker},
};

use zbus::{message::Message, MessageStream};
use zvariant::{serialized::Context as ZCtx, serialized::Data, Endian};

use crate::fault::{poll_once, Lcg};
use crate::sock::{Kind, Sh, Shared, Sock, GUID};

#[derive(Default)]
struct Gates {
    released: HashSet<u32>,
    wakers: Vec<Waker>,
}

struct Gate {
    id: u32,
    st: Arc<Mutex<Gates>>,
}
impl Future for Gate {
    type Output = ();
    fn poll(self: Pin<&mut Self>, cx: &mut Context<'_>) -> Poll<()> {
        let mut g = self.st.lock().unwrap();
        if g.released.contains(&self.id) {
            Poll::Ready(())
        } else {
            g.wakers.push(cx.waker().clone());
            Poll::Pending
        }
    }
}

struct Slow {
    gates: Arc<Mutex<Gates>>,
}

#[zbus::interface(name = "v.S")]
impl Slow {
    async fn slow(&self, id: u32) -> u32 {
        Gate { id, st: self.gates.clone() }.await;
        id
    }
    async fn fast(&self, id: u32) -> u32 {
        id
    }
}

enum Handle {
    Conn(zbus::Connection),
    Stream(MessageStream),
    Proxy(zbus::Proxy<'static>),
    Signals(zbus::proxy::SignalStream<'static>),
    Blocking(#[allow(dead_code)] zbus::blocking::Proxy<'static>),
}

/// GetAll calls among the messages written since `*seen`
fn new_getalls(sh: &Sh, seen: &mut usize) -> Vec<Message> {
    let st = sh.lock().unwrap();
    let mut v = vec![];
    while *seen < st.starts.len() {
        let s = &st.starts[*seen];
        if st.out.len() < s.off + s.len {
            break;
        }
        let data = Data::new(st.out[s.off..s.off + s.len].to_vec(), ZCtx::new_dbus(Endian::Little, 0));
        if let Ok(m) = unsafe { Message::from_bytes(data) } {
            if m.header().member().map(|x| x.as_str() == "GetAll").unwrap_or(false) {
                v.push(m);
            }
        }
        *seen += 1;
    }
    v
}

fn reply_getall(sh: &Sh, call: &Message) {
    let mut props: HashMap<&str, zvariant::Value<'_>> = HashMap::new();
    props.insert("Val", zvariant::Value::from(5u32));
    if let Ok(m) = Message::method_return(&call.header()).and_then(|b| b.build(&(props,))) {
        sh.lock().unwrap().release(m.data().bytes());
    }
}

/// like `spin`, with a peer that answers GetAll at once
fn spin_answering<F: Future>(ex: &zbus::Executor<'static>, sh: &Sh, seen: &mut usize, f: F) -> Option<F::Output> {
    let mut f = Box::pin(f);
    for _ in 0..100_000 {
        if let Poll::Ready(v) = poll_once(f.as_mut()) {
            return Some(v);
        }
        let mut t = Box::pin(ex.tick());
        let _ = poll_once(t.as_mut());
        for m in new_getalls(sh, seen) {
            reply_getall(sh, &m);
            sh.lock().unwrap().events.push("ga".into());
        }
    }
    None
}

fn spin<F: Future>(ex: &zbus::Executor<'static>, f: F) -> Option<F::Output> {
    let mut f = Box::pin(f);
    for _ in 0..100_000 {
        if let Poll::Ready(v) = poll_once(f.as_mut()) {
            return Some(v);
        }
        let mut t = Box::pin(ex.tick());
        let _ = poll_once(t.as_mut());
    }
    None
}

pub fn run(w: &[&str]) -> String {
    if w.len() != 3 {
        return "BADCASE".into();
    }
    let seed: u64 = match w[1].parse() {
        Ok(s) => s,
        Err(_) => return "BADCASE".into(),
    };
    let shared: Sh = Arc::new(Mutex::new(Shared::new(Kind::Eof, 1000, 1000)));
    let gates = Arc::new(Mutex::new(Gates::default()));
    let mut bf = Box::pin(
        zbus::connection::Builder::authenticated_socket(Sock(shared.clone()), GUID)
            .unwrap()
            .p2p()
            .internal_executor(false)
            .build(),
    );
    let conn = loop {
        match poll_once(bf.as_mut()) {
            Poll::Ready(Ok(c)) => break c,
            Poll::Ready(Err(_)) => return "BUILD-ERR".into(),
            Poll::Pending => continue,
        }
    };
    drop(bf);
    let ex = conn.executor().clone();
    match spin(&ex, conn.object_server().at("/o", Slow { gates: gates.clone() })) {
        Some(Ok(true)) => (),
        _ => return "SETUP-ERR".into(),
    }
    // let the object server's dispatch task subscribe before the peer sends anything
    for _ in 0..64 {
        let mut t = Box::pin(ex.tick());
        if poll_once(t.as_mut()).is_pending() {
            break;
        }
    }

    let mut rng = Lcg(seed.wrapping_mul(2654435761).wrapping_add(31));
    let mut handles: BTreeMap<usize, Handle> = BTreeMap::new();
    handles.insert(0, Handle::Conn(conn));
    let mut graceful: Vec<(usize, Option<Pin<Box<dyn Future<Output = ()>>>>)> = vec![];
    let mut call_serial: BTreeMap<u32, u32> = BTreeMap::new();
    let mut snaps: Vec<String> = vec![];
    let mut seen_starts: usize = 0;
    let mut getalls: usize = 0;
    let mut pending_getall: BTreeMap<usize, Message> = BTreeMap::new();

    fn conn_of(h: &Handle) -> Option<zbus::Connection> {
        match h {
            Handle::Conn(c) => Some(c.clone()),
            Handle::Stream(s) => Some(zbus::Connection::from(s)),
            Handle::Proxy(p) => Some(p.connection().clone()),
            Handle::Signals(_) | Handle::Blocking(_) => None,
        }
    }

    for op in w[2].split(',').filter(|o| !o.is_empty()) {
        let (k, rest) = op.split_at(1);
        let parts: Vec<&str> = rest.split(':').collect();
        let num = |i: usize| -> Option<usize> { parts.get(i).and_then(|x| x.parse().ok()) };
        let mut cache_op: Option<usize> = None;
        match k {
            "k" | "s" | "p" | "b" => {
                let (n, h) = match (num(0), num(1)) {
                    (Some(n), Some(h)) => (n, h),
                    _ => return "BADCASE".into(),
                };
                // the source handle lends its connection for the duration of the op only
                if let Some(c) = handles.get(&h).and_then(conn_of) {
                    let new = match k {
                        "k" => Some(Handle::Conn(c.clone())),
                        "s" => {
                            let s = match parts.get(2).copied() {
                                Some("*") => Some(MessageStream::from(&c)),
                                Some("A") => spin(&ex, MessageStream::for_match_rule("type='signal',interface='v.A'", &c, None)).and_then(|r| r.ok()),
                                Some("B") => spin(&ex, MessageStream::for_match_rule("type='signal',member='F'", &c, None)).and_then(|r| r.ok()),
                                _ => return "BADCASE".into(),
                            };
                            s.map(Handle::Stream)
                        }
                        "b" => zbus::blocking::Proxy::new(&zbus::blocking::Connection::from(c.clone()), ":1.5", "/p", "v.T")
                            .ok()
                            .map(Handle::Blocking),
                        _ => {
                            use zbus::proxy::CacheProperties;
                            let mode = match parts.get(2).copied() {
                                Some("n") => CacheProperties::No,
                                Some("e") => CacheProperties::Yes,
                                Some("l") | None => CacheProperties::Lazily,
                                _ => return "BADCASE".into(),
                            };
                            let b = zbus::proxy::Builder::<zbus::Proxy<'static>>::new(&c)
                                .destination(":1.5")
                                .and_then(|b| b.path("/p"))
                                .and_then(|b| b.interface("v.T"))
                                .map(|b| b.cache_properties(mode));
                            match b {
                                Ok(b) => spin_answering(&ex, &shared, &mut seen_starts, b.build()).and_then(|r| r.ok()).map(Handle::Proxy),
                                Err(_) => None,
                            }
                        }
                    };
                    drop(c);
                    if let Some(nh) = new {
                        handles.insert(n, nh);
                    }
                }
            }
            "g" => {
                let (n, p) = match (num(0), num(1)) {
                    (Some(n), Some(p)) => (n, p),
                    _ => return "BADCASE".into(),
                };
                let named = parts.get(2).copied() == Some("s");
                if let Some(Handle::Proxy(px)) = handles.get(&p) {
                    let px = px.clone();
                    let r = if named {
                        spin(&ex, async move { px.receive_signal("Foo").await })
                    } else {
                        spin(&ex, async move { px.receive_all_signals().await })
                    };
                    if let Some(Ok(s)) = r {
                        handles.insert(n, Handle::Signals(s));
                    }
                }
            }
            "c" | "v" => {
                let n = match num(0) {
                    Some(n) => n,
                    None => return "BADCASE".into(),
                };
                if let Some(Handle::Proxy(px)) = handles.get(&n) {
                    if k == "c" {
                        // get_property starts a lazy cache and waits for it; one poll is enough to start it, the future is
                        // then given up (cached_property alone never starts the cache)
                        let px2 = px.clone();
                        let mut f = Box::pin(async move { px2.get_property::<u32>("Val").await });
                        let _ = poll_once(f.as_mut());
                        drop(f);
                    } else {
                        let px = px.clone();
                        let _ = spin(&ex, async move {
                            let s = px.receive_property_changed::<u32>("Val").await;
                            drop(s);
                        });
                    }
                    cache_op = Some(n);
                }
            }
            "a" => {
                if let Some(n) = num(0) {
                    if let Some(call) = pending_getall.remove(&n) {
                        reply_getall(&shared, &call);
                    }
                }
            }
            "D" => {
                use zbus::AsyncDrop;
                if let Some(n) = num(0) {
                    match handles.get(&n) {
                        Some(Handle::Stream(_)) | Some(Handle::Signals(_)) => match handles.remove(&n) {
                            Some(Handle::Stream(s)) => {
                                let _ = spin(&ex, s.async_drop());
                            }
                            Some(Handle::Signals(s)) => {
                                let _ = spin(&ex, s.async_drop());
                            }
                            _ => (),
                        },
                        _ => (),
                    }
                }
            }
            "d" => {
                if let Some(n) = num(0) {
                    handles.remove(&n);
                }
            }
            "G" | "C" => {
                let n = match num(0) {
                    Some(n) => n,
                    None => return "BADCASE".into(),
                };
                if let Some(Handle::Conn(_)) = handles.get(&n) {
                    if let Some(Handle::Conn(c)) = handles.remove(&n) {
                        if k == "G" {
                            graceful.push((n, Some(Box::pin(c.graceful_shutdown()))));
                        } else {
                            let _ = spin(&ex, c.close());
                        }
                    }
                }
            }
            "m" | "f" => {
                let id: u32 = match num(0) {
                    Some(n) => n as u32,
                    None => return "BADCASE".into(),
                };
                let m = Message::method_call("/o", if k == "m" { "Slow" } else { "Fast" })
                    .and_then(|b| b.interface("v.S"))
                    .and_then(|b| b.build(&(id,)));
                match m {
                    Ok(m) => {
                        call_serial.insert(m.primary_header().serial_num().get(), id);
                        shared.lock().unwrap().release(m.data().bytes());
                    }
                    Err(_) => return "BUILD-ERR".into(),
                }
            }
            "r" => {
                if let Some(id) = num(0) {
                    let mut g = gates.lock().unwrap();
                    g.released.insert(id as u32);
                    for wk in g.wakers.drain(..) {
                        wk.wake();
                    }
                }
            }
            _ => return "BADCASE".into(),
        }
        // ---- quiescence
        let mut idle = 0;
        let mut polls = 0u64;
        while idle < 2 {
            let mut cand: Vec<usize> = (0..graceful.len()).filter(|i| graceful[*i].1.is_some()).collect();
            cand.push(usize::MAX);
            for i in (1..cand.len()).rev() {
                let j = rng.next(i + 1);
                cand.swap(i, j);
            }
            let mut progress = false;
            for c in cand {
                polls += 1;
                if polls > 100_000 {
                    return "LIVELOCK".into();
                }
                let before = shared.lock().unwrap().activity;
                if c == usize::MAX {
                    let mut t = Box::pin(ex.tick());
                    if poll_once(t.as_mut()).is_ready() {
                        progress = true;
                    }
                } else if let Some(f) = graceful[c].1.as_mut() {
                    if poll_once(f.as_mut()).is_ready() {
                        graceful[c].1 = None;
                        shared.lock().unwrap().events.push(format!("gs{}", graceful[c].0));
                        progress = true;
                    }
                }
                if shared.lock().unwrap().activity != before {
                    progress = true;
                }
            }
            idle = if progress { 0 } else { idle + 1 };
        }
        for m in new_getalls(&shared, &mut seen_starts) {
            getalls += 1;
            if let Some(n) = cache_op {
                pending_getall.insert(n, m);
            }
        }
        let st = shared.lock().unwrap();
        let mut tok = format!("{}{}", if st.write_dropped { "W" } else { "w" }, if st.read_dropped { "R" } else { "r" });
        for (n, f) in &graceful {
            if f.is_none() {
                tok.push_str(&format!("+{}", n));
            }
        }
        snaps.push(tok);
    }

    // ---- events, with written messages identified
    let st = shared.lock().unwrap();
    let mut wi = 0;
    let mut evs: Vec<String> = vec![];
    for e in &st.events {
        if e.starts_with('w') {
            let s = &st.starts[wi];
            wi += 1;
            let tok = if st.out.len() >= s.off + s.len {
                let data = Data::new(st.out[s.off..s.off + s.len].to_vec(), ZCtx::new_dbus(Endian::Little, 0));
                match unsafe { Message::from_bytes(data) } {
                    Ok(m) => match m.header().reply_serial().and_then(|r| call_serial.get(&r.get()).copied()) {
                        Some(id) if m.message_type() == zbus::message::Type::MethodReturn => format!("y{}", id),
                        // the proxy's own Properties.Get / GetAll calls are not events of the property
                        _ if m.header().member().map(|x| x.as_str() == "GetAll" || x.as_str() == "Get").unwrap_or(false) => continue,
                        _ => "o".to_string(),
                    },
                    Err(_) => "o".to_string(),
                }
            } else {
                "o".to_string()
            };
            evs.push(tok);
        } else {
            evs.push(e.clone());
        }
    }
    let eager = evs.iter().filter(|e| *e == "ga").count();
    evs.retain(|e| e != "ga");
    let out = format!(
        "snap={};events={};ga={}",
        snaps.join("."),
        if evs.is_empty() { "-".to_string() } else { evs.join(".") },
        getalls + eager
    );
    drop(st);
    drop(handles);
    drop(graceful);
    out
}
