//! Scripted transport shared by the C38 (`X`) and C39 (`D`) modes.
//!
//! The read half serves the bytes the harness has *released* so far, in chunks of at most `rchunk`, and suspends
//! (keeping the waker) when nothing is available; at byte position `rfault` (or once the write side has failed)
//! it answers with end-of-file (`Ok(0)`) or `ECONNRESET`.  The write half accepts at most `wchunk` bytes per call,
//! records everything, fails at `sendmsg` call number `wfault` (and at every later call) with `ECONNABORTED`, and
//! then wakes the reader, whose next `recvmsg` fails too (a broken socket is broken in both directions).
//! Dropping a half and `close()` are recorded as events in the order they happen.
use std::{
    future::poll_fn,
    io,
    os::fd::{BorrowedFd, OwnedFd},
    sync::{Arc, Mutex},
    task::{Poll, Waker},
};

use zbus::connection::socket::{ReadHalf, Socket, Split, WriteHalf};

#[derive(Clone, Copy, Debug, PartialEq)]
pub enum Kind {
    Eof,
    Reset,
}

#[derive(Debug)]
pub struct MsgStart {
    pub task: usize,
    pub serial: u32,
    pub len: usize,
    pub off: usize,
}

#[derive(Debug)]
pub struct Shared {
    pub inb: Vec<u8>,
    pub rpos: usize,
    pub rfault: Option<usize>,
    pub wfault: Option<usize>,
    pub kind: Kind,
    pub broken: bool,
    pub rwaker: Option<Waker>,
    pub rchunk: usize,
    pub wchunk: usize,
    pub wcalls: usize,
    pub out: Vec<u8>,
    pub starts: Vec<MsgStart>,
    pub cur_task: usize,
    pub msg_left: usize,
    pub activity: u64,
    /// C39: ordered record — `w<serial>` first chunk of a message written, `dr`/`dw` halves dropped, `cl` close()
    pub events: Vec<String>,
    pub read_dropped: bool,
    pub write_dropped: bool,
    /// recvmsg calls answered with the fault (a reader that keeps retrying after the fault is a livelock)
    pub after_fault: usize,
}

impl Shared {
    pub fn new(kind: Kind, rchunk: usize, wchunk: usize) -> Self {
        Shared {
            inb: vec![],
            rpos: 0,
            rfault: None,
            wfault: None,
            kind,
            broken: false,
            rwaker: None,
            rchunk,
            wchunk,
            wcalls: 0,
            out: vec![],
            starts: vec![],
            cur_task: usize::MAX,
            msg_left: 0,
            activity: 0,
            events: vec![],
            read_dropped: false,
            write_dropped: false,
            after_fault: 0,
        }
    }
    pub fn release(&mut self, b: &[u8]) {
        self.inb.extend_from_slice(b);
        if let Some(w) = self.rwaker.take() {
            w.wake();
        }
    }
}

pub type Sh = Arc<Mutex<Shared>>;

#[derive(Debug)]
pub struct RHalf(pub Sh);
#[derive(Debug)]
pub struct WHalf(pub Sh);

impl Drop for RHalf {
    fn drop(&mut self) {
        let mut st = self.0.lock().unwrap();
        st.read_dropped = true;
        st.events.push("dr".into());
    }
}
impl Drop for WHalf {
    fn drop(&mut self) {
        let mut st = self.0.lock().unwrap();
        st.write_dropped = true;
        st.events.push("dw".into());
    }
}

fn fault(kind: Kind) -> io::Result<(usize, Vec<OwnedFd>)> {
    match kind {
        Kind::Eof => Ok((0, vec![])),
        Kind::Reset => Err(io::Error::new(io::ErrorKind::ConnectionReset, "scripted reset")),
    }
}

#[async_trait::async_trait]
impl ReadHalf for RHalf {
    async fn recvmsg(&mut self, buf: &mut [u8]) -> io::Result<(usize, Vec<OwnedFd>)> {
        let sh = self.0.clone();
        poll_fn(move |cx| {
            let mut st = sh.lock().unwrap();
            if st.broken || st.rfault == Some(st.rpos) {
                st.activity += 1;
                st.after_fault += 1;
                if st.after_fault > 5000 {
                    drop(st);
                    panic!("the reader keeps calling recvmsg after the transport failed");
                }
                return Poll::Ready(fault(st.kind));
            }
            let limit = match st.rfault {
                Some(p) => p.min(st.inb.len()),
                None => st.inb.len(),
            };
            let avail = limit.saturating_sub(st.rpos);
            if avail == 0 {
                st.rwaker = Some(cx.waker().clone());
                return Poll::Pending;
            }
            let n = avail.min(buf.len()).min(st.rchunk.max(1));
            let p = st.rpos;
            buf[..n].copy_from_slice(&st.inb[p..p + n]);
            st.rpos += n;
            st.activity += 1;
            Poll::Ready(Ok((n, vec![])))
        })
        .await
    }
}

#[async_trait::async_trait]
impl WriteHalf for WHalf {
    async fn sendmsg(&mut self, buf: &[u8], _fds: &[BorrowedFd<'_>]) -> io::Result<usize> {
        let mut st = self.0.lock().unwrap();
        st.activity += 1;
        if st.broken || st.wfault == Some(st.wcalls) {
            st.broken = true;
            if let Some(w) = st.rwaker.take() {
                w.wake();
            }
            return Err(io::Error::new(io::ErrorKind::ConnectionAborted, "scripted abort"));
        }
        st.wcalls += 1;
        if st.msg_left == 0 && buf.len() >= 16 {
            // first chunk of a message: `send_message` offers the whole message
            let serial = u32::from_le_bytes([buf[8], buf[9], buf[10], buf[11]]);
            let (task, off) = (st.cur_task, st.out.len());
            st.starts.push(MsgStart { task, serial, len: buf.len(), off });
            st.events.push(format!("w{}", serial));
            st.msg_left = buf.len();
        }
        let n = buf.len().min(st.wchunk.max(1));
        st.out.extend_from_slice(&buf[..n]);
        st.msg_left = st.msg_left.saturating_sub(n);
        Ok(n)
    }
    async fn close(&mut self) -> io::Result<()> {
        let mut st = self.0.lock().unwrap();
        st.events.push("cl".into());
        Ok(())
    }
}

pub struct Sock(pub Sh);
impl Socket for Sock {
    type ReadHalf = RHalf;
    type WriteHalf = WHalf;
    fn split(self) -> Split<RHalf, WHalf> {
        Split::new(RHalf(self.0.clone()), WHalf(self.0))
    }
}

pub const GUID: &str = "0123456789abcdef0123456789abcdef";
